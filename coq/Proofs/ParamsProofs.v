(* Proofs about Model/Params.v (property C08, used by C05): quote-aware splitting inverts
   quote-aware joining, Parameters.from_ical inverts Parameters.to_ical. *)
Require Import Lib.Base Lib.Chain Gen.Gen_parser Model.Params Proofs.ChainProofs.
From Coq Require Import Lia Arith Permutation.

(* ------------------------------------------------------------------ facts about the generated classes *)
(* a sound inclusion test on range lists: every range of [a] lies inside one range of [b] *)
Definition ranges_within (a b : list (N * N)) : bool :=
  forallb (fun r : N * N => existsb (fun r' : N * N => (fst r' <=? fst r) && (snd r <=? snd r')) b) a.

Lemma ranges_within_sound a b : ranges_within a b = true ->
  forall c, in_ranges a c = true -> in_ranges b c = true.
Proof.
  unfold ranges_within, in_ranges. intros H c Hc.
  rewrite forallb_forall in H. apply existsb_exists in Hc. destruct Hc as (r & Hr & Hin).
  specialize (H r Hr). apply existsb_exists in H. destruct H as (r' & Hr' & Hcov).
  apply existsb_exists. exists r'. split; [exact Hr'|].
  apply andb_true_iff in Hin, Hcov. destruct Hin as [H1 H2]. destruct Hcov as [H3 H4].
  apply N.leb_le in H1, H2, H3, H4. apply andb_true_iff. split; apply N.leb_le; lia.
Qed.

(* obligations on the generated character classes (they change if parser.py's regexes change) *)
Lemma unsafe_within : ranges_within UNSAFE_CHAR_ranges (QUNSAFE_CHAR_ranges ++ QUOTABLE_ranges) = true.
Proof. vm_compute. reflexivity. Qed.

Lemma qunsafe_within_unsafe : ranges_within QUNSAFE_CHAR_ranges UNSAFE_CHAR_ranges = true.
Proof. vm_compute. reflexivity. Qed.

Lemma quotable_delims : forallb (in_ranges QUOTABLE_ranges) [44; 58; 59] = true.
Proof. vm_compute. reflexivity. Qed.

Lemma qunsafe_dquote : in_ranges QUNSAFE_CHAR_ranges 34 = true.
Proof. vm_compute. reflexivity. Qed.

Lemma in_ranges_app a b c : in_ranges (a ++ b) c = in_ranges a c || in_ranges b c.
Proof. unfold in_ranges. apply existsb_app. Qed.

Lemma unsafe_split c : in_ranges UNSAFE_CHAR_ranges c = true ->
  in_ranges QUNSAFE_CHAR_ranges c = true \/ in_ranges QUOTABLE_ranges c = true.
Proof.
  intros H. apply (ranges_within_sound _ _ unsafe_within) in H.
  rewrite in_ranges_app in H. apply orb_true_iff in H. exact H.
Qed.

Lemma quotable_44 : in_ranges QUOTABLE_ranges 44 = true. Proof. vm_compute. reflexivity. Qed.
Lemma quotable_58 : in_ranges QUOTABLE_ranges 58 = true. Proof. vm_compute. reflexivity. Qed.
Lemma quotable_59 : in_ranges QUOTABLE_ranges 59 = true. Proof. vm_compute. reflexivity. Qed.

(* ------------------------------------------------------------------ walking a string with quote state *)
(* [qwalk bad inq s]: None if a [bad] character occurs outside double quotes, else the final
   quote state.  (The toggle is applied before the test, as q_split does; for bad <> DQUOTE
   this is the same as testing before the toggle, as Contentline.parts does.) *)
Fixpoint qwalk (bad : N -> bool) (inq : bool) (s : list N) : option bool :=
  match s with
  | [] => Some inq
  | c :: r => let inq' := if c =? 34 then negb inq else inq in
              if negb inq' && bad c then None else qwalk bad inq' r
  end.

Lemma qwalk_app bad : forall a inq b,
  qwalk bad inq (a ++ b) = match qwalk bad inq a with Some j => qwalk bad j b | None => None end.
Proof.
  induction a as [|c a IH]; intros inq b; [reflexivity|].
  cbn [app qwalk]. destruct (negb _ && bad c); [reflexivity|apply IH].
Qed.

Lemma no_chr_cons c x s : no_chr c (x :: s) = true <-> x <> c /\ no_chr c s = true.
Proof.
  unfold no_chr. cbn [mem_chr]. rewrite negb_orb, andb_true_iff, negb_true_iff, N.eqb_neq.
  intuition congruence.
Qed.

Lemma no_chr_app c a b : no_chr c (a ++ b) = no_chr c a && no_chr c b.
Proof.
  induction a as [|x a IH]; [reflexivity|].
  unfold no_chr in *. cbn [app mem_chr]. rewrite !negb_orb, IH, andb_assoc. reflexivity.
Qed.

(* inside quotes nothing is bad until the closing quote *)
Lemma qwalk_inside bad : forall s, no_chr 34 s = true -> qwalk bad true s = Some true.
Proof.
  induction s as [|c s IH]; intros H; [reflexivity|].
  apply no_chr_cons in H. destruct H as [Hc Hs]. cbn [qwalk].
  apply N.eqb_neq in Hc. rewrite Hc. cbn [negb andb]. apply IH. exact Hs.
Qed.

Lemma qwalk_outside bad : forall s, no_chr 34 s = true -> existsb bad s = false ->
  qwalk bad false s = Some false.
Proof.
  induction s as [|c s IH]; intros H Hb; [reflexivity|].
  apply no_chr_cons in H. destruct H as [Hc Hs]. cbn [existsb] in Hb.
  apply orb_false_iff in Hb. destruct Hb as [Hbc Hbs]. cbn [qwalk].
  apply N.eqb_neq in Hc. rewrite Hc, Hbc. cbn [negb andb]. apply IH; assumption.
Qed.

(* ------------------------------------------------------------------ dquote *)
Lemma dq_clean_no_quote v : no_chr 34 (dq_clean v) = true.
Proof.
  induction v as [|c v IH]; [reflexivity|].
  cbn [dq_clean map]. apply no_chr_cons. split; [|exact IH].
  destruct (N.eqb_spec c 34); [discriminate|assumption].
Qed.

Lemma dq_clean_id v : no_chr 34 v = true -> dq_clean v = v.
Proof.
  induction v as [|c v IH]; intros H; [reflexivity|].
  apply no_chr_cons in H. destruct H as [Hc Hv]. cbn [dq_clean map].
  apply N.eqb_neq in Hc. rewrite Hc. f_equal. apply IH. exact Hv.
Qed.

Lemma existsb_false_In {A} (f : A -> bool) l : existsb f l = false -> forall x, In x l -> f x = false.
Proof.
  intros H x Hx. destruct (f x) eqn:E; [|reflexivity].
  assert (existsb f l = true) by (apply existsb_exists; exists x; split; assumption). congruence.
Qed.

Lemma existsb_eqb_mem b s : existsb (fun c => c =? b) s = mem_chr b s.
Proof.
  induction s as [|c s IH]; [reflexivity|]. cbn [existsb mem_chr]. rewrite IH, (N.eqb_sym c b). reflexivity.
Qed.

(* a rendered parameter value never shows a quotable delimiter outside double quotes *)
Lemma dquote_walk v b : in_ranges QUOTABLE_ranges b = true -> b <> 34 ->
  qwalk (fun c => c =? b) false (dquote v) = Some false.
Proof.
  intros Hb Hne. unfold dquote. pose proof (dq_clean_no_quote v) as Hq.
  destruct (existsb (in_ranges QUOTABLE_ranges) (dq_clean v)) eqn:E.
  - cbn [qwalk]. rewrite N.eqb_refl. cbn [negb andb].
    rewrite qwalk_app, (qwalk_inside _ _ Hq). cbn [qwalk]. rewrite N.eqb_refl. cbn [negb].
    apply N.eqb_neq in Hne. rewrite (N.eqb_sym 34 b), Hne. reflexivity.
  - apply qwalk_outside; [exact Hq|].
    destruct (existsb (fun c => c =? b) (dq_clean v)) eqn:E2; [|reflexivity].
    apply existsb_exists in E2. destruct E2 as (c & Hc & Hcb). apply N.eqb_eq in Hcb. subst c.
    rewrite (existsb_false_In _ _ E b Hc) in Hb. discriminate.
Qed.

(* ------------------------------------------------------------------ q_split inverts join_with *)
Lemma q_split_piece sep : sep <> 34 -> forall s inq n cur rest,
  qwalk (fun c => c =? sep) inq s = Some false ->
  q_split_aux sep None inq n cur (s ++ sep :: rest) =
  (rev cur ++ s) :: match rest with [] => [[]] | _ => q_split_aux sep None false (S n) [] rest end.
Proof.
  intros Hsep. induction s as [|c s IH]; intros inq n cur rest H.
  - cbn in H. inversion H; subst inq. cbn [app q_split_aux].
    apply N.eqb_neq in Hsep. rewrite Hsep, N.eqb_refl. cbn [negb andb orb].
    rewrite app_nil_r. destruct rest; reflexivity.
  - cbn [qwalk] in H. cbn [app q_split_aux].
    set (inq' := if c =? 34 then negb inq else inq) in *.
    destruct (negb inq' && (c =? sep)) eqn:E; [discriminate|].
    assert (match s ++ sep :: rest with [] => true | _ => false end = false) as Hne
      by (destruct s; reflexivity).
    rewrite Hne. cbn [orb]. rewrite (IH inq' n (c :: cur) rest H).
    cbn [rev]. rewrite <- app_assoc. reflexivity.
Qed.

Lemma q_split_last sep : forall s inq n cur j, s <> [] ->
  qwalk (fun c => c =? sep) inq s = Some j ->
  q_split_aux sep None inq n cur s = [rev cur ++ s].
Proof.
  induction s as [|c s IH]; intros inq n cur j Hne H; [congruence|].
  cbn [qwalk] in H. cbn [q_split_aux].
  set (inq' := if c =? 34 then negb inq else inq) in *.
  destruct (negb inq' && (c =? sep)) eqn:E; [discriminate|].
  destruct s as [|d s].
  - cbn [orb]. rewrite app_nil_r. reflexivity.
  - cbn [orb]. rewrite (IH inq' n (c :: cur) j ltac:(discriminate) H).
    cbn [rev]. rewrite <- app_assoc. reflexivity.
Qed.

Definition qs_norm (pieces : list (list N)) : list (list N) :=
  match pieces with [[]] => [] | _ => pieces end.

Lemma qs_norm_two x y r : qs_norm (x :: y :: r) = x :: y :: r.
Proof. destruct x; reflexivity. Qed.

Lemma join_with_nil sep : forall l, join_with sep l = [] -> l = [] \/ l = [[]].
Proof.
  intros [|x [|y r]] H; [left; reflexivity| |].
  - cbn in H. subst x. right. reflexivity.
  - cbn [join_with] in H. destruct x; discriminate.
Qed.

Lemma q_split_join sep : sep <> 34 -> forall pieces n,
  pieces <> [] ->
  Forall (fun p => qwalk (fun c => c =? sep) false p = Some false) pieces ->
  q_split_aux sep None false n [] (join_with sep pieces) = qs_norm pieces.
Proof.
  intros Hsep. induction pieces as [|x r IH]; intros n Hne Hall; [congruence|].
  inversion Hall as [|x' r' Hx Hr]; subst.
  destruct r as [|y r].
  - cbn [join_with]. destruct x as [|c x]; [reflexivity|].
    rewrite (q_split_last sep (c :: x) false n [] false ltac:(discriminate) Hx). reflexivity.
  - change (join_with sep (x :: y :: r)) with (x ++ sep :: join_with sep (y :: r)).
    rewrite (q_split_piece sep Hsep x false n [] _ Hx). cbn [rev app].
    rewrite (IH (S n) ltac:(discriminate) Hr). rewrite qs_norm_two.
    destruct (join_with sep (y :: r)) eqn:Ej.
    + apply join_with_nil in Ej. destruct Ej as [Ej|Ej]; [discriminate|]. inversion Ej; subst. reflexivity.
    + f_equal. unfold qs_norm. destruct y as [|c y]; [|reflexivity]. destruct r; [discriminate|reflexivity].
Qed.

Lemma q_split_none st sep : q_split st sep None = q_split_aux sep None false 0 [] st.
Proof. reflexivity. Qed.

(* splitting KEY=value at the first '=' *)
Lemma q_split_key : forall k cur v, no_chr 61 k = true -> no_chr 34 k = true ->
  q_split_aux 61 (Some 1%nat) false 0 cur (k ++ 61 :: v) = [rev cur ++ k; v].
Proof.
  induction k as [|c k IH]; intros cur v H61 H34.
  - cbn [app q_split_aux]. cbn. rewrite app_nil_r. destruct v; reflexivity.
  - apply no_chr_cons in H61, H34. destruct H61 as [Hc61 Hk61]. destruct H34 as [Hc34 Hk34].
    cbn [app q_split_aux]. apply N.eqb_neq in Hc61, Hc34. rewrite Hc34, Hc61. cbn [negb andb].
    assert (match k ++ 61 :: v with [] => true | _ => false end = false) as Hne
      by (destruct k; reflexivity).
    rewrite Hne. cbn [orb Nat.eqb]. rewrite (IH (c :: cur) v Hk61 Hk34).
    cbn [rev]. rewrite <- app_assoc. reflexivity.
Qed.

(* ------------------------------------------------------------------ tokens *)

Lemma token_chr_facts c : is_token_chr c = true ->
  c <? 128 = true /\ is_token_chr (upper_chr c) = true /\ c <> 61 /\ c <> 34 /\ c <> 58 /\ c <> 59
  /\ c <> 37 /\ c <> 92 /\ upper_chr c <> 61 /\ upper_chr c <> 34 /\ upper_chr c <> 58 /\ upper_chr c <> 59
  /\ upper_chr c <> 37 /\ upper_chr c <> 92 /\ upper_chr c <? 128 = true /\ upper_chr (upper_chr c) = upper_chr c
  /\ upper_chr c <> 10.
Proof.
  unfold is_token_chr, upper_chr, is_lower, is_upper, is_digit. intros H.
  destruct (97 <=? c) eqn:E1; destruct (c <=? 122) eqn:E2; cbn [andb] in *;
    repeat match goal with
           | H : (_ <=? _) = true |- _ => apply N.leb_le in H
           | H : (_ <=? _) = false |- _ => apply N.leb_gt in H
           end.
  all: rewrite ?orb_true_iff, ?andb_true_iff, ?N.leb_le, ?N.eqb_eq in H.
  all: repeat split; try (apply N.ltb_lt); try lia.
  all: try (rewrite ?orb_true_iff, ?andb_true_iff, ?N.leb_le, ?N.eqb_eq; lia).
  all: try (destruct (97 <=? c - 32) eqn:E3; destruct (c - 32 <=? 122) eqn:E4; cbn [andb];
            repeat match goal with
                   | H : (_ <=? _) = true |- _ => apply N.leb_le in H
                   | H : (_ <=? _) = false |- _ => apply N.leb_gt in H
                   end; lia).
  all: try (destruct (97 <=? c) eqn:E3; destruct (c <=? 122) eqn:E4; cbn [andb];
            repeat match goal with
                   | H : (_ <=? _) = true |- _ => apply N.leb_le in H
                   | H : (_ <=? _) = false |- _ => apply N.leb_gt in H
                   end; try reflexivity; lia).
Qed.

(* ------------------------------------------------------------------ values *)
Lemma forallb_token k : is_token k = true -> k <> [] /\ Forall (fun c => is_token_chr c = true) k.
Proof.
  unfold is_token. intros H. apply andb_true_iff in H. destruct H as [Hn Hf]. split.
  - destruct k; [discriminate|discriminate].
  - apply Forall_forall. rewrite forallb_forall in Hf. exact Hf.
Qed.

Lemma upper_token k : is_token k = true ->
  is_token (upper k) = true /\ all_ascii (upper k) = true /\ no_chr 61 (upper k) = true
  /\ no_chr 34 (upper k) = true /\ no_chr 58 (upper k) = true /\ no_chr 59 (upper k) = true
  /\ no_chr 37 (upper k) = true /\ no_chr 92 (upper k) = true /\ upper (upper k) = upper k
  /\ upper k <> [] /\ no_chr 10 (upper k) = true.
Proof.
  intros H. destruct (forallb_token k H) as [Hne Hall]. clear H.
  assert (upper k <> []) as Hne' by (destruct k; [congruence|discriminate]).
  unfold is_token, all_ascii, upper.
  induction Hall as [|c k Hc Hk IH].
  - congruence.
  - destruct (token_chr_facts c Hc) as (F1 & F2 & F3 & F4 & F5 & F6 & F7 & F8 & G3 & G4 & G5 & G6 & G7 & G8 & G1 & G9 & G10).
    destruct k as [|d k].
    + cbn [map forallb nonempty_b andb]. rewrite F2, G1, G9. cbn [andb].
      repeat split; try reflexivity; try discriminate; apply no_chr_cons; (split; [assumption|reflexivity]).
    + destruct (IH ltac:(discriminate) ltac:(discriminate)) as (I1 & I2 & I3 & I4 & I5 & I6 & I7 & I8 & I9 & _ & I10).
      cbn [map forallb nonempty_b andb] in *. rewrite F2, G1, G9, I1, I2. cbn [andb].
      repeat split; try reflexivity; try discriminate.
      all: try (apply no_chr_cons; split; assumption).
      f_equal. exact I9.
Qed.

Lemma rev_cons_quote v : rev (34 :: v ++ [34]) = 34 :: rev v ++ [34].
Proof. cbn [rev]. rewrite rev_app_distr. reflexivity. Qed.

Lemma lstrip_q_noq v : no_chr 34 v = true -> forall r, lstrip_q (v ++ r) = match v with [] => lstrip_q r | _ => v ++ r end.
Proof.
  intros H r. destruct v as [|c v]; [reflexivity|].
  apply no_chr_cons in H. destruct H as [Hc _]. cbn [app lstrip_q].
  apply N.eqb_neq in Hc. rewrite Hc. reflexivity.
Qed.

Lemma no_chr_rev c v : no_chr c (rev v) = no_chr c v.
Proof.
  induction v as [|x v IH]; [reflexivity|]. cbn [rev]. rewrite no_chr_app, IH.
  unfold no_chr. cbn [mem_chr]. rewrite orb_false_r, negb_orb, andb_comm. reflexivity.
Qed.

Lemma strip_q_quoted v : no_chr 34 v = true -> strip_q (34 :: v ++ [34]) = v.
Proof.
  intros H. unfold strip_q. cbn [lstrip_q]. rewrite N.eqb_refl.
  rewrite (lstrip_q_noq v H [34]).
  destruct v as [|c v].
  - reflexivity.
  - rewrite rev_app_distr. cbn [rev app lstrip_q]. rewrite N.eqb_refl.
    assert (no_chr 34 (rev v ++ [c]) = true) as Hr.
    { change (rev v ++ [c]) with (rev (c :: v)). rewrite no_chr_rev. exact H. }
    pose proof (lstrip_q_noq _ Hr []) as L. rewrite app_nil_r in L. rewrite L.
    destruct (rev v ++ [c]) eqn:E; [destruct (rev v); discriminate|].
    rewrite <- E. rewrite rev_app_distr, rev_involutive. reflexivity.
Qed.

Lemma starts_q_noq v : no_chr 34 v = true -> starts_q v = false.
Proof.
  destruct v as [|c v]; [reflexivity|]. intros H. apply no_chr_cons in H. destruct H as [Hc _].
  cbn. apply N.eqb_neq. exact Hc.
Qed.

Lemma parse_one_dquote v : wf_val v = true ->
  (if starts_q (dquote v) && ends_q (dquote v)
   then bind (validate_param_value (strip_q (dquote v)) true) (fun _ => Ok (strip_q (dquote v)))
   else bind (validate_param_value (dquote v) false) (fun _ => Ok (dquote v))) = Ok (dq_clean v).
Proof.
  unfold wf_val. intros Hwf. apply negb_true_iff in Hwf.
  pose proof (dq_clean_no_quote v) as Hq. unfold dquote.
  destruct (existsb (in_ranges QUOTABLE_ranges) (dq_clean v)) eqn:E.
  - assert (starts_q (34 :: dq_clean v ++ [34]) = true) as Hs by reflexivity.
    assert (ends_q (34 :: dq_clean v ++ [34]) = true) as He.
    { unfold ends_q. rewrite rev_cons_quote. reflexivity. }
    rewrite Hs, He. cbn [andb]. rewrite (strip_q_quoted _ Hq).
    unfold validate_param_value. rewrite Hwf. reflexivity.
  - rewrite (starts_q_noq _ Hq). cbn [andb]. unfold validate_param_value.
    destruct (existsb (in_ranges UNSAFE_CHAR_ranges) (dq_clean v)) eqn:E2; [|reflexivity].
    exfalso. apply existsb_exists in E2. destruct E2 as (c & Hc & Hu).
    destruct (unsafe_split c Hu) as [H1|H1].
    + rewrite (existsb_false_In _ _ Hwf c Hc) in H1. discriminate.
    + rewrite (existsb_false_In _ _ E c Hc) in H1. discriminate.
Qed.

Lemma parse_vals_dquote : forall vs, forallb wf_val vs = true ->
  parse_vals (map dquote vs) = Ok (map dq_clean vs).
Proof.
  induction vs as [|v vs IH]; intros H; [reflexivity|].
  cbn [forallb] in H. apply andb_true_iff in H. destruct H as [Hv Hvs].
  cbn [map parse_vals]. cbv zeta. rewrite (parse_one_dquote v Hv). cbn [bind]. rewrite (IH Hvs). reflexivity.
Qed.

Lemma dquote_nil v : dquote v = [] -> v = [].
Proof.
  unfold dquote. destruct (existsb _ _); [discriminate|].
  destruct v; [reflexivity|discriminate].
Qed.

(* the comma-split of a rendered parameter value, decoded *)
Lemma split_param_value pv : wf_pval pv = true ->
  bind (parse_vals (q_split (param_value pv) 44 None))
       (fun vals => match vals with
                    | [] => Ok (PStr (param_value pv))
                    | [v] => Ok (PStr v)
                    | _ => Ok (PList vals)
                    end) = Ok (canon_pval pv).
Proof.
  assert (H44 : (44:N) <> 34) by discriminate.
  destruct pv as [s|l]; cbn [wf_pval param_value canon_pval]; intros Hwf.
  - rewrite q_split_none. destruct (dquote s) as [|c d] eqn:Ed.
    + apply dquote_nil in Ed. subst s. reflexivity.
    + rewrite <- Ed.
      rewrite (q_split_last 44 (dquote s) false 0 [] false ltac:(rewrite Ed; discriminate) (dquote_walk s 44 quotable_44 H44)).
      cbn [rev app]. pose proof (parse_vals_dquote [s]) as P. cbn [map forallb] in P.
      rewrite P by (rewrite Hwf; reflexivity). reflexivity.
  - destruct l as [|x [|y r]].
    + reflexivity.
    + (* one element: same wire text as the bare string *)
      cbn [q_join map join_with]. cbn [forallb] in Hwf. rewrite andb_true_r in Hwf.
      rewrite q_split_none. destruct (dquote x) as [|c d] eqn:Ed.
      * apply dquote_nil in Ed. subst x. reflexivity.
      * rewrite <- Ed.
        rewrite (q_split_last 44 (dquote x) false 0 [] false ltac:(rewrite Ed; discriminate) (dquote_walk x 44 quotable_44 H44)).
        cbn [rev app]. pose proof (parse_vals_dquote [x]) as P. cbn [map forallb] in P.
        rewrite P by (rewrite Hwf; reflexivity). reflexivity.
    + unfold q_join. rewrite q_split_none.
      rewrite (q_split_join 44 H44 (map dquote (x :: y :: r)) 0 ltac:(discriminate)).
      * cbn [map]. rewrite qs_norm_two.
        pose proof (parse_vals_dquote (x :: y :: r) Hwf) as P. cbn [map] in P. rewrite P. reflexivity.
      * apply Forall_forall. intros p Hp. apply in_map_iff in Hp. destruct Hp as (v & <- & _).
        apply dquote_walk; [exact quotable_44|exact H44].
Qed.

Lemma validate_token_ok t : is_token t = true -> all_ascii t = true -> validate_token t = Ok tt.
Proof.
  unfold is_token, validate_token. intros H Ha. rewrite Ha. cbn [negb].
  apply andb_true_iff in H. destruct H as [Hn Hf]. destruct t; [discriminate|]. rewrite Hf. reflexivity.
Qed.

Definition render (kv : list N * pval) : list N := upper (fst kv) ++ 61 :: param_value (snd kv).

Lemma parse_param_render kv : is_token (fst kv) = true -> wf_pval (snd kv) = true ->
  parse_param (render kv) = Ok (upper (fst kv), canon_pval (snd kv)).
Proof.
  destruct kv as [k pv]. cbn [fst snd]. intros Hk Hv. unfold parse_param, render. cbn [fst snd].
  destruct (upper_token k Hk) as (T1 & T2 & T3 & T4 & _ & _ & _ & _ & T9 & _).
  unfold q_split. rewrite (q_split_key (upper k) [] (param_value pv) T3 T4). cbn [rev app].
  rewrite (validate_token_ok _ T1 T2). cbn [bind]. rewrite T9.
  pose proof (split_param_value pv Hv) as S. unfold q_split in S.
  destruct (parse_vals (q_split_aux 44 None false 0 [] (param_value pv))) as [vals| | |]; cbn [bind] in *;
    try discriminate.
  destruct vals as [|v1 [|v2 vr]]; inversion S; reflexivity.
Qed.

(* the walk of a rendered parameter over ';' and ':' *)
Lemma walk_noq_nobad bad k : no_chr 34 k = true -> existsb bad k = false -> forall r inq,
  qwalk bad inq (k ++ r) = qwalk bad inq r.
Proof.
  induction k as [|c k IH]; intros H34 Hb r inq; [reflexivity|].
  apply no_chr_cons in H34. destruct H34 as [Hc Hk]. cbn [existsb] in Hb. apply orb_false_iff in Hb.
  destruct Hb as [Hbc Hbk]. cbn [app qwalk]. apply N.eqb_neq in Hc. rewrite Hc, Hbc, andb_false_r.
  apply IH; assumption.
Qed.

Lemma no_chr_existsb b k : no_chr b k = true -> existsb (fun c => c =? b) k = false.
Proof. unfold no_chr. rewrite existsb_eqb_mem. apply negb_true_iff. Qed.

Lemma param_value_walk pv b : in_ranges QUOTABLE_ranges b = true -> b <> 34 -> b <> 44 ->
  qwalk (fun c => c =? b) false (param_value pv) = Some false.
Proof.
  intros Hb H34 H44. destruct pv as [s|l]; cbn [param_value]; [apply dquote_walk; assumption|].
  unfold q_join. induction l as [|x l IH]; [reflexivity|].
  destruct l as [|y l]; [cbn [map join_with]; apply dquote_walk; assumption|].
  change (join_with 44 (map dquote (x :: y :: l))) with (dquote x ++ 44 :: join_with 44 (map dquote (y :: l))).
  rewrite qwalk_app, (dquote_walk x b Hb H34). cbn [qwalk].
  assert ((44 =? b) = false) as E by (apply N.eqb_neq; congruence). rewrite E.
  cbn [N.eqb Pos.eqb negb andb]. exact IH.
Qed.

Lemma render_walk kv b : is_token (fst kv) = true -> in_ranges QUOTABLE_ranges b = true ->
  b = 58 \/ b = 59 -> qwalk (fun c => c =? b) false (render kv) = Some false.
Proof.
  intros Hk Hb Hbb. destruct (upper_token (fst kv) Hk) as (_ & _ & _ & T4 & T5 & T6 & _).
  unfold render. rewrite walk_noq_nobad; [|exact T4|apply no_chr_existsb; destruct Hbb; subst b; assumption].
  cbn [qwalk]. assert ((61 =? b) = false) as E by (destruct Hbb; subst b; reflexivity). rewrite E.
  cbn [N.eqb Pos.eqb negb andb]. apply param_value_walk; [exact Hb| |]; destruct Hbb; subst b; discriminate.
Qed.

(* ------------------------------------------------------------------ the dictionary built by the parser *)
Lemma dict_set_fresh {V} (k : list N) (v : V) : forall d,
  existsb (str_eqb k) (map fst d) = false -> dict_set k v d = d ++ [(k, v)].
Proof.
  induction d as [|[k' v'] d IH]; intros H; [reflexivity|].
  cbn [map fst existsb] in H. apply orb_false_iff in H. destruct H as [H1 H2].
  cbn [dict_set app]. rewrite H1. f_equal. apply IH. exact H2.
Qed.

Lemma existsb_app_false {A} (f : A -> bool) a b : existsb f (a ++ b) = false <-> existsb f a = false /\ existsb f b = false.
Proof. rewrite existsb_app. apply orb_false_iff. Qed.

Lemma str_eqb_sym a b : str_eqb a b = str_eqb b a.
Proof.
  destruct (str_eqb a b) eqn:E1; destruct (str_eqb b a) eqn:E2; try reflexivity.
  - apply str_eqb_eq in E1. subst. assert (str_eqb b b = true) by (apply str_eqb_eq; reflexivity). congruence.
  - apply str_eqb_eq in E2. subst. assert (str_eqb a a = true) by (apply str_eqb_eq; reflexivity). congruence.
Qed.

Lemma parse_params_list_render : forall its acc,
  forallb (fun kv : list N * pval => is_token (fst kv) && wf_pval (snd kv)) its = true ->
  nodup_strs (map (fun kv : list N * pval => upper (fst kv)) its) = true ->
  (forall kv, In kv its -> existsb (str_eqb (upper (fst kv))) (map fst acc) = false) ->
  parse_params_list (map render its) acc = Ok (acc ++ canon_params its).
Proof.
  induction its as [|kv its IH]; intros acc Hwf Hnd Hfresh.
  - cbn. rewrite app_nil_r. reflexivity.
  - cbn [forallb] in Hwf. apply andb_true_iff in Hwf. destruct Hwf as [Hkv Hwf].
    apply andb_true_iff in Hkv. destruct Hkv as [Hk Hv].
    cbn [map nodup_strs] in Hnd. apply andb_true_iff in Hnd. destruct Hnd as [Hn1 Hnd].
    apply negb_true_iff in Hn1.
    cbn [map parse_params_list]. rewrite (parse_param_render kv Hk Hv). cbn [bind fst snd].
    rewrite dict_set_fresh by (apply Hfresh; left; reflexivity).
    rewrite IH; [| exact Hwf | exact Hnd |].
    + cbn [canon_params map]. rewrite <- app_assoc. reflexivity.
    + intros kv' Hin. rewrite map_app. apply existsb_app_false. split.
      * apply Hfresh. right. exact Hin.
      * cbn [map fst existsb]. rewrite orb_false_r.
        rewrite str_eqb_sym. apply (existsb_false_In _ _ Hn1). apply in_map_iff. exists kv'. split; [reflexivity|exact Hin].
Qed.

Lemma render_nonempty kv : render kv <> [].
Proof. unfold render. destruct (upper (fst kv)); discriminate. Qed.

Lemma params_roundtrip_unsorted its : wf_params its = true ->
  params_from_ical (join_with 59 (map render its)) = Ok (canon_params its).
Proof.
  unfold wf_params. intros H. apply andb_true_iff in H. destruct H as [Hwf Hnd].
  unfold params_from_ical. rewrite q_split_none.
  destruct its as [|kv its]; [reflexivity|].
  rewrite (q_split_join 59 ltac:(discriminate) (map render (kv :: its)) 0 ltac:(discriminate)).
  - assert (qs_norm (map render (kv :: its)) = map render (kv :: its)) as En.
    { cbn [map]. unfold qs_norm. destruct (render kv) eqn:E; [exfalso; exact (render_nonempty kv E)|reflexivity]. }
    rewrite En. rewrite (parse_params_list_render (kv :: its) [] Hwf Hnd); [reflexivity|].
    intros; reflexivity.
  - apply Forall_forall. intros p Hp. apply in_map_iff in Hp. destruct Hp as (kv' & <- & Hin).
    rewrite forallb_forall in Hwf. specialize (Hwf kv' Hin). apply andb_true_iff in Hwf.
    apply render_walk; [apply Hwf|exact quotable_59|right; reflexivity].
Qed.

(* ------------------------------------------------------------------ sorting keeps well-formedness *)
Lemma insert_sorted_perm {V} (e : list N * V) : forall l, Permutation (insert_sorted e l) (e :: l).
Proof.
  induction l as [|x l IH]; [reflexivity|]. cbn [insert_sorted].
  destruct (str_leb (fst e) (fst x)); [reflexivity|].
  rewrite IH. apply perm_swap.
Qed.

Lemma sort_items_perm {V} : forall l : list (list N * V), Permutation (sort_items l) l.
Proof.
  induction l as [|x l IH]; [reflexivity|]. unfold sort_items in *. cbn [fold_right].
  rewrite insert_sorted_perm. constructor. exact IH.
Qed.

Lemma nodup_strs_spec l : nodup_strs l = true <-> NoDup l.
Proof.
  induction l as [|x l IH]; cbn [nodup_strs].
  - split; [constructor|reflexivity].
  - rewrite andb_true_iff, negb_true_iff, IH. split.
    + intros [H1 H2]. constructor; [|exact H2]. intros Hin.
      assert (existsb (str_eqb x) l = true) as E.
      { apply existsb_exists. exists x. split; [exact Hin|apply str_eqb_eq; reflexivity]. }
      congruence.
    + intros H. inversion H as [|x' l' Hn Hd]; subst. split; [|exact Hd].
      destruct (existsb (str_eqb x) l) eqn:E; [|reflexivity].
      apply existsb_exists in E. destruct E as (y & Hy & Hxy). apply str_eqb_eq in Hxy. subst y. contradiction.
Qed.

Lemma wf_params_perm a b : Permutation a b -> wf_params a = true -> wf_params b = true.
Proof.
  unfold wf_params. intros P H. apply andb_true_iff in H. destruct H as [H1 H2]. apply andb_true_iff. split.
  - rewrite forallb_forall in *. intros x Hx. apply H1. apply (Permutation_in x (Permutation_sym P) Hx).
  - apply nodup_strs_spec. apply nodup_strs_spec in H2.
    apply (Permutation_NoDup (Permutation_map _ P) H2).
Qed.

Lemma wf_params_order sorted ps : wf_params ps = true -> wf_params (order_params sorted ps) = true.
Proof.
  destruct sorted; cbn [order_params]; [|auto].
  apply wf_params_perm. apply Permutation_sym. apply sort_items_perm.
Qed.

Lemma params_to_ical_render sorted ps :
  params_to_ical sorted ps = join_with 59 (map render (order_params sorted ps)).
Proof. reflexivity. Qed.

(* ------------------------------------------------------------------ C08: Parameters alone *)
Theorem params_rt sorted ps : wf_params ps = true ->
  params_from_ical (params_to_ical sorted ps) = Ok (canon_params (order_params sorted ps)).
Proof.
  intros H. rewrite params_to_ical_render. apply params_roundtrip_unsorted. apply wf_params_order. exact H.
Qed.

(* every emitted value that contains a comma, semicolon or colon is inside double quotes and
   has no double quote inside *)
Theorem params_quoted v : existsb (fun c => (c =? 44) || (c =? 58) || (c =? 59)) (dquote v) = true ->
  dquote v = 34 :: dq_clean v ++ [34] /\ no_chr 34 (dq_clean v) = true.
Proof.
  intros H. split; [|apply dq_clean_no_quote]. unfold dquote in *.
  destruct (existsb (in_ranges QUOTABLE_ranges) (dq_clean v)) eqn:E; [reflexivity|].
  exfalso. apply existsb_exists in H. destruct H as (c & Hc & Hd).
  pose proof (existsb_false_In _ _ E c Hc) as Hq.
  rewrite !orb_true_iff, !N.eqb_eq in Hd. destruct Hd as [[->| ->]| ->].
  - rewrite quotable_44 in Hq. discriminate.
  - rewrite quotable_58 in Hq. discriminate.
  - rewrite quotable_59 in Hq. discriminate.
Qed.
