(* Proofs for C10: the serialisation is a balanced bracket word denoting the component tree; without
   sorting it follows the insertion order; with sorting it does not depend on the insertion order of
   properties and parameters. *)
Require Import Lib.Base Lib.Chain Gen.Gen_parser Gen.Gen_cal Model.Text Model.Params Model.Fold Model.Contentline Model.Sort Model.Tree Model.TreeOps Model.Serial Model.UsedTz.
Require Import Proofs.ChainProofs Proofs.ParamsProofs Proofs.ContentlineProofs Proofs.TreeProofs Proofs.WalkEqProofs Proofs.UsedTzProofs.
Require Proofs.SortPerm.
From Coq Require Import Lia Arith Permutation String Sorting.Sorted.

(* ------------------------------------------------------------------ balanced BEGIN/END *)
Lemma toks_app a b : toks (a ++ b) = (toks a ++ toks b)%list.
Proof. unfold toks. apply flat_map_app'. Qed.

Lemma toks_own sorted c :
  forallb (fun kv : list N * pentry => negb (str_is (fst kv) "BEGIN") && negb (str_is (fst kv) "END")) (c_props c) = true ->
  toks (own_items sorted c) = [].
Proof.
  intros H. rewrite own_items_keys. unfold toks. rewrite flat_map_flat_map.
  induction (emit_keys sorted (c_name c) (c_props c)) as [|k ks IH]; [reflexivity|]. cbn [flat_map]. rewrite IH, app_nil_r.
  unfold key_items. destruct (dict_get k (c_props c)) as [e|] eqn:Eg; [|reflexivity].
  rewrite forallb_forall in H. specialize (H _ (dict_get_In _ _ _ Eg)). cbn [fst] in H.
  apply andb_true_iff in H. destruct H as [Hb He]. apply negb_true_iff in Hb, He.
  induction (entry_values e) as [|v vs IHv]; [reflexivity|]. cbn [map flat_map]. rewrite IHv, app_nil_r.
  unfold tok_of, item_of. cbn [fst snd]. rewrite Hb, He. reflexivity.
Qed.

Lemma tok_of_begin x : tok_of (s2l "BEGIN", [], x) = [Open x].
Proof. reflexivity. Qed.
Lemma tok_of_end x : tok_of (s2l "END", [], x) = [Close x].
Proof. reflexivity. Qed.

Lemma str_eqb_refl' a : str_eqb a a = true.
Proof. apply str_eqb_eq. reflexivity. Qed.

Theorem unbracket_tree sorted : forall t, no_be_keys t = true -> forall rest st done,
  unbracket (toks (property_items sorted t) ++ rest) st done =
  let '(st2, d2) := battach (shape_of t) st done in unbracket rest st2 d2.
Proof.
  induction t as [n ps subs es IH] using comp_ind'. intros Hk rest st done.
  cbn [no_be_keys] in Hk. apply andb_true_iff in Hk. destruct Hk as [Hps Hsubs].
  cbn [property_items].
  change (toks ((s2l "BEGIN", [], begin_end_text n) :: ?l)) with (tok_of (s2l "BEGIN", [], begin_end_text n) ++ toks l)%list.
  rewrite tok_of_begin, !toks_app. rewrite (toks_own sorted (Comp n ps subs es) Hps). cbn [app unbracket].
  assert (Hsub : forall subs' kids rest',
            Forall (fun t => no_be_keys t = true -> forall rest st done,
                      unbracket (toks (property_items sorted t) ++ rest) st done =
                      let '(st2, d2) := battach (shape_of t) st done in unbracket rest st2 d2) subs' ->
            forallb no_be_keys subs' = true ->
            unbracket (toks (flat_map (property_items sorted) subs') ++ rest') ((begin_end_text n, kids) :: st) done =
            unbracket rest' ((begin_end_text n, (kids ++ map shape_of subs')%list) :: st) done).
  { induction subs' as [|s subs' IHs]; intros kids rest' HF Hks.
    - cbn [flat_map map]. rewrite app_nil_r. reflexivity.
    - inversion HF as [|s' l' Hs HF']; subst. cbn [forallb] in Hks. apply andb_true_iff in Hks. destruct Hks as [H1 H2].
      cbn [flat_map]. rewrite toks_app, <- app_assoc. rewrite (Hs H1). cbn [battach].
      rewrite (IHs _ rest' HF' H2). cbn [map]. rewrite <- app_assoc. reflexivity. }
  rewrite <- app_assoc. rewrite (Hsub subs [] _ IH Hsubs). cbn [app].
  change (toks [(s2l "END", [], begin_end_text n)]) with (tok_of (s2l "END", [], begin_end_text n) ++ [])%list.
  rewrite tok_of_end. cbn [app unbracket]. rewrite str_eqb_refl'. cbn [shape_of]. reflexivity.
Qed.

(* the BEGIN/END lines of every serialised tree form a balanced word whose tree is the component tree *)
Theorem ser_balanced sorted t : no_be_keys t = true ->
  unbracket (toks (property_items sorted t)) [] [] = Some [shape_of t].
Proof.
  intros H. pose proof (unbracket_tree sorted t H [] [] []) as U. rewrite app_nil_r in U. exact U.
Qed.

(* ------------------------------------------------------------------ without sorting: insertion order *)
Theorem ser_unsorted_order n ps subs es : NoDup (map fst ps) ->
  own_items false (Comp n ps subs es) =
  flat_map (fun kv : list N * pentry => map (item_of (fst kv)) (entry_values (snd kv))) ps.
Proof.
  intros Hnd. rewrite own_items_keys. cbn [c_props c_name emit_keys]. rewrite flat_map_map.
  apply flat_map_ext_in'. intros [k e] Hin. cbn [fst snd]. unfold key_items.
  rewrite (dict_get_nodup_in ps k e Hnd Hin). reflexivity.
Qed.

(* ------------------------------------------------------------------ sorting forgets the insertion order *)
Lemma perm_filter {A} (f : A -> bool) l l' : Permutation l l' -> Permutation (filter f l) (filter f l').
Proof.
  induction 1 as [|x l l' P IH|x y l|l l' l'' P1 IH1 P2 IH2]; cbn [filter].
  - constructor.
  - destruct (f x); [constructor|]; exact IH.
  - destruct (f x); destruct (f y); try reflexivity. apply perm_swap.
  - eapply Permutation_trans; eassumption.
Qed.

Lemma index_of_found k : forall l i j, index_of k l i = Some j -> exists x, nth_error l (j - i) = Some x /\ x = k /\ (i <= j)%nat.
Proof.
  induction l as [|x l IH]; intros i j H; cbn [index_of] in H; [discriminate|].
  destruct (str_eqb x k) eqn:E.
  - inversion H; subst. apply str_eqb_eq in E. exists x. rewrite Nat.sub_diag. repeat split; [exact E|lia].
  - destruct (IH (S i) j H) as (y & Hy & Hk & Hle). exists y. split; [|split; [exact Hk|lia]].
    replace (j - i)%nat with (S (j - S i)) by lia. exact Hy.
Qed.

Lemma leC_antisym canon a b : inC canon a = true -> inC canon b = true ->
  leC canon a b = true -> leC canon b a = true -> a = b.
Proof.
  unfold inC, leC, idxC. destruct (index_of a canon 0) as [i|] eqn:Ea; [|discriminate].
  destruct (index_of b canon 0) as [j|] eqn:Eb; [|discriminate]. intros _ _ H1 H2.
  apply Nat.leb_le in H1, H2. assert (i = j) by lia. subst j.
  destruct (index_of_found a canon 0 i Ea) as (x & Hx & Hxa & _).
  destruct (index_of_found b canon 0 i Eb) as (y & Hy & Hyb & _). congruence.
Qed.

Lemma canonsort_perm_inv keys keys' canon : Permutation keys keys' ->
  canonsort_keys keys canon = canonsort_keys keys' canon.
Proof.
  intros P. rewrite (canonsort_keys_eq keys canon), (canonsort_keys_eq keys' canon). unfold canonsort_keys'. f_equal.
  - apply (SortPerm.sort_by_perm_invariant _ (leC canon)).
    + intros a b. unfold leC. apply natleb_total.
    + intros a b c. unfold leC. rewrite !Nat.leb_le. lia.
    + apply perm_filter. exact P.
    + intros a b Ha Hb. apply filter_In in Ha, Hb. apply leC_antisym; [apply Ha|apply Hb].
  - apply (SortPerm.sort_by_perm_invariant _ str_leb).
    + apply SortPerm.str_leb_total.
    + apply SortPerm.str_leb_trans.
    + apply perm_filter. exact P.
    + intros a b _ _. apply SortPerm.str_leb_antisym.
Qed.

Lemma sort_items_perm_inv (ps ps' : params) : NoDup (map fst ps) -> Permutation ps ps' -> sort_items ps = sort_items ps'.
Proof.
  intros Hnd P. rewrite !sort_items_by. apply (SortPerm.sort_by_perm_invariant _ leK).
  - apply leK_total.
  - intros a b c. unfold leK. apply SortPerm.str_leb_trans.
  - exact P.
  - intros a b Ha Hb H1 H2. unfold leK in *. pose proof (SortPerm.str_leb_antisym _ _ H1 H2) as E.
    destruct a as [ka va], b as [kb vb]. cbn [fst] in E. subst kb.
    (* two entries with the same name in a duplicate-free map are the same entry *)
    clear -Hnd Ha Hb. induction ps as [|[k v] ps IH]; [contradiction|].
    cbn [map fst] in Hnd. inversion Hnd as [|x xs Hx Hnd']; subst.
    destruct Ha as [Ea|Ha]; destruct Hb as [Eb|Hb].
    + congruence.
    + inversion Ea; subst. exfalso. apply Hx. apply in_map_iff. exists (ka, vb). split; [reflexivity|exact Hb].
    + inversion Eb; subst. exfalso. apply Hx. apply in_map_iff. exists (ka, va). split; [reflexivity|exact Ha].
    + apply IH; assumption.
Qed.

Lemma norm_value_perm a b : NoDup (map fst (v_params a)) -> vperm a b -> norm_value true a = norm_value true b.
Proof.
  intros Hnd (Hc & Ht & P). unfold norm_value. cbn [order_params]. rewrite Hc, Ht, (sort_items_perm_inv _ _ Hnd P). reflexivity.
Qed.

Lemma norm_entry_perm e e' :
  Forall (fun v => NoDup (map fst (v_params v))) (entry_values e) ->
  Forall2 vperm (entry_values e) (entry_values e') -> norm_entry true e = norm_entry true e'.
Proof.
  intros Hnd HF. unfold norm_entry.
  assert (map (norm_value true) (entry_values e) = map (norm_value true) (entry_values e')) as E.
  { induction HF as [|v v' l l' Hv HF IH]; [reflexivity|]. inversion Hnd as [|x xs Hx Hnd']; subst.
    cbn [map]. rewrite (norm_value_perm v v' Hx Hv), (IH Hnd'). reflexivity. }
  rewrite E. reflexivity.
Qed.

Lemma forall2_eperm_keys qs ps' : Forall2 eperm qs ps' -> map fst qs = map fst ps'.
Proof. induction 1 as [|a b l l' Hab HF IH]; [reflexivity|]. destruct Hab as [Hk _]. cbn [map]. rewrite Hk, IH. reflexivity. Qed.

Lemma forall2_eperm_get qs ps' k e : NoDup (map fst qs) -> Forall2 eperm qs ps' -> In (k, e) qs ->
  exists e', dict_get k ps' = Some e' /\ Forall2 vperm (entry_values e) (entry_values e').
Proof.
  intros Hnd HF. induction HF as [|a b l l' Hab HF IH]; intros Hin; [contradiction|]. destruct Hab as [Hk Hv].
  cbn [map] in Hnd. inversion Hnd as [|x xs Hx Hnd']; subst. destruct b as [kb eb]. cbn [fst snd] in *. cbn [dict_get].
  destruct Hin as [E|Hin].
  - subst a. cbn [fst snd] in *. subst kb. rewrite str_eqb_refl'. eauto.
  - destruct (str_eqb k kb) eqn:E.
    + apply str_eqb_eq in E. rewrite <- E in Hk. exfalso. apply Hx. rewrite Hk. apply in_map_iff. exists (k, e). split; [reflexivity|exact Hin].
    + apply (IH Hnd' Hin).
Qed.

Theorem norm_perm : forall t t', tperm t t' -> tree_nodup t = true -> params_nodup t = true ->
  norm true t = norm true t'.
Proof.
  induction t as [n ps subs es IH] using comp_ind'. intros [n' ps' subs' es'] HP Hnd Hpn.
  cbn [tperm c_name c_props c_subs] in HP. destruct HP as (Hn & (qs & Pq & HF) & Hsubs). subst n'.
  cbn [tree_nodup] in Hnd. apply andb_true_iff in Hnd. destruct Hnd as [Hndk Hnds]. apply nodup_strs_spec in Hndk.
  cbn [params_nodup] in Hpn. apply andb_true_iff in Hpn. destruct Hpn as [Hpv Hpns].
  cbn [norm]. f_equal.
  - (* properties *)
    assert (Hndq : NoDup (map fst qs)) by (apply (Permutation_NoDup (Permutation_map fst Pq) Hndk)).
    unfold norm_props, emit_keys.
    assert (Ek : canonsort_keys (map fst ps) (canonical_of n) = canonsort_keys (map fst ps') (canonical_of n)).
    { apply canonsort_perm_inv. rewrite <- (forall2_eperm_keys qs ps' HF). apply Permutation_map. exact Pq. }
    rewrite <- Ek. apply flat_map_ext_in'. intros k Hk.
    assert (In k (map fst ps)) as Hkin by (apply (Permutation_in k (canonsort_perm _ _) Hk)).
    destruct (In_keys_dict_get ps k Hkin) as [e He]. rewrite He.
    pose proof (dict_get_In _ _ _ He) as Hine.
    destruct (forall2_eperm_get qs ps' k e Hndq HF (Permutation_in _ Pq Hine)) as (e' & He' & Hv). rewrite He'.
    f_equal. f_equal. apply norm_entry_perm; [|exact Hv].
    rewrite forallb_forall in Hpv. specialize (Hpv _ Hine). cbn [snd] in Hpv. apply Forall_forall. intros v Hvin.
    rewrite forallb_forall in Hpv. apply nodup_strs_spec. apply Hpv. exact Hvin.
  - (* subcomponents, in order *)
    clear -IH Hsubs Hnds Hpns. revert subs' Hsubs. induction subs as [|s subs IHs]; intros [|s' subs'] Hsubs; try contradiction; [reflexivity|].
    inversion IH as [|x xs Hs HF]; subst. destruct Hsubs as [H1 H2]. cbn [forallb] in Hnds, Hpns.
    apply andb_true_iff in Hnds, Hpns. destruct Hnds as [Hn1 Hn2]. destruct Hpns as [Hp1 Hp2].
    cbn [map]. rewrite (Hs s' H1 Hn1 Hp1), (IHs HF Hn2 Hp2 subs' H2). reflexivity.
Qed.

(* with sorting on, the bytes do not depend on the insertion order of properties or parameters *)
Theorem ser_perm t t' : tperm t t' -> tree_nodup t = true -> params_nodup t = true ->
  tree_nodup t' = true -> tree_upper t = true -> tree_upper t' = true ->
  ser true t = ser true t'.
Proof.
  intros HP Hnd Hpn Hnd' Hu Hu'.
  assert (forall x, tree_nodup x = true -> tree_upper x = true -> ser true x = ser true (norm true x)) as Hn.
  { intros x Hx Hux. unfold ser. f_equal. apply lines_of_rend. symmetry. apply ser_norm_items; [exact Hux|].
    clear -Hx. revert Hx. induction x as [n ps subs es IH] using comp_ind'. cbn [tree_nodup]. intros H.
    apply andb_true_iff in H. destruct H as [H1 H2]. rewrite H1. cbn [andb].
    induction subs as [|s subs IHs]; [reflexivity|]. inversion IH as [|y ys Hs HF]; subst. cbn [forallb] in *.
    apply andb_true_iff in H2. destruct H2 as [Ha Hb]. rewrite (Hs Ha), (IHs HF Hb). reflexivity. }
  rewrite (Hn t Hnd Hu), (Hn t' Hnd' Hu'), (norm_perm t t' HP Hnd Hpn). reflexivity.
Qed.

(* ------------------------------------------------------------------ set iteration order (hash seed) *)
(* with an arbitrary iteration order of the missing-id set the result depends on that order: this is why
   add_missing_timezones had to iterate in sorted order (fixed in /repo, commit e7c6b41) *)
Lemma add_missing_order_refuted : exists gen t, add_missing gen (fun l => l) t <> add_missing gen (@rev _) t.
Proof.
  exists (fun z => Some (Comp (s2l "VTIMEZONE") [(s2l "TZID", One {| v_class := s2l "vText"; v_params := []; v_text := z |})] [] [])).
  exists (Comp (s2l "VCALENDAR") []
            [Comp (s2l "VEVENT")
               [(s2l "DTSTART", One {| v_class := s2l "vDDDTypes"; v_params := [(s2l "TZID", PStr (s2l "A/a"))]; v_text := s2l "20200102T100000" |});
                (s2l "DTEND", One {| v_class := s2l "vDDDTypes"; v_params := [(s2l "TZID", PStr (s2l "B/b"))]; v_text := s2l "20200102T110000" |})] [] []] []).
  vm_compute. discriminate.
Qed.

(* the fixed call iterates sorted(missing): whatever order the ids were discovered in, the appended
   components are the same *)
Lemma add_missing_sorted_perm (gen : list N -> option comp) ms ms' : Permutation ms ms' ->
  flat_map (fun z => match gen z with Some tz => [tz] | None => [] end) (sort_by str_leb ms) =
  flat_map (fun z => match gen z with Some tz => [tz] | None => [] end) (sort_by str_leb ms').
Proof.
  intros P. f_equal. apply (SortPerm.sort_by_perm_invariant _ str_leb).
  - apply SortPerm.str_leb_total.
  - apply SortPerm.str_leb_trans.
  - exact P.
  - intros a b _ _. apply SortPerm.str_leb_antisym.
Qed.
