(* Proofs about Model/StartEnd.v (C16). *)
Require Import Lib.Base Model.Params Gen.Gen_sched Model.StartEnd.
From Coq Require Import ZArith List Bool Lia ZifyBool.
Local Open Scope Z_scope.
Ltac Zify.zify_post_hook ::= Z.to_euclidean_division_equations.

(* ------------------------------------------------------------------ small facts *)
Lemma accepts_start : forall k v,
  accepts (start_types k) v = match v with VTime _ => true | _ => false end.
Proof. intros [] [[]| |]; reflexivity. Qed.

Lemma accepts_end : forall k v,
  accepts (end_types k) v = match v with VTime _ => true | _ => false end.
Proof. intros [] [[]| |]; reflexivity. Qed.

Lemma accepts_journal : forall v,
  accepts Journal_DTSTART_types v = match v with VTime _ => true | _ => false end.
Proof. intros [[]| |]; reflexivity. Qed.

Definition single_time (e : entry) : sres (option time) :=
  match e with
  | Absent => SOk None
  | One (VTime t) => SOk (Some t)
  | _ => SVal InvalidCal
  end.

Lemma get_single_start : forall k e, get_single (start_types k) e = single_time e.
Proof. intros k [|v|]; simpl; auto. rewrite accepts_start. destruct v; reflexivity. Qed.

Lemma get_single_end : forall k e, get_single (end_types k) e = single_time e.
Proof. intros k [|v|]; simpl; auto. rewrite accepts_end. destruct v; reflexivity. Qed.

Lemma opt_eqb_refl : forall a, opt_eqb a a = true.
Proof. intros [x|]; simpl; auto. apply Z.eqb_refl. Qed.

Lemma zkey_eqb_refl : forall k, zkey_eqb k k = true.
Proof. intros k. unfold zkey_eqb. rewrite Z.eqb_refl, opt_eqb_refl. reflexivity. Qed.

(* (s + td) - s = td for every kind of time, whole days for dates *)
Lemma tsub_tadd : forall o s td,
  (is_date s = true -> td mod day = 0) -> tsub o (tadd s td) s = SOk td.
Proof.
  intros o [d|s|s|k s] td H; simpl.
  - specialize (H eq_refl). f_equal. unfold day in *. lia.
  - f_equal. lia.
  - f_equal. lia.
  - rewrite zkey_eqb_refl. f_equal. lia.
Qed.

Lemma tsub_default : forall o s, tsub o (default_end s) s = SOk (default_duration s).
Proof.
  intros o s. unfold default_end, default_duration.
  destruct s as [d|s|s|k s]; simpl.
  - f_equal. unfold day. lia.
  - f_equal. lia.
  - f_equal. lia.
  - rewrite zkey_eqb_refl. f_equal. lia.
Qed.

(* subtraction of two date-times / two dates is defined unless one is floating and the other not *)
Lemma tsub_defined : forall o e s,
  is_date s = is_date e -> tz_mix s e = false -> exists d, tsub o e s = SOk d.
Proof.
  intros o e s Hd Hm.
  destruct e as [d1|s1|s1|k1 s1], s as [d2|s2|s2|k2 s2]; simpl in *; try discriminate; eauto.
  destruct (zkey_eqb k1 k2); eauto.
Qed.

(* ------------------------------------------------------------------ exclusive_inv *)

Definition wf_entries (c : comp) : bool :=
  negb (malformed_time (c_start c)) && negb (malformed_time (c_end c)) && negb (malformed_dur (c_dur c)).

Definition inv (c : comp) : bool := negb (present (c_end c) && present (c_dur c)) && wf_entries c.

(* what each operation does to the three entries (the [exclusive] tuples are the generated ones:
   this lemma stops holding when they change) *)
Definition step_result (c : comp) (o : op) : comp :=
  match o with
  | SetDTSTART a | SetStart a =>
      match a with
      | ANone => {| c_start := Absent; c_end := c_end c; c_dur := c_dur c |}
      | AVal (VTime t) => {| c_start := One (VTime t); c_end := c_end c; c_dur := c_dur c |}
      | AVal _ => c
      end
  | SetEND a | SetEnd a =>
      match a with
      | ANone => {| c_start := c_start c; c_end := Absent; c_dur := c_dur c |}
      | AVal (VTime t) => {| c_start := c_start c; c_end := One (VTime t); c_dur := Absent |}
      | AVal _ => c
      end
  | SetDURATION a =>
      match a with
      | ANone => {| c_start := c_start c; c_end := c_end c; c_dur := Absent |}
      | AVal (VDelta td) => {| c_start := c_start c; c_end := Absent; c_dur := One (VDelta td) |}
      | AVal _ => c
      end
  | DelDTSTART => {| c_start := Absent; c_end := c_end c; c_dur := c_dur c |}
  | DelEND => {| c_start := c_start c; c_end := Absent; c_dur := c_dur c |}
  | DelDURATION => {| c_start := c_start c; c_end := c_end c; c_dur := Absent |}
  | AddDTSTART v => {| c_start := match c_start c with Absent => One v | _ => Many end; c_end := c_end c; c_dur := c_dur c |}
  | AddEND v => {| c_start := c_start c; c_end := match c_end c with Absent => One v | _ => Many end; c_dur := c_dur c |}
  | AddDURATION v => {| c_start := c_start c; c_end := c_end c; c_dur := match c_dur c with Absent => One v | _ => Many end |}
  end.

Lemma step_char : forall k c o, fst (step k c o) = step_result c o.
Proof.
  intros k [s e d] o.
  destruct k, o; try (destruct a as [|[[]| |]]); try reflexivity;
    destruct s, e, d; reflexivity.
Qed.

Lemma step_inv : forall k c o, is_add o = false -> inv c = true -> inv (fst (step k c o)) = true.
Proof.
  intros k [s e d] o Ha Hi. rewrite step_char.
  unfold inv, wf_entries in *. simpl in Hi.
  destruct o; try discriminate Ha; try (destruct a as [|[| |]]); simpl;
    destruct (present e), (present d), (malformed_time s), (malformed_time e), (malformed_dur d);
    simpl in *; try discriminate Hi; reflexivity.
Qed.

Lemma run_inv : forall k ops c, no_add ops = true -> inv c = true -> inv (run k ops c) = true.
Proof.
  intros k ops. induction ops as [|o r IH]; intros c Hn Hi; simpl; auto.
  simpl in Hn. apply andb_true_iff in Hn as [Ho Hr].
  apply IH; auto. apply step_inv; auto. destruct (is_add o); auto; discriminate.
Qed.

Lemma exclusive_inv : forall k ops, no_add ops = true ->
  let c := run k ops empty_comp in
  (present (c_end c) && present (c_dur c)) = false.
Proof.
  intros k ops Hn c. pose proof (run_inv k ops empty_comp Hn eq_refl) as H.
  subst c. unfold inv in H. apply andb_true_iff in H as [H _].
  destruct (present _ && present _); simpl in *; congruence.
Qed.

Lemma setters_wellformed : forall k ops, no_add ops = true ->
  let c := run k ops empty_comp in
  malformed_time (c_start c) = false /\ malformed_time (c_end c) = false /\ malformed_dur (c_dur c) = false.
Proof.
  intros k ops Hn c. pose proof (run_inv k ops empty_comp Hn eq_refl) as H.
  subst c. unfold inv, wf_entries in H.
  apply andb_true_iff in H as [_ H]. apply andb_true_iff in H as [H H3]. apply andb_true_iff in H as [H1 H2].
  repeat split; match goal with |- ?x = false => destruct x; simpl in *; congruence end.
Qed.

(* without the restriction to setters the invariant fails: add can create the forbidden pair *)
Lemma exclusive_needs_no_add : exists k ops,
  let c := run k ops empty_comp in (present (c_end c) && present (c_dur c)) = true.
Proof.
  exists KEvent, [SetEND (AVal (VTime (Date 0))); AddDURATION (VDelta 86400)]. reflexivity.
Qed.

(* ------------------------------------------------------------------ getters_spec *)
Definition spec_end (c : comp) : sres time :=
  match st_time (c_end c), st_delta (c_dur c), st_time (c_start c) with
  | Some e, _, _ => SOk e
  | None, Some td, Some s => SOk (tadd s td)
  | None, None, Some s => SOk (default_end s)
  | None, _, None => SVal IncompleteComp
  end.

Definition spec_start (c : comp) : sres time :=
  match st_time (c_start c) with Some s => SOk s | None => SVal IncompleteComp end.

Lemma get_sed_unfold : forall k c,
  get_sed k c =
  sbind (single_time (c_start c)) (fun start =>
  sbind (single_time (c_end c)) (fun end_ =>
  sbind (get_duration (c_dur c)) (fun dur =>
    if is_some dur && is_some end_ then SVal InvalidCal
    else
      sbind (match start, dur with
             | Some (Date _), Some (VDelta td) => if td mod day =? 0 then SOk tt else SVal InvalidCal
             | Some (Date _), Some _ => SEsc AttributeErr
             | _, _ => SOk tt
             end) (fun _ =>
        match start, end_ with
        | Some s, Some e => if Bool.eqb (is_date s) (is_date e) then SOk (start, end_, dur) else SVal InvalidCal
        | _, _ => SOk (start, end_, dur)
        end)))).
Proof. intros. unfold get_sed. rewrite get_single_start, get_single_end. reflexivity. Qed.

Local Opaque Z.modulo Z.div Z.mul.

Lemma forbidden_invalid : forall o k c, dur_typed c = true -> forbidden c = true ->
  get_start k c = SVal InvalidCal /\ get_end k c = SVal InvalidCal /\ get_dur o k c = SVal InvalidCal.
Proof.
  intros o k [s e d] Ht Hf.
  unfold get_dur, get_start, get_end. rewrite get_sed_unfold.
  destruct s as [|[[]| |]|], e as [|[[]| |]|], d as [|[[]| |]|];
    try discriminate Ht; try discriminate Hf; simpl in *;
    try (repeat split; reflexivity);
    unfold forbidden in Hf; simpl in Hf;
    destruct (td mod day =? 0); try discriminate Hf; repeat split; reflexivity.
Qed.

Lemma allowed_getters : forall o k c, dur_typed c = true -> forbidden c = false ->
  get_start k c = spec_start c /\ get_end k c = spec_end c /\
  match st_time (c_start c) with
  | None => get_dur o k c = SVal IncompleteComp
  | Some s =>
      match st_time (c_end c), st_delta (c_dur c) with
      | Some e, _ => get_dur o k c = tsub o e s /\ (tz_mix s e = false -> exists x, tsub o e s = SOk x)
      | None, Some td => get_dur o k c = SOk td
      | None, None => get_dur o k c = SOk (default_duration s)
      end
  end.
Proof.
  intros o k [s e d] Ht Hf.
  unfold get_dur, get_start, get_end, spec_start, spec_end. rewrite get_sed_unfold.
  destruct s as [|[ts| |]|], e as [|[te| |]|], d as [|[| |]|];
    try discriminate Ht; try discriminate Hf; simpl in *.
  - (* nothing *) repeat split; reflexivity.
  - (* only DURATION *) repeat split; reflexivity.
  - (* only end *) repeat split; reflexivity.
  - (* only start *)
    destruct ts; unfold default_duration; simpl; repeat split; try reflexivity.
    + f_equal. unfold day. lia.
    + f_equal. lia.
    + f_equal. lia.
    + rewrite zkey_eqb_refl. f_equal. lia.
  - (* start + DURATION *)
    destruct ts as [d0|s0|s0|k0 s0]; simpl in *.
    + unfold forbidden in Hf; simpl in Hf. destruct (td mod day =? 0) eqn:Em; try discriminate Hf. simpl.
      repeat split; try reflexivity.
      f_equal. apply Z.eqb_eq in Em. unfold day in *. lia.
    + repeat split; try reflexivity. f_equal; lia.
    + repeat split; try reflexivity. f_equal; lia.
    + repeat split; try reflexivity. rewrite zkey_eqb_refl. f_equal; lia.
  - (* start + end *)
    unfold forbidden in Hf; simpl in Hf. rewrite ?orb_false_r in Hf.
    destruct (Bool.eqb (is_date ts) (is_date te)) eqn:Ed; try discriminate Hf.
    assert (Hsame : is_date ts = is_date te) by (apply eqb_prop; exact Ed).
    destruct ts; simpl; repeat split; try reflexivity;
      try (intros Hm; apply tsub_defined; auto).
Qed.

Definition doc_err {A} (r : sres A) : bool :=
  match r with
  | SOk _ => true
  | SVal InvalidCal | SVal IncompleteComp => true
  | _ => false
  end.

Lemma only_documented_errors : forall o k c, dur_typed c = true -> tz_consistent c = true ->
  doc_err (get_start k c) = true /\ doc_err (get_end k c) = true /\ doc_err (get_dur o k c) = true.
Proof.
  intros o k c Ht Hz.
  destruct (forbidden c) eqn:Hf.
  - destruct (forbidden_invalid o k c Ht Hf) as (A & B & C). rewrite A, B, C. auto.
  - destruct (allowed_getters o k c Ht Hf) as (A & B & C). rewrite A, B.
    unfold spec_start, spec_end, tz_consistent in *.
    destruct (st_time (c_start c)) as [s|], (st_time (c_end c)) as [e|], (st_delta (c_dur c)) as [td|];
      simpl; repeat split; auto; try (rewrite C; reflexivity).
    + destruct C as [C1 C2]. rewrite C1.
      destruct (tz_mix s e); try discriminate Hz. destruct (C2 eq_refl) as [x Hx]. rewrite Hx. reflexivity.
    + destruct C as [C1 C2]. rewrite C1.
      destruct (tz_mix s e); try discriminate Hz. destruct (C2 eq_refl) as [x Hx]. rewrite Hx. reflexivity.
Qed.

Lemma end_minus_start : forall o k c s e d,
  get_start k c = SOk s -> get_end k c = SOk e -> get_dur o k c = SOk d -> tsub o e s = SOk d.
Proof. intros o k c s e d Hs He Hd. unfold get_dur in Hd. rewrite He, Hs in Hd. exact Hd. Qed.

(* the two finding classes *)
Definition berlin : zkey := {| zid := 1; zfix := None |}.
Definition const_oracle : zoracle := {| off_wall := fun _ _ => 3600; off_utc := fun _ _ => 3600 |}.

Lemma duration_mix_refuted : exists o k c,
  forbidden c = false /\ dur_typed c = true /\ tz_consistent c = false /\ get_dur o k c = SEsc TypeErr.
Proof.
  exists const_oracle, KEvent,
    {| c_start := One (VTime (Zoned berlin 36000)); c_end := One (VTime (Naive 43200)); c_dur := Absent |}.
  repeat split; reflexivity.
Qed.

Lemma duration_value_refuted : exists k c1 c2,
  dur_typed c1 = false /\ get_end k c1 = SEsc TypeErr /\
  dur_typed c2 = false /\ get_start k c2 = SEsc AttributeErr.
Proof.
  exists KEvent,
    {| c_start := One (VTime (Naive 0)); c_end := Absent; c_dur := One (VTime (Date 1)) |},
    {| c_start := One (VTime (Date 0)); c_end := Absent; c_dur := One (VTime (Date 1)) |}.
  repeat split; reflexivity.
Qed.

(* Journal *)
Lemma journal_spec : forall e,
  journal_end e = journal_start e /\ journal_duration e = SOk 0 /\
  journal_start e = match e with
                    | Absent => SVal IncompleteComp
                    | One (VTime t) => SOk t
                    | _ => SVal InvalidCal
                    end.
Proof.
  intros e. repeat split. unfold journal_start.
  destruct e as [|v|]; simpl; auto. rewrite accepts_journal. destruct v; reflexivity.
Qed.
