(* Proofs about Model/Tree.v (property C01, used by C02 C05 C09 C10): parsing the lines that the
   serialiser emits for a tree rebuilds the tree's normal form, for every tree inside the guards. *)
Require Import Lib.Base Lib.Chain Gen.Gen_parser Gen.Gen_cal Model.Text Model.Params Model.Fold Model.Contentline Model.Sort Model.Tree.
Require Import Proofs.ChainProofs Proofs.ReplaceProofs Proofs.ParamsProofs Proofs.ContentlineProofs.
From Coq Require Import Lia Arith Permutation String.

(* ------------------------------------------------------------------ induction on trees *)
Lemma comp_ind' (P : comp -> Prop) :
  (forall n ps subs es, Forall P subs -> P (Comp n ps subs es)) -> forall c, P c.
Proof.
  intros H. fix IH 1. intros [n ps subs es]. apply H.
  induction subs as [|s subs IHs]; constructor; [apply IH|exact IHs].
Qed.

(* ------------------------------------------------------------------ tokens contain no special character *)
Lemma token_no_chr k d : is_token k = true -> is_token_chr d = false -> no_chr d k = true.
Proof.
  intros Hk Hd. destruct (forallb_token k Hk) as [_ Hall]. clear Hk.
  induction Hall as [|c k Hc Hk IH]; [reflexivity|].
  apply no_chr_cons. split; [|exact IH]. intros ->. congruence.
Qed.

Lemma esc_char_chain_first :
  forallb (fun f : list N => match f with a :: _ => negb (is_token_chr a) | [] => false end) (map fst escape_char_chain) = true.
Proof. vm_compute. reflexivity. Qed.
Lemma esc_char_chain_nonempty : pats_nonempty escape_char_chain = true.
Proof. vm_compute. reflexivity. Qed.

Lemma escape_char_token k : is_token k = true -> escape_char k = k.
Proof.
  intros Hk. apply seq_run_id; [exact esc_char_chain_nonempty|]. apply avoids_no_first.
  pose proof esc_char_chain_first as F. rewrite forallb_forall in *. intros f Hf. specialize (F f Hf).
  destruct f as [|a f]; [discriminate|]. apply token_no_chr; [exact Hk|]. apply negb_true_iff. exact F.
Qed.

Lemma token_value_safe k : is_token k = true -> value_safe k = true.
Proof.
  intros Hk. unfold value_safe. rewrite avoids_app_l. apply andb_true_iff. split.
  - apply avoids_esc_nobs. apply token_no_chr; [exact Hk|reflexivity].
  - apply avoids_unesc_nopct. apply token_no_chr; [exact Hk|reflexivity].
Qed.

Lemma token_ascii k : is_token k = true -> all_ascii k = true.
Proof. intros H. apply (is_token_facts k H). Qed.

(* ------------------------------------------------------------------ the three kinds of line *)
Definition mk (st : list frame) (d : list comp) : pstate := {| stack := st; done := d; cache := [] |}.

Lemma begin_text n : name_ok n = true -> begin_end_text n = n.
Proof.
  unfold name_ok. intros H. apply andb_true_iff in H. destruct H as [Ht _].
  unfold begin_end_text. rewrite !(escape_char_token n Ht). reflexivity.
Qed.

Lemma step_begin dec sorted n st d l : name_ok n = true ->
  from_parts (s2l "BEGIN") [] sorted (begin_end_text n) = Ok l ->
  step dec (mk st d) l = Next (mk (new_frame n :: st) d).
Proof.
  intros Hn Hl. rewrite (begin_text n Hn) in Hl.
  pose proof Hn as Hn'. unfold name_ok in Hn'. apply andb_true_iff in Hn'. destruct Hn' as [Ht Hu].
  apply str_eqb_eq in Hu.
  assert (Hp : parts l = Ok (s2l "BEGIN", [], n)).
  { assert (Hc : canon_params (order_params sorted []) = []) by (destruct sorted; reflexivity).
    rewrite <- Hc. apply (join_split (s2l "BEGIN") [] sorted n l);
      [reflexivity|reflexivity|reflexivity|reflexivity|apply token_value_safe; exact Ht|exact Hl]. }
  unfold step, step_parts. rewrite Hp. cbn [upper map]. 
  change (str_is (upper (s2l "BEGIN")) "BEGIN") with true. cbv iota.
  rewrite (token_ascii n Ht), Hu. reflexivity.
Qed.

Lemma step_end dec sorted n f st d l : name_ok n = true ->
  from_parts (s2l "END") [] sorted (begin_end_text n) = Ok l ->
  step dec (mk (f :: st) d) l =
  Next match st with
       | [] => mk [] (d ++ [close f])
       | g :: r => mk (add_sub g (close f) :: r) d
       end.
Proof.
  intros Hn Hl. rewrite (begin_text n Hn) in Hl.
  pose proof Hn as Hn'. unfold name_ok in Hn'. apply andb_true_iff in Hn'. destruct Hn' as [Ht Hu].
  assert (Hp : parts l = Ok (s2l "END", [], n)).
  { assert (Hc : canon_params (order_params sorted []) = []) by (destruct sorted; reflexivity).
    rewrite <- Hc. apply (join_split (s2l "END") [] sorted n l);
      [reflexivity|reflexivity|reflexivity|reflexivity|apply token_value_safe; exact Ht|exact Hl]. }
  unfold step, step_parts. rewrite Hp.
  change (str_is (upper (s2l "END")) "BEGIN") with false.
  change (str_is (upper (s2l "END")) "END") with true. cbv iota.
  cbn [stack mk]. destruct st as [|g r]; cbn [cache mk stack done]; destruct (_ && _); reflexivity.
Qed.

Lemma key_not_begin_end k : key_ok k = true ->
  str_is (upper k) "BEGIN" = false /\ str_is (upper k) "END" = false /\ upper k = k /\ is_token k = true.
Proof.
  unfold key_ok. rewrite !andb_true_iff, !negb_true_iff. intros [[[Ht Hu] Hb] He].
  apply str_eqb_eq in Hu. rewrite Hu. repeat split; assumption.
Qed.

Lemma step_value dec sorted k v f st d l : key_ok k = true -> value_ok dec sorted k v = true ->
  from_parts k (v_params v) sorted (v_text v) = Ok l ->
  step dec (mk (f :: st) d) l = Next (mk (add_vals f k [norm_value sorted v] :: st) d).
Proof.
  intros Hk Hv Hl. destruct (key_not_begin_end k Hk) as (Hb & He & Hu & Ht).
  unfold value_ok in Hv. rewrite !andb_true_iff in Hv.
  destruct Hv as [[[[[Hwf Hhead] Hun] Hlf] Hcls] Hdec].
  assert (Hp : parts l = Ok (k, canon_params (order_params sorted (v_params v)), line_value_path (v_text v))).
  { apply (parts_from_parts k (v_params v) sorted (v_text v) l); assumption. }
  unfold step, step_parts. rewrite Hp, Hb, He. cbn [stack mk].
  destruct (class_name_of_key (type_key k)) as [cls|]; [|discriminate].
  apply str_eqb_eq in Hcls.
  destruct (decode_line dec k (canon_params (order_params sorted (v_params v))) (line_value_path (v_text v))) as [[|t [|t2 ts]]| | |];
    try discriminate.
  apply str_eqb_eq in Hdec. subst t cls. reflexivity.
Qed.

(* ------------------------------------------------------------------ lines_of over concatenations *)
Lemma lines_of_app sorted : forall a b ls, lines_of sorted (a ++ b) = Ok ls ->
  exists la lb, lines_of sorted a = Ok la /\ lines_of sorted b = Ok lb /\ ls = la ++ lb.
Proof.
  induction a as [|[[n ps] v] a IH]; intros b ls H.
  - exists [], ls. repeat split. exact H.
  - cbn [app lines_of] in H. destruct (from_parts n ps sorted v) as [l| | |] eqn:El; try discriminate.
    cbn [bind] in H. destruct (lines_of sorted (a ++ b)) as [ls'| | |] eqn:Er; try discriminate.
    cbn [bind] in H. inversion H; subst ls. destruct (IH b ls' Er) as (la & lb & Ha & Hb & Hls).
    exists (l :: la), lb. cbn [lines_of]. rewrite El, Ha. cbn [bind]. repeat split; [exact Hb|]. rewrite Hls. reflexivity.
Qed.

Lemma lines_of_cons sorted n ps v r ls : lines_of sorted ((n, ps, v) :: r) = Ok ls ->
  exists l lr, from_parts n ps sorted v = Ok l /\ lines_of sorted r = Ok lr /\ ls = l :: lr.
Proof.
  cbn [lines_of]. destruct (from_parts n ps sorted v) as [l| | |]; try discriminate. cbn [bind].
  destruct (lines_of sorted r) as [lr| | |]; try discriminate. cbn [bind]. intros H. inversion H. eauto.
Qed.

(* ------------------------------------------------------------------ the values of one property *)
Definition item_of (k : list N) (v : value) : prop_line := (k, v_params v, v_text v).

Lemma add_vals_add_vals f k a l : add_vals (add_vals f k a) k l = add_vals f k (a ++ l).
Proof. unfold add_vals. cbn. rewrite fold_left_app. reflexivity. Qed.

Lemma run_values dec sorted k st d : key_ok k = true -> forall vs ls rest f,
  forallb (value_ok dec sorted k) vs = true ->
  lines_of sorted (map (item_of k) vs) = Ok ls ->
  run_lines dec (mk (f :: st) d) (ls ++ rest) =
  run_lines dec (mk (add_vals f k (map (norm_value sorted) vs) :: st) d) rest.
Proof.
  intros Hk. induction vs as [|v vs IH]; intros ls rest f Hall Hls.
  - cbn in Hls. inversion Hls. cbn [app map]. unfold add_vals. cbn. destruct f; reflexivity.
  - cbn [forallb] in Hall. apply andb_true_iff in Hall. destruct Hall as [Hv Hall].
    cbn [map] in Hls. unfold item_of at 1 in Hls.
    destruct (lines_of_cons _ _ _ _ _ _ Hls) as (l & lr & Hl & Hlr & ->).
    cbn [app run_lines]. rewrite (step_value dec sorted k v f st d l Hk Hv Hl).
    rewrite (IH lr rest _ Hall Hlr). rewrite add_vals_add_vals. reflexivity.
Qed.

(* what Component.add makes of the successive values of a fresh name *)
Definition entry_of_list (l : list value) : pentry := match l with [v] => One v | _ => Many l end.

Lemma dict_get_fresh {V} (k : list N) (v : V) : forall d, existsb (str_eqb k) (map fst d) = false ->
  dict_get k (d ++ [(k, v)]) = Some v.
Proof.
  induction d as [|[k' v'] d IH]; intros H.
  - cbn. assert (str_eqb k k = true) as E by (apply str_eqb_eq; reflexivity). rewrite E. reflexivity.
  - cbn [map fst existsb] in H. apply orb_false_iff in H. destruct H as [H1 H2].
    cbn [app dict_get]. rewrite H1. apply IH. exact H2.
Qed.

Lemma dict_set_last {V} (k : list N) (v w : V) : forall d, existsb (str_eqb k) (map fst d) = false ->
  dict_set k w (d ++ [(k, v)]) = d ++ [(k, w)].
Proof.
  induction d as [|[k' v'] d IH]; intros H.
  - cbn. assert (str_eqb k k = true) as E by (apply str_eqb_eq; reflexivity). rewrite E. reflexivity.
  - cbn [map fst existsb] in H. apply orb_false_iff in H. destruct H as [H1 H2].
    cbn [app dict_set]. rewrite H1. f_equal. apply IH. exact H2.
Qed.

Lemma add_more k acc : upper k = k -> existsb (str_eqb k) (map fst acc) = false ->
  forall rest cur, cur <> [] ->
  fold_left (fun p v => comp_add p k v) rest (acc ++ [(k, entry_of_list cur)]) =
  acc ++ [(k, entry_of_list (cur ++ rest))].
Proof.
  intros Hu Hf. induction rest as [|v rest IH]; intros cur Hne.
  - rewrite app_nil_r. reflexivity.
  - cbn [fold_left]. unfold comp_add at 2. rewrite Hu, (dict_get_fresh k _ acc Hf).
    destruct cur as [|c1 [|c2 cr]]; [congruence| |].
    + cbn [entry_of_list]. rewrite (dict_set_last k _ _ acc Hf).
      change (Many [c1; v]) with (entry_of_list ([c1] ++ [v])). rewrite (IH ([c1] ++ [v])) by discriminate.
      rewrite <- app_assoc. reflexivity.
    + cbn [entry_of_list]. rewrite (dict_set_last k _ _ acc Hf).
      assert (Many ((c1 :: c2 :: cr) ++ [v]) = entry_of_list ((c1 :: c2 :: cr) ++ [v])) as E.
      { cbn [app]. destruct (cr ++ [v]) eqn:E'; [destruct cr; discriminate|reflexivity]. }
      rewrite E. rewrite (IH ((c1 :: c2 :: cr) ++ [v])) by discriminate. rewrite <- app_assoc. reflexivity.
Qed.

Lemma add_fresh_list k acc : upper k = k -> existsb (str_eqb k) (map fst acc) = false ->
  forall vs, vs <> [] ->
  fold_left (fun p v => comp_add p k v) vs acc = acc ++ [(k, entry_of_list vs)].
Proof.
  intros Hu Hf [|v vs] Hne; [congruence|].
  cbn [fold_left]. unfold comp_add at 2. rewrite Hu.
  assert (dict_get k acc = None) as Hg.
  { clear -Hf. induction acc as [|[k' v'] acc IH]; [reflexivity|].
    cbn [map fst existsb] in Hf. apply orb_false_iff in Hf. destruct Hf as [H1 H2].
    cbn [dict_get]. rewrite H1. apply IH. exact H2. }
  rewrite Hg, (dict_set_fresh k (One v) acc Hf).
  change (One v) with (entry_of_list [v]). rewrite (add_more k acc Hu Hf vs [v]) by discriminate. reflexivity.
Qed.

Lemma norm_entry_list sorted e : norm_entry sorted e = entry_of_list (map (norm_value sorted) (entry_values e)).
Proof. unfold norm_entry, entry_of_list. destruct (map _ _) as [|a [|b r]]; reflexivity. Qed.

(* ------------------------------------------------------------------ all properties of one component *)
Definition key_items (ps : list (list N * pentry)) (k : list N) : list prop_line :=
  match dict_get k ps with
  | Some e => map (item_of k) (entry_values e)
  | None => []
  end.
Definition key_norm (sorted : bool) (ps : list (list N * pentry)) (k : list N) : list (list N * pentry) :=
  match dict_get k ps with Some e => [(k, norm_entry sorted e)] | None => [] end.

Lemma dict_get_In {V} (k : list N) (e : V) : forall ps, dict_get k ps = Some e -> In (k, e) ps.
Proof.
  induction ps as [|[k' v'] ps IH]; cbn [dict_get]; intros H; [discriminate|].
  destruct (str_eqb k k') eqn:E.
  - apply str_eqb_eq in E. subst k'. inversion H. left. reflexivity.
  - right. apply IH. exact H.
Qed.

Lemma set_f_props f p : {| f_name := f_name f; f_props := p; f_subs := f_subs f; f_errs := f_errs f |} =
  {| f_name := f_name f; f_props := p; f_subs := f_subs f; f_errs := f_errs f |}.
Proof. reflexivity. Qed.

Definition with_props (f : frame) (p : list (list N * pentry)) : frame :=
  {| f_name := f_name f; f_props := p; f_subs := f_subs f; f_errs := f_errs f |}.

Lemma run_keys dec sorted ps st d :
  forallb (entry_ok dec sorted) ps = true ->
  forall ks ls rest f,
  NoDup ks -> (forall k, In k ks -> existsb (str_eqb k) (map fst (f_props f)) = false) ->
  lines_of sorted (flat_map (key_items ps) ks) = Ok ls ->
  run_lines dec (mk (f :: st) d) (ls ++ rest) =
  run_lines dec (mk (with_props f (f_props f ++ flat_map (key_norm sorted ps) ks) :: st) d) rest.
Proof.
  intros Hps. induction ks as [|k ks IH]; intros ls rest f Hnd Hfresh Hls.
  - cbn in Hls. inversion Hls. cbn [flat_map app]. rewrite app_nil_r. destruct f; reflexivity.
  - cbn [flat_map] in Hls. destruct (lines_of_app _ _ _ _ Hls) as (la & lb & Ha & Hb & ->).
    inversion Hnd as [|k' ks' Hnotin Hnd']; subst.
    rewrite <- app_assoc. unfold key_items in Ha. cbn [flat_map]. unfold key_norm at 1.
    destruct (dict_get k ps) as [e|] eqn:Eg.
    + pose proof (dict_get_In _ _ _ Eg) as Hin. rewrite forallb_forall in Hps. specialize (Hps _ Hin).
      unfold entry_ok in Hps. cbn [fst snd] in Hps. rewrite !andb_true_iff in Hps. destruct Hps as [[Hk Hne] Hvs].
      destruct (key_not_begin_end k Hk) as (_ & _ & Hu & _).
      rewrite (run_values dec sorted k st d Hk (entry_values e) la (lb ++ rest) f Hvs Ha).
      assert (Hadd : add_vals f k (map (norm_value sorted) (entry_values e)) =
                     with_props f (f_props f ++ [(k, norm_entry sorted e)])).
      { unfold add_vals, with_props. f_equal. rewrite norm_entry_list.
        apply add_fresh_list; [exact Hu|apply Hfresh; left; reflexivity|].
        destruct (entry_values e); [discriminate|discriminate]. }
      rewrite Hadd.
      rewrite (IH lb rest _ Hnd'); [| |exact Hb].
      * unfold with_props. cbn [f_props f_name f_subs f_errs]. rewrite <- app_assoc. reflexivity.
      * intros k2 Hk2. unfold with_props. cbn [f_props]. rewrite map_app. apply existsb_app_false. split.
        -- apply Hfresh. right. exact Hk2.
        -- cbn [map fst existsb]. rewrite orb_false_r. destruct (str_eqb k2 k) eqn:E; [|reflexivity].
           apply str_eqb_eq in E. subst k2. contradiction.
    + cbn in Ha. inversion Ha. cbn [app]. apply (IH lb rest f Hnd'); [|exact Hb].
      intros k2 Hk2. apply Hfresh. right. exact Hk2.
Qed.

(* ------------------------------------------------------------------ the emission order is a permutation of the keys *)
Lemma insert_by_perm {A} (le : A -> A -> bool) e : forall l, Permutation (insert_by le e l) (e :: l).
Proof.
  induction l as [|x l IH]; [reflexivity|]. cbn [insert_by]. destruct (le e x); [reflexivity|].
  rewrite IH. apply perm_swap.
Qed.
Lemma sort_by_perm {A} (le : A -> A -> bool) : forall l, Permutation (sort_by le l) l.
Proof.
  induction l as [|x l IH]; [reflexivity|]. unfold sort_by in *. cbn [fold_right].
  rewrite insert_by_perm. constructor. exact IH.
Qed.
Lemma filter_partition_perm {A} (f : A -> bool) : forall l,
  Permutation (filter f l ++ filter (fun x => negb (f x)) l) l.
Proof.
  induction l as [|x l IH]; [reflexivity|]. cbn [filter]. destruct (f x); cbn [negb app].
  - constructor. exact IH.
  - rewrite <- Permutation_middle. constructor. exact IH.
Qed.

Lemma canonsort_perm keys canon : Permutation (canonsort_keys keys canon) keys.
Proof.
  unfold canonsort_keys. rewrite !sort_by_perm.
  rewrite <- (filter_partition_perm (fun k => match index_of k canon 0 with Some _ => true | None => false end) keys) at 3.
  apply Permutation_app; [reflexivity|].
  assert (forall l, filter (fun k => match index_of k canon 0 with Some _ => false | None => true end) l =
                    filter (fun x => negb match index_of x canon 0 with Some _ => true | None => false end) l) as E.
  { intros l. apply filter_ext. intros a. destruct (index_of a canon 0); reflexivity. }
  rewrite E. reflexivity.
Qed.

Lemma emit_keys_perm sorted n ps : Permutation (emit_keys sorted n ps) (map fst ps).
Proof. unfold emit_keys. destruct sorted; [apply canonsort_perm|reflexivity]. Qed.

Lemma own_items_keys sorted c : own_items sorted c = flat_map (key_items (c_props c)) (emit_keys sorted (c_name c) (c_props c)).
Proof. destruct c as [n ps subs es]. reflexivity. Qed.

(* ------------------------------------------------------------------ the whole tree *)
Definition attach (c : comp) (st : list frame) (d : list comp) : pstate :=
  match st with
  | [] => mk [] (d ++ [c])
  | g :: r => mk (add_sub g c :: r) d
  end.

Lemma flat_map_app' {A B} (f : A -> list B) a b : flat_map f (a ++ b) = flat_map f a ++ flat_map f b.
Proof. induction a as [|x a IH]; [reflexivity|]. cbn [app flat_map]. rewrite IH, app_assoc. reflexivity. Qed.

Theorem reparse_lines dec sorted : forall t, tree_ok dec sorted t = true ->
  forall ls rest st d, lines_of sorted (property_items sorted t) = Ok ls ->
  run_lines dec (mk st d) (ls ++ rest) = run_lines dec (attach (norm sorted t) st d) rest.
Proof.
  induction t as [n ps subs es IHsubs] using comp_ind'. intros Hok ls rest st d Hls.
  cbn [tree_ok] in Hok. rewrite !andb_true_iff in Hok. destruct Hok as [[[Hn Hps] Hnd] Hsubs].
  cbn [property_items] in Hls.
  destruct (lines_of_cons _ _ _ _ _ _ Hls) as (lb & l1 & Hlb & Hl1 & ->).
  destruct (lines_of_app _ _ _ _ Hl1) as (lo & l2 & Hlo & Hl2 & ->).
  destruct (lines_of_app _ _ _ _ Hl2) as (lsub & le & Hlsub & Hle & ->).
  destruct (lines_of_cons _ _ _ _ _ _ Hle) as (lend & lnil & Hlend & Hnil & ->).
  cbn in Hnil. inversion Hnil; subst lnil.
  cbn [app run_lines]. rewrite (step_begin dec sorted n st d lb Hn Hlb).
  (* own properties *)
  rewrite <- !app_assoc.
  rewrite own_items_keys in Hlo. cbn [c_props c_name] in Hlo.
  rewrite (run_keys dec sorted ps st d Hps (emit_keys sorted n ps) lo _ (new_frame n)); [| | |exact Hlo].
  2:{ apply (Permutation_NoDup (Permutation_sym (emit_keys_perm sorted n ps))). apply nodup_strs_spec. exact Hnd. }
  2:{ intros; reflexivity. }
  cbn [new_frame f_props app]. unfold with_props. cbn [f_name f_props f_subs f_errs].
  (* subcomponents *)
  assert (Hrun_subs : forall subs' lsub' rest' f,
            Forall (fun t => tree_ok dec sorted t = true ->
                     forall ls rest st d, lines_of sorted (property_items sorted t) = Ok ls ->
                     run_lines dec (mk st d) (ls ++ rest) = run_lines dec (attach (norm sorted t) st d) rest) subs' ->
            forallb (tree_ok dec sorted) subs' = true ->
            lines_of sorted (flat_map (property_items sorted) subs') = Ok lsub' ->
            run_lines dec (mk (f :: st) d) (lsub' ++ rest') =
            run_lines dec (mk ({| f_name := f_name f; f_props := f_props f;
                                  f_subs := f_subs f ++ map (norm sorted) subs'; f_errs := f_errs f |} :: st) d) rest').
  { induction subs' as [|s subs' IHs]; intros lsub' rest' f HF Hoks Hl.
    - cbn in Hl. inversion Hl. cbn [app map]. rewrite app_nil_r. destruct f; reflexivity.
    - inversion HF as [|s' subs'' Hs HF']; subst.
      cbn [forallb] in Hoks. apply andb_true_iff in Hoks. destruct Hoks as [Hos Hoks].
      cbn [flat_map] in Hl. destruct (lines_of_app _ _ _ _ Hl) as (la & lb' & Ha & Hb & ->).
      rewrite <- app_assoc. rewrite (Hs Hos la (lb' ++ rest') (f :: st) d Ha). cbn [attach].
      rewrite (IHs lb' rest' _ HF' Hoks Hb). unfold add_sub. cbn [f_name f_props f_subs f_errs map].
      rewrite <- app_assoc. reflexivity. }
  rewrite (Hrun_subs subs lsub _ _ IHsubs Hsubs Hlsub). cbn [f_name f_props f_subs f_errs app].
  (* END *)
  cbn [app run_lines]. rewrite (step_end dec sorted n _ st d lend Hn Hlend).
  cbn [norm]. unfold norm_props, close. cbn [f_name f_props f_subs f_errs].
  destruct st; reflexivity.
Qed.

(* ------------------------------------------------------------------ sorting twice changes nothing *)
Fixpoint lsorted {A} (le : A -> A -> bool) (l : list A) : bool :=
  match l with
  | x :: ((y :: _) as r) => le x y && lsorted le r
  | _ => true
  end.

Lemma sort_by_sorted_id {A} (le : A -> A -> bool) : forall l, lsorted le l = true -> sort_by le l = l.
Proof.
  induction l as [|x l IH]; intros H; [reflexivity|].
  unfold sort_by in *. cbn [fold_right]. destruct l as [|y l]; [reflexivity|].
  cbn [lsorted] in H. apply andb_true_iff in H. destruct H as [Hxy Hs].
  rewrite (IH Hs). cbn [insert_by]. rewrite Hxy. reflexivity.
Qed.

Lemma insert_by_sorted {A} (le : A -> A -> bool) : (forall a b, le a b = false -> le b a = true) ->
  forall e l, lsorted le l = true -> lsorted le (insert_by le e l) = true.
Proof.
  intros Htot e. induction l as [|x l IH]; intros H; [reflexivity|].
  cbn [insert_by]. destruct (le e x) eqn:E.
  - cbn [lsorted]. rewrite E. exact H.
  - assert (lsorted le l = true) as Hl.
    { destruct l as [|y l]; [reflexivity|]. cbn [lsorted] in H. apply andb_true_iff in H. apply H. }
    specialize (IH Hl). destruct l as [|y l].
    + cbn [insert_by lsorted]. rewrite (Htot _ _ E). reflexivity.
    + cbn [lsorted] in H. apply andb_true_iff in H. destruct H as [Hxy _].
      cbn [insert_by] in *. destruct (le e y).
      * cbn [lsorted] in *. rewrite (Htot _ _ E). exact IH.
      * cbn [lsorted] in *. rewrite Hxy. exact IH.
Qed.

Lemma sort_by_sorted {A} (le : A -> A -> bool) : (forall a b, le a b = false -> le b a = true) ->
  forall l, lsorted le (sort_by le l) = true.
Proof.
  intros Htot. induction l as [|x l IH]; [reflexivity|]. unfold sort_by in *. cbn [fold_right].
  apply insert_by_sorted; assumption.
Qed.

Lemma str_ltb_asym : forall a b, str_ltb a b = true -> str_ltb b a = false.
Proof.
  induction a as [|x a IH]; intros [|y b] H; try reflexivity; try discriminate.
  cbn [str_ltb] in *. destruct (x <? y) eqn:E1.
  - apply N.ltb_lt in E1. assert ((y <? x) = false) as E2 by (apply N.ltb_ge; lia). rewrite E2.
    reflexivity.
  - destruct (y <? x) eqn:E2; [discriminate|]. apply IH. exact H.
Qed.

Lemma str_leb_total a b : str_leb a b = false -> str_leb b a = true.
Proof. unfold str_leb. rewrite negb_false_iff, negb_true_iff. apply str_ltb_asym. Qed.

Lemma natleb_total {A} (f : A -> nat) a b : Nat.leb (f a) (f b) = false -> Nat.leb (f b) (f a) = true.
Proof. rewrite Nat.leb_gt, Nat.leb_le. lia. Qed.

Lemma sort_by_idem {A} (le : A -> A -> bool) : (forall a b, le a b = false -> le b a = true) ->
  forall l, sort_by le (sort_by le l) = sort_by le l.
Proof. intros Htot l. apply sort_by_sorted_id. apply sort_by_sorted. exact Htot. Qed.

Lemma filter_all {A} (f : A -> bool) : forall l, forallb f l = true -> filter f l = l.
Proof.
  induction l as [|x l IH]; intros H; [reflexivity|]. cbn [forallb] in H. apply andb_true_iff in H.
  destruct H as [Hx Hl]. cbn [filter]. rewrite Hx, (IH Hl). reflexivity.
Qed.
Lemma filter_none {A} (f : A -> bool) : forall l, forallb (fun x => negb (f x)) l = true -> filter f l = [].
Proof.
  induction l as [|x l IH]; intros H; [reflexivity|]. cbn [forallb] in H. apply andb_true_iff in H.
  destruct H as [Hx Hl]. cbn [filter]. apply negb_true_iff in Hx. rewrite Hx. apply IH. exact Hl.
Qed.
Lemma forallb_perm {A} (f : A -> bool) a b : Permutation a b -> forallb f a = true -> forallb f b = true.
Proof.
  intros P H. rewrite forallb_forall in *. intros x Hx. apply H. apply (Permutation_in x (Permutation_sym P) Hx).
Qed.
Lemma forallb_filter {A} (f : A -> bool) : forall l, forallb f (filter f l) = true.
Proof.
  induction l as [|x l IH]; [reflexivity|]. cbn [filter]. destruct (f x) eqn:E; [cbn [forallb]; rewrite E; exact IH|exact IH].
Qed.

Definition inC (canon : list (list N)) (k : list N) : bool := match index_of k canon 0 with Some _ => true | None => false end.
Definition outC (canon : list (list N)) (k : list N) : bool := match index_of k canon 0 with Some _ => false | None => true end.
Definition idxC (canon : list (list N)) (k : list N) : nat := match index_of k canon 0 with Some i => i | None => 0%nat end.
Definition leC (canon : list (list N)) (a b : list N) : bool := Nat.leb (idxC canon a) (idxC canon b).
Definition canonsort_keys' (keys canon : list (list N)) : list (list N) :=
  sort_by (leC canon) (filter (inC canon) keys) ++ sort_by str_leb (filter (outC canon) keys).
Lemma canonsort_keys_eq keys canon : canonsort_keys keys canon = canonsort_keys' keys canon.
Proof. reflexivity. Qed.

Lemma canonsort_idem keys canon : canonsort_keys (canonsort_keys keys canon) canon = canonsort_keys keys canon.
Proof.
  rewrite (canonsort_keys_eq (canonsort_keys keys canon) canon), !(canonsort_keys_eq keys canon). unfold canonsort_keys'.
  set (H := sort_by (leC canon) (filter (inC canon) keys)).
  set (T := sort_by str_leb (filter (outC canon) keys)).
  assert (HinH : forallb (inC canon) H = true) by (apply (forallb_perm _ _ _ (Permutation_sym (sort_by_perm _ _))); apply forallb_filter).
  assert (HoutT : forallb (outC canon) T = true) by (apply (forallb_perm _ _ _ (Permutation_sym (sort_by_perm _ _))); apply forallb_filter).
  assert (Hneg1 : forall l, forallb (outC canon) l = true -> forallb (fun x => negb (inC canon x)) l = true).
  { intros l Hl. rewrite forallb_forall in *. intros x Hx. specialize (Hl x Hx). unfold inC, outC in *.
    destruct (index_of x canon 0); [discriminate|reflexivity]. }
  assert (Hneg2 : forall l, forallb (inC canon) l = true -> forallb (fun x => negb (outC canon x)) l = true).
  { intros l Hl. rewrite forallb_forall in *. intros x Hx. specialize (Hl x Hx). unfold inC, outC in *.
    destruct (index_of x canon 0); [reflexivity|discriminate]. }
  rewrite !filter_app.
  rewrite (filter_all (inC canon) H HinH), (filter_none (inC canon) T (Hneg1 T HoutT)), app_nil_r.
  rewrite (filter_none (outC canon) H (Hneg2 H HinH)), (filter_all (outC canon) T HoutT). cbn [app].
  unfold H at 1. rewrite sort_by_idem by (intros a b; unfold leC; apply natleb_total).
  unfold T at 1. rewrite sort_by_idem by (apply str_leb_total). reflexivity.
Qed.

(* ------------------------------------------------------------------ serialising the normal form gives the same lines *)
Definition rend (sorted : bool) (it : prop_line) : res (list N) :=
  from_parts (fst (fst it)) (snd (fst it)) sorted (snd it).

Lemma lines_of_rend sorted : forall a b, map (rend sorted) a = map (rend sorted) b ->
  lines_of sorted a = lines_of sorted b.
Proof.
  induction a as [|[[n ps] v] a IH]; intros [|[[n' ps'] v'] b] H; try discriminate; [reflexivity|].
  cbn [map] in H. inversion H as [[H1 H2]]. unfold rend in H1. cbn [fst snd] in H1.
  cbn [lines_of]. rewrite H1, (IH b H2). reflexivity.
Qed.

Lemma upper_chr_idem c : upper_chr (upper_chr c) = upper_chr c.
Proof.
  unfold upper_chr, is_lower. destruct (97 <=? c) eqn:E1; destruct (c <=? 122) eqn:E2; cbn [andb]; try (rewrite E1, ?E2; reflexivity).
  apply N.leb_le in E1, E2.
  assert ((97 <=? c - 32) = false) as E3 by (apply N.leb_gt; lia). rewrite E3. reflexivity.
Qed.
Lemma upper_idem k : upper (upper k) = upper k.
Proof. unfold upper. rewrite map_map. apply map_ext. intros c. apply upper_chr_idem. Qed.

Lemma dq_clean_idem v : dq_clean (dq_clean v) = dq_clean v.
Proof. apply dq_clean_id. apply dq_clean_no_quote. Qed.
Lemma dquote_clean v : dquote (dq_clean v) = dquote v.
Proof. unfold dquote. rewrite dq_clean_idem. reflexivity. Qed.

Lemma param_value_canon pv : param_value (canon_pval pv) = param_value pv.
Proof.
  destruct pv as [s|l]; cbn [canon_pval param_value]; [apply dquote_clean|].
  destruct l as [|x [|y r]]; cbn [param_value]; [reflexivity|cbn; apply dquote_clean|].
  unfold q_join. rewrite map_map. f_equal. apply map_ext. intros a. apply dquote_clean.
Qed.

Lemma render_canon kv : render (upper (fst kv), canon_pval (snd kv)) = render kv.
Proof. unfold render. cbn [fst snd]. rewrite upper_idem, param_value_canon. reflexivity. Qed.

Definition leK {V} (a b : list N * V) : bool := str_leb (fst a) (fst b).
Lemma insert_sorted_by {V} (e : list N * V) : forall l, insert_sorted e l = insert_by leK e l.
Proof. induction l as [|x l IH]; [reflexivity|]. cbn [insert_sorted insert_by]. unfold leK at 1. rewrite IH. reflexivity. Qed.
Lemma sort_items_by {V} : forall l : list (list N * V), sort_items l = sort_by leK l.
Proof.
  induction l as [|x l IH]; [reflexivity|]. unfold sort_items, sort_by in *. cbn [fold_right].
  rewrite IH. apply insert_sorted_by.
Qed.
Lemma leK_total {V} (a b : list N * V) : leK a b = false -> leK b a = true.
Proof. unfold leK. apply str_leb_total. Qed.

Lemma lsorted_map_fst {V W} (g : list N * V -> list N * W) : (forall x, fst (g x) = fst x) ->
  forall l, lsorted leK (map g l) = lsorted leK l.
Proof.
  intros Hg l. destruct l as [|x l]; [reflexivity|]. revert x.
  induction l as [|y l IH]; intros x; [reflexivity|].
  change (map g (x :: y :: l)) with (g x :: map g (y :: l)).
  change (lsorted leK (x :: y :: l)) with (leK x y && lsorted leK (y :: l)).
  rewrite <- (IH y). cbn [map lsorted]. unfold leK at 1 3. rewrite !Hg. reflexivity.
Qed.

Lemma canon_params_upper ps : params_upper ps = true ->
  canon_params ps = map (fun kv : list N * pval => (fst kv, canon_pval (snd kv))) ps.
Proof.
  unfold params_upper, canon_params. intros H. apply map_ext_in. intros kv Hin. rewrite forallb_forall in H.
  specialize (H kv Hin). apply str_eqb_eq in H. rewrite H. reflexivity.
Qed.

Lemma params_upper_perm a b : Permutation a b -> params_upper a = true -> params_upper b = true.
Proof. unfold params_upper. apply forallb_perm. Qed.

Lemma order_canon sorted ps : params_upper ps = true ->
  order_params sorted (canon_params (order_params sorted ps)) = canon_params (order_params sorted ps).
Proof.
  intros Hu. destruct sorted; cbn [order_params]; [|reflexivity].
  assert (params_upper (sort_items ps) = true) as Hu' by (apply (params_upper_perm _ _ (Permutation_sym (sort_items_perm ps)) Hu)).
  rewrite (canon_params_upper _ Hu'). rewrite (sort_items_by (map _ _)).
  apply sort_by_sorted_id. rewrite (lsorted_map_fst (fun kv : list N * pval => (fst kv, canon_pval (snd kv)))) by reflexivity.
  rewrite sort_items_by. apply sort_by_sorted. apply leK_total.
Qed.

Lemma map_render_canon ps : map render (canon_params ps) = map render ps.
Proof. unfold canon_params. rewrite map_map. apply map_ext. intros kv. apply render_canon. Qed.

Lemma from_parts_norm k ps sorted v : params_upper ps = true ->
  from_parts k (canon_params (order_params sorted ps)) sorted v = from_parts k ps sorted v.
Proof.
  intros Hu. unfold from_parts.
  assert (params_to_ical sorted (canon_params (order_params sorted ps)) = params_to_ical sorted ps) as E.
  { rewrite !params_to_ical_render, (order_canon sorted ps Hu), map_render_canon. reflexivity. }
  destruct ps as [|p0 ps0].
  - assert (canon_params (order_params sorted []) = []) as E0 by (destruct sorted; reflexivity). rewrite E0. reflexivity.
  - destruct (canon_params (order_params sorted (p0 :: ps0))) eqn:Ec.
    + exfalso. pose proof (order_params_perm sorted (p0 :: ps0)) as P. unfold canon_params in Ec.
      apply map_eq_nil in Ec. rewrite Ec in P. apply Permutation_nil in P. discriminate.
    + rewrite E. reflexivity.
Qed.

Lemma entry_values_of_list l : entry_values (entry_of_list l) = l.
Proof. destruct l as [|a [|b r]]; reflexivity. Qed.

Lemma dict_get_flat_norm sorted ps : forall ks k, NoDup ks -> In k ks ->
  dict_get k (flat_map (key_norm sorted ps) ks) =
  match dict_get k ps with Some e => Some (norm_entry sorted e) | None => None end.
Proof.
  induction ks as [|k0 ks IH]; intros k Hnd Hin; [contradiction|].
  inversion Hnd as [|k0' ks' Hnot Hnd']; subst. cbn [flat_map]. unfold key_norm at 1.
  destruct (str_eqb k k0) eqn:E.
  - apply str_eqb_eq in E. subst k0. destruct (dict_get k ps) as [e|] eqn:Eg.
    + cbn [app dict_get]. assert (str_eqb k k = true) as Ek by (apply str_eqb_eq; reflexivity). rewrite Ek. reflexivity.
    + cbn [app]. (* k is not among the remaining keys either *)
      assert (forall ks2, dict_get k (flat_map (key_norm sorted ps) ks2) = None) as Hn.
      { induction ks2 as [|k2 ks2 IH2]; [reflexivity|]. cbn [flat_map]. unfold key_norm at 1.
        destruct (dict_get k2 ps) as [e2|] eqn:E2; [|exact IH2]. cbn [app dict_get].
        destruct (str_eqb k k2) eqn:E3; [|exact IH2]. apply str_eqb_eq in E3. subst k2. congruence. }
      apply Hn.
  - destruct Hin as [->|Hin]; [assert (str_eqb k k = true) by (apply str_eqb_eq; reflexivity); congruence|].
    destruct (dict_get k0 ps) as [e0|]; cbn [app dict_get]; [rewrite E|]; apply IH; assumption.
Qed.

Lemma map_fst_flat_norm sorted ps : forall ks, (forall k, In k ks -> exists e, dict_get k ps = Some e) ->
  map fst (flat_map (key_norm sorted ps) ks) = ks.
Proof.
  induction ks as [|k ks IH]; intros H; [reflexivity|]. cbn [flat_map]. unfold key_norm at 1.
  destruct (H k (or_introl eq_refl)) as [e He]. rewrite He. cbn [app map fst]. f_equal. apply IH.
  intros k' Hk'. apply H. right. exact Hk'.
Qed.

Lemma In_keys_dict_get {V} (ps : list (list N * V)) k : In k (map fst ps) -> exists e, dict_get k ps = Some e.
Proof.
  induction ps as [|[k' v'] ps IH]; cbn [map fst In dict_get]; intros H; [contradiction|].
  destruct (str_eqb k k') eqn:E; [eauto|]. destruct H as [->|H]; [|apply IH; exact H].
  assert (str_eqb k k = true) by (apply str_eqb_eq; reflexivity). congruence.
Qed.

Lemma emit_keys_norm sorted n ps : nodup_strs (map fst ps) = true ->
  map fst (norm_props sorted n ps) = emit_keys sorted n ps /\
  emit_keys sorted n (norm_props sorted n ps) = emit_keys sorted n ps.
Proof.
  intros Hnd. assert (map fst (norm_props sorted n ps) = emit_keys sorted n ps) as E1.
  { unfold norm_props. apply (map_fst_flat_norm sorted ps). intros k Hk. apply In_keys_dict_get.
    apply (Permutation_in k (emit_keys_perm sorted n ps) Hk). }
  split; [exact E1|]. unfold emit_keys at 1. rewrite E1. unfold emit_keys. destruct sorted; [|reflexivity].
  apply canonsort_idem.
Qed.

Theorem ser_norm_items sorted : forall t, tree_upper t = true ->
  (fix nd (c : comp) : bool := let '(Comp _ ps subs _) := c in nodup_strs (map fst ps) && forallb nd subs) t = true ->
  map (rend sorted) (property_items sorted (norm sorted t)) = map (rend sorted) (property_items sorted t).
Proof.
  induction t as [n ps subs es IH] using comp_ind'. intros Hup Hnd.
  cbn [tree_upper] in Hup. apply andb_true_iff in Hup. destruct Hup as [Hup Hups].
  apply andb_true_iff in Hnd. destruct Hnd as [Hnd Hnds].
  cbn [norm property_items]. rewrite !map_cons, !map_app. f_equal. f_equal; [|f_equal].
  - (* own properties *)
    rewrite !own_items_keys. cbn [c_props c_name].
    destruct (emit_keys_norm sorted n ps Hnd) as [_ E2]. rewrite E2.
    assert (NoDup (emit_keys sorted n ps)) as HndK.
    { apply (Permutation_NoDup (Permutation_sym (emit_keys_perm sorted n ps))). apply nodup_strs_spec. exact Hnd. }
    assert (forall ks, (forall k, In k ks -> In k (emit_keys sorted n ps)) ->
              map (rend sorted) (flat_map (key_items (norm_props sorted n ps)) ks) =
              map (rend sorted) (flat_map (key_items ps) ks)) as Hks.
    { induction ks as [|k ks IHk]; intros Hsub; [reflexivity|]. cbn [flat_map]. rewrite !map_app.
      rewrite IHk by (intros k' Hk'; apply Hsub; right; exact Hk'). f_equal.
      unfold key_items. change (norm_props sorted n ps) with (flat_map (key_norm sorted ps) (emit_keys sorted n ps)).
      rewrite (dict_get_flat_norm sorted ps _ k HndK (Hsub k (or_introl eq_refl))).
      destruct (dict_get k ps) as [e|] eqn:Eg; [|reflexivity].
      rewrite norm_entry_list, entry_values_of_list, !map_map.
      apply map_ext_in. intros v Hv. unfold rend, item_of, norm_value. cbn [fst snd v_params v_text].
      apply from_parts_norm. rewrite forallb_forall in Hup. specialize (Hup _ (dict_get_In _ _ _ Eg)).
      cbn [snd] in Hup. rewrite forallb_forall in Hup. apply Hup. exact Hv. }
    apply Hks. auto.
  - (* subcomponents *)
    clear -IH Hups Hnds. induction subs as [|s subs IHs]; [reflexivity|].
    inversion IH as [|s' subs' Hs HF]; subst. cbn [forallb] in Hups, Hnds.
    apply andb_true_iff in Hups, Hnds. destruct Hups as [Hu1 Hu2]. destruct Hnds as [Hn1 Hn2].
    cbn [map flat_map]. rewrite !map_app. rewrite (Hs Hu1 Hn1), (IHs HF Hu2 Hn2). reflexivity.
Qed.

(* ------------------------------------------------------------------ from lines to text *)
Require Import Proofs.LinesProofs.

Lemma from_parts_good n ps sorted v l : is_token n = true -> from_parts n ps sorted v = Ok l -> good_line l = true.
Proof.
  intros Hn H. destruct (forallb_token n Hn) as [Hne Hall].
  destruct n as [|c n]; [congruence|]. inversion Hall as [|c' n' Hc Hn']; subst.
  destruct (token_chr_facts c Hc) as (_ & _ & _ & _ & _ & _ & _ & _ & _).
  assert (good_first c = true) as Hg.
  { unfold good_first. apply negb_true_iff. rewrite !orb_false_iff. repeat split; apply N.eqb_neq; intros ->; discriminate. }
  unfold from_parts, contentline_new in H.
  destruct ps as [|p0 ps0].
  - destruct (mem_chr 10 ((c :: n) ++ 58 :: v)) eqn:E; inversion H; subst l.
    unfold good_line, Fold.no_lf. cbn [app] in *. rewrite E. cbn [negb andb]. exact Hg.
  - destruct (mem_chr 10 _) eqn:E; inversion H; subst l.
    unfold good_line, Fold.no_lf. cbn [app] in *. rewrite E. cbn [negb andb]. exact Hg.
Qed.

Lemma lines_of_good sorted : forall items ls,
  Forall (fun it : prop_line => is_token (fst (fst it)) = true) items ->
  lines_of sorted items = Ok ls -> forallb good_line ls = true.
Proof.
  induction items as [|[[n ps] v] items IH]; intros ls HF H.
  - cbn in H. inversion H. reflexivity.
  - inversion HF as [|x xs Hx HF']; subst. cbn [fst] in Hx.
    destruct (lines_of_cons _ _ _ _ _ _ H) as (l & lr & Hl & Hlr & ->).
    cbn [forallb]. rewrite (from_parts_good n ps sorted v l Hx Hl). apply (IH lr HF' Hlr).
Qed.

Lemma items_tokens dec sorted : forall t, tree_ok dec sorted t = true ->
  Forall (fun it : prop_line => is_token (fst (fst it)) = true) (property_items sorted t).
Proof.
  induction t as [n ps subs es IH] using comp_ind'. intros Hok.
  cbn [tree_ok] in Hok. rewrite !andb_true_iff in Hok. destruct Hok as [[[Hn Hps] Hnd] Hsubs].
  cbn [property_items]. constructor; [reflexivity|]. apply Forall_app. split; [|apply Forall_app; split].
  - rewrite own_items_keys. cbn [c_props c_name]. apply Forall_forall. intros it Hit.
    apply in_flat_map in Hit. destruct Hit as (k & _ & Hit). unfold key_items in Hit.
    destruct (dict_get k ps) as [e|] eqn:Eg; [|contradiction].
    apply in_map_iff in Hit. destruct Hit as (v & <- & _). cbn [item_of fst].
    rewrite forallb_forall in Hps. specialize (Hps _ (dict_get_In _ _ _ Eg)). unfold entry_ok in Hps.
    rewrite !andb_true_iff in Hps. destruct Hps as [[Hk _] _]. apply (key_not_begin_end k Hk).
  - clear -IH Hsubs. induction subs as [|s subs IHs]; [constructor|].
    inversion IH as [|s' subs' Hs HF]; subst. cbn [forallb] in Hsubs. apply andb_true_iff in Hsubs.
    destruct Hsubs as [H1 H2]. cbn [flat_map]. apply Forall_app. split; [apply Hs; exact H1|apply IHs; assumption].
  - constructor; [reflexivity|constructor].
Qed.

(* C01, first half: parsing the serialisation of a tree gives its normal form *)
Theorem reparse dec sorted multiple t text : tree_ok dec sorted t = true ->
  ser sorted t = Ok text -> parse dec [] multiple text = Ok [norm sorted t].
Proof.
  intros Hok Hser. unfold ser in Hser.
  destruct (lines_of sorted (property_items sorted t)) as [ls| | |] eqn:El; try discriminate.
  cbn [bind] in Hser. inversion Hser; subst text.
  unfold parse. rewrite (lines_roundtrip ls (lines_of_good sorted _ ls (items_tokens dec sorted t Hok) El)).
  pose proof (reparse_lines dec sorted t Hok ls [] [] [] El) as R. rewrite app_nil_r in R.
  change {| stack := []; done := []; cache := [] |} with (mk [] []). rewrite R.
  cbn [attach run_lines bind mk done app]. destruct multiple; reflexivity.
Qed.

Fixpoint tree_nodup (c : comp) : bool :=
  let '(Comp _ ps subs _) := c in nodup_strs (map fst ps) && forallb tree_nodup subs.

Lemma tree_ok_nodup dec sorted : forall t, tree_ok dec sorted t = true -> tree_nodup t = true.
Proof.
  induction t as [n ps subs es IH] using comp_ind'. intros Hok.
  cbn [tree_ok] in Hok. rewrite !andb_true_iff in Hok. destruct Hok as [[[Hn Hps] Hnd] Hsubs].
  cbn [tree_nodup]. rewrite Hnd. cbn [andb]. clear -IH Hsubs.
  induction subs as [|s subs IHs]; [reflexivity|]. inversion IH as [|s' subs' Hs HF]; subst.
  cbn [forallb] in *. apply andb_true_iff in Hsubs. destruct Hsubs as [H1 H2]. rewrite (Hs H1), (IHs HF H2). reflexivity.
Qed.

(* C01, second half: the normal form serialises to the same bytes *)
Theorem ser_norm dec sorted t : tree_ok dec sorted t = true -> tree_upper t = true ->
  ser sorted (norm sorted t) = ser sorted t.
Proof.
  intros Hok Hup. unfold ser. f_equal. apply lines_of_rend. apply ser_norm_items; [exact Hup|].
  exact (tree_ok_nodup dec sorted t Hok).
Qed.

(* together: parse . serialise . parse . serialise is stable *)
Theorem stable dec sorted multiple t text : tree_ok dec sorted t = true -> tree_upper t = true ->
  ser sorted t = Ok text ->
  exists t', parse dec [] multiple text = Ok [t'] /\ t' = norm sorted t /\ ser sorted t' = Ok text.
Proof.
  intros Hok Hup Hser. exists (norm sorted t). split; [apply (reparse dec sorted multiple t text Hok Hser)|].
  split; [reflexivity|]. rewrite (ser_norm dec sorted t Hok Hup). exact Hser.
Qed.

(* ------------------------------------------------------------------ C06 for whole components *)
Lemma from_parts_no_lf n ps sorted v l : from_parts n ps sorted v = Ok l -> Fold.no_lf l = true.
Proof.
  unfold from_parts, contentline_new, Fold.no_lf. destruct ps.
  - destruct (mem_chr 10 (n ++ 58 :: v)) eqn:E; intros H; inversion H; subst. rewrite E. reflexivity.
  - destruct (mem_chr 10 _) eqn:E; intros H; inversion H; subst. rewrite E. reflexivity.
Qed.

Lemma lines_of_no_lf sorted : forall items ls, lines_of sorted items = Ok ls -> forallb Fold.no_lf ls = true.
Proof.
  induction items as [|[[n ps] v] items IH]; intros ls H.
  - cbn in H. inversion H. reflexivity.
  - destruct (lines_of_cons _ _ _ _ _ _ H) as (l & lr & Hl & Hlr & ->). cbn [forallb].
    rewrite (from_parts_no_lf _ _ _ _ _ Hl), (IH lr Hlr). reflexivity.
Qed.

(* every physical line of every component that serialises at all has at most 75 octets -- no guard *)
Theorem ser_width sorted t text : ser sorted t = Ok text ->
  Forall (fun ln => (Fold.bytes ln <= 75)%nat) (Fold.phys_lines text).
Proof.
  unfold ser. destruct (lines_of sorted (property_items sorted t)) as [ls| | |] eqn:E; try discriminate.
  cbn [bind]. intros H. inversion H; subst. apply lines_width. apply (lines_of_no_lf sorted _ ls E).
Qed.
