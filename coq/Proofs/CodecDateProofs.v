(* vDate / vTime / vDatetime: round trips over every valid value, RFC readings of grammar-valid
   texts, and what exactly happens on the two recorded defect classes (second 60, UTC times). *)
Require Import Lib.Base Model.Params Model.CodecBase Model.CodecDate Proofs.CodecBaseProofs.
From Coq Require Import ZArith List Bool Lia ZifyBool.
Local Open Scope Z_scope.

Lemma all_ascii_cons c r : (c <? 128)%N = true -> all_ascii r = true -> all_ascii (c :: r) = true.
Proof. unfold all_ascii. simpl. intros -> ->. reflexivity. Qed.

Ltac ascii_digits :=
  repeat (apply all_ascii_cons; [first [assumption | apply digit_ascii; assumption] |]); assumption.

Lemma days_in_month_le y m : days_in_month y m <= 31.
Proof. unfold days_in_month. repeat match goal with |- context [if ?b then _ else _] => destruct b end; lia. Qed.

Lemma valid_date_bounds y m d : valid_date y m d = true ->
  1 <= y <= 9999 /\ 1 <= m <= 12 /\ 1 <= d <= 31.
Proof. unfold valid_date. pose proof (days_in_month_le y m). lia. Qed.

Lemma valid_time_bounds h m s : valid_time h m s = true -> 0 <= h <= 23 /\ 0 <= m <= 59 /\ 0 <= s <= 59.
Proof. unfold valid_time. lia. Qed.

Lemma valid_date_b y m d : valid_date y m d = true -> 0 <= y < 10000 /\ 0 <= m < 100 /\ 0 <= d < 100.
Proof. intros H. apply valid_date_bounds in H. lia. Qed.
Lemma valid_time_b h m s : valid_time h m s = true -> 0 <= h < 100 /\ 0 <= m < 100 /\ 0 <= s < 100.
Proof. intros H. apply valid_time_bounds in H. lia. Qed.
Lemma valid_time_rfc h m s : valid_time h m s = true -> (h <=? 23) && (m <=? 59) && (s <=? 60) = true.
Proof. intros H. apply valid_time_bounds in H. lia. Qed.

Lemma valid_time_rfc60 h m s : 0 <= h -> 0 <= m -> 0 <= s -> h <= 23 -> m <= 59 -> s <= 60 ->
  valid_time h m s = negb (s =? 60).
Proof. unfold valid_time. lia. Qed.

Local Opaque py_int valid_date valid_time zpad.

(* ---------------------------------------------------------------- explicit-text computations *)
Lemma dec_date_digits a b c d e f g h rest :
  is_digit a = true -> is_digit b = true -> is_digit c = true -> is_digit d = true ->
  is_digit e = true -> is_digit f = true -> is_digit g = true -> is_digit h = true ->
  all_ascii rest = true ->
  dec_date (a :: b :: c :: d :: e :: f :: g :: h :: rest) =
  if valid_date (num4 a b c d) (num2 e f) (num2 g h) then Ok (num4 a b c d, num2 e f, num2 g h) else ValueErr.
Proof.
  intros. unfold dec_date.
  assert (Hasc : all_ascii (a :: b :: c :: d :: e :: f :: g :: h :: rest) = true) by ascii_digits. rewrite Hasc.
  cbn [negb slice Nat.sub firstn skipn]. rewrite py_int_4, !py_int_2 by assumption. reflexivity.
Qed.

Lemma dec_time_digits a b c d e f rest :
  is_digit a = true -> is_digit b = true -> is_digit c = true -> is_digit d = true ->
  is_digit e = true -> is_digit f = true -> all_ascii rest = true ->
  dec_time (a :: b :: c :: d :: e :: f :: rest) =
  if valid_time (num2 a b) (num2 c d) (num2 e f) then Ok (num2 a b, num2 c d, num2 e f, false) else ValueErr.
Proof.
  intros. unfold dec_time.
  assert (Hasc : all_ascii (a :: b :: c :: d :: e :: f :: rest) = true) by ascii_digits. rewrite Hasc.
  cbn [negb slice Nat.sub firstn skipn]. rewrite !py_int_2 by assumption. reflexivity.
Qed.

Lemma dec_datetime_digits a b c d e f g h x i j k l m n rest :
  is_digit a = true -> is_digit b = true -> is_digit c = true -> is_digit d = true ->
  is_digit e = true -> is_digit f = true -> is_digit g = true -> is_digit h = true ->
  is_digit i = true -> is_digit j = true -> is_digit k = true -> is_digit l = true ->
  is_digit m = true -> is_digit n = true -> (x <? 128)%N = true -> all_ascii rest = true ->
  dec_datetime (a :: b :: c :: d :: e :: f :: g :: h :: x :: i :: j :: k :: l :: m :: n :: rest) =
  if valid_date (num4 a b c d) (num2 e f) (num2 g h) && valid_time (num2 i j) (num2 k l) (num2 m n) then
    match rest with
    | [] => Ok (num4 a b c d, num2 e f, num2 g h, num2 i j, num2 k l, num2 m n, false)
    | z :: _ => if (z =? 90)%N then Ok (num4 a b c d, num2 e f, num2 g h, num2 i j, num2 k l, num2 m n, true)
                else ValueErr
    end
  else ValueErr.
Proof.
  intros. unfold dec_datetime.
  assert (Hasc : all_ascii (a :: b :: c :: d :: e :: f :: g :: h :: x :: i :: j :: k :: l :: m :: n :: rest) = true) by ascii_digits. rewrite Hasc.
  cbn [negb slice Nat.sub firstn skipn]. rewrite py_int_4, !py_int_2 by assumption. reflexivity.
Qed.

(* ---------------------------------------------------------------- round trips *)
Lemma date_rt y m d : valid_date y m d = true ->
  exists t, enc_date y m d = Ok t /\ dec_date t = Ok (y, m, d) /\ date_value t = Some (y, m, d).
Proof.
  intros Hv. destruct (valid_date_b _ _ _ Hv) as (Hy & Hm & Hd).
  destruct (zpad4_spec y Hy) as (a & b & c & d0 & Ey & Ha & Hb & Hc & Hd0 & Ny).
  destruct (zpad2_spec m Hm) as (e & f & Em & He & Hf & Nm).
  destruct (zpad2_spec d Hd) as (g & h & Ed & Hg & Hh & Nd).
  unfold enc_date. rewrite Hv, Ey, Em, Ed. eexists. split; [reflexivity|]. cbn [app]. split.
  - rewrite dec_date_digits by (assumption || reflexivity). rewrite Ny, Nm, Nd, Hv. reflexivity.
  - unfold date_value. cbn [forallb]. rewrite Ha, Hb, Hc, Hd0, He, Hf, Hg, Hh. cbn [andb].
    rewrite Ny, Nm, Nd, Hv. reflexivity.
Qed.

Lemma time_rt h m s : valid_time h m s = true ->
  exists t, enc_time h m s false = Ok t /\ dec_time t = Ok (h, m, s, false)
            /\ time_value t = Some (h, m, s, false).
Proof.
  intros Hv. destruct (valid_time_b _ _ _ Hv) as (Hh & Hm & Hs). pose proof (valid_time_rfc _ _ _ Hv) as Hrfc.
  destruct (zpad2_spec h Hh) as (a & b & Eh & Ha & Hb & Nh).
  destruct (zpad2_spec m Hm) as (c & d & Em & Hc & Hd & Nm).
  destruct (zpad2_spec s Hs) as (e & f & Es & He & Hf & Ns).
  unfold enc_time. rewrite Hv, Eh, Em, Es. eexists. split; [reflexivity|]. cbn [app]. split.
  - rewrite dec_time_digits by (assumption || reflexivity). rewrite Nh, Nm, Ns, Hv. reflexivity.
  - unfold time_value. cbn [forallb]. rewrite Ha, Hb, Hc, Hd, He, Hf. cbn [andb].
    rewrite Nh, Nm, Ns, Hrfc. reflexivity.
Qed.

Lemma datetime_rt y m d h mi s utc : valid_date y m d = true -> valid_time h mi s = true ->
  exists t, enc_datetime (y, m, d, h, mi, s, utc) = Ok t /\ dec_datetime t = Ok (y, m, d, h, mi, s, utc)
            /\ datetime_value t = Some (y, m, d, h, mi, s, utc).
Proof.
  intros Hvd Hvt. destruct (valid_date_b _ _ _ Hvd) as (Hy & Hm & Hd).
  destruct (valid_time_b _ _ _ Hvt) as (Hh & Hmi & Hs). pose proof (valid_time_rfc _ _ _ Hvt) as Hrfc.
  destruct (zpad4_spec y Hy) as (a & b & c & d0 & Ey & Ha & Hb & Hc & Hd0 & Ny).
  destruct (zpad2_spec m Hm) as (e & f & Em & He & Hf & Nm).
  destruct (zpad2_spec d Hd) as (g & h0 & Ed & Hg & Hh0 & Nd).
  destruct (zpad2_spec h Hh) as (i & j & Eh & Hi & Hj & Nh).
  destruct (zpad2_spec mi Hmi) as (k & l & Emi & Hk & Hl & Nmi).
  destruct (zpad2_spec s Hs) as (p & q & Es & Hp & Hq & Ns).
  unfold enc_datetime. rewrite Hvd, Hvt, Ey, Em, Ed, Eh, Emi, Es. cbn [andb].
  eexists. split; [reflexivity|]. cbn [app]. split.
  - rewrite dec_datetime_digits by (assumption || reflexivity || (destruct utc; reflexivity)).
    rewrite Ny, Nm, Nd, Nh, Nmi, Ns, Hvd, Hvt. cbn [andb]. destruct utc; reflexivity.
  - unfold datetime_value. cbn [firstn skipn]. unfold date_value. cbn [forallb].
    rewrite Ha, Hb, Hc, Hd0, He, Hf, Hg, Hh0. cbn [andb]. rewrite Ny, Nm, Nd, Hvd. cbn [N.eqb Pos.eqb].
    unfold time_value. destruct utc; cbn [app N.eqb Pos.eqb forallb]; rewrite Hi, Hj, Hk, Hl, Hp, Hq; cbn [andb];
      rewrite Nh, Nmi, Ns, Hrfc; reflexivity.
Qed.

(* a UTC time is written without its designator and therefore read back naive *)
Lemma time_utc_lost h m s : valid_time h m s = true ->
  exists t, enc_time h m s true = Ok t /\ dec_time t = Ok (h, m, s, false).
Proof.
  intros Hv. destruct (time_rt h m s Hv) as (t & He & Hd & _). exists t. split; [exact He | exact Hd].
Qed.

(* ---------------------------------------------------------------- RFC readings *)
Lemma date_value_inv t y m d : date_value t = Some (y, m, d) ->
  exists a b c d0 e f g h, t = [a; b; c; d0; e; f; g; h]
    /\ is_digit a = true /\ is_digit b = true /\ is_digit c = true /\ is_digit d0 = true
    /\ is_digit e = true /\ is_digit f = true /\ is_digit g = true /\ is_digit h = true
    /\ y = num4 a b c d0 /\ m = num2 e f /\ d = num2 g h /\ valid_date y m d = true.
Proof.
  unfold date_value. intros H.
  destruct t as [|a [|b [|c [|d0 [|e [|f [|g [|h [|]]]]]]]]]; try discriminate.
  destruct (forallb is_digit [a; b; c; d0; e; f; g; h]) eqn:Hd; try discriminate.
  destruct (valid_date (num4 a b c d0) (num2 e f) (num2 g h)) eqn:Hv; try discriminate.
  inversion H; subst. cbn [forallb] in Hd.
  repeat (apply andb_true_iff in Hd as [? Hd]).
  exists a, b, c, d0, e, f, g, h. repeat split; auto.
Qed.

Lemma date_grammar_dec t v : date_value t = Some v -> dec_date t = Ok v.
Proof.
  destruct v as [[y m] d]. intros H.
  destruct (date_value_inv _ _ _ _ H) as (a & b & c & d0 & e & f & g & h & -> & ? & ? & ? & ? & ? & ? & ? & ? & -> & -> & -> & Hv).
  rewrite dec_date_digits by (assumption || reflexivity). now rewrite Hv.
Qed.

Definition time_core (a b c d e f : N) (utc : bool) : option (Z * Z * Z * bool) :=
  if forallb is_digit [a; b; c; d; e; f] then
    let '(h, m, s) := (num2 a b, num2 c d, num2 e f) in
    if (h <=? 23) && (m <=? 59) && (s <=? 60) then Some (h, m, s, utc) else None
  else None.

Lemma time_value_inv t h m s utc : time_value t = Some (h, m, s, utc) ->
  exists a b c d e f, t = [a; b; c; d; e; f] ++ (if utc then [90%N] else [])
    /\ is_digit a = true /\ is_digit b = true /\ is_digit c = true /\ is_digit d = true
    /\ is_digit e = true /\ is_digit f = true
    /\ h = num2 a b /\ m = num2 c d /\ s = num2 e f /\ h <= 23 /\ m <= 59 /\ s <= 60.
Proof.
  unfold time_value. intros H.
  destruct t as [|a [|b [|c [|d [|e [|f [|z [|]]]]]]]]; try discriminate.
  - destruct (forallb is_digit [a; b; c; d; e; f]) eqn:Hd; try discriminate.
    destruct ((num2 a b <=? 23) && (num2 c d <=? 59) && (num2 e f <=? 60)) eqn:Hr; try discriminate.
    inversion H; subst. cbn [forallb] in Hd. repeat (apply andb_true_iff in Hd as [? Hd]).
    exists a, b, c, d, e, f. repeat split; auto; lia.
  - destruct (z =? 90)%N eqn:Hz; try discriminate. apply N.eqb_eq in Hz. subst z.
    destruct (forallb is_digit [a; b; c; d; e; f]) eqn:Hd; try discriminate.
    destruct ((num2 a b <=? 23) && (num2 c d <=? 59) && (num2 e f <=? 60)) eqn:Hr; try discriminate.
    inversion H; subst. cbn [forallb] in Hd. repeat (apply andb_true_iff in Hd as [? Hd]).
    exists a, b, c, d, e, f. repeat split; auto; lia.
Qed.

Lemma num2_nonneg a b : 0 <= num2 a b.
Proof. unfold num2, dval. lia. Qed.

(* what vTime.from_ical does with any grammar-valid TIME text: second 60 is refused, otherwise the
   fields are right and the result is naive whether or not the text ends in Z *)
Lemma time_grammar_dec_full t h m s utc : time_value t = Some (h, m, s, utc) ->
  dec_time t = if s =? 60 then ValueErr else Ok (h, m, s, false).
Proof.
  intros H. destruct (time_value_inv _ _ _ _ _ H) as (a & b & c & d & e & f & -> & ? & ? & ? & ? & ? & ? & -> & -> & -> & Hh & Hm & Hs).
  cbn [app]. rewrite dec_time_digits by (assumption || (destruct utc; reflexivity)).
  rewrite (valid_time_rfc60 _ _ _ (num2_nonneg a b) (num2_nonneg c d) (num2_nonneg e f) Hh Hm Hs).
  destruct (num2 e f =? 60); reflexivity.
Qed.

Lemma time_grammar_dec t h m s utc : time_value t = Some (h, m, s, utc) ->
  negb (s =? 60) && negb utc = true -> dec_time t = Ok (h, m, s, utc).
Proof.
  intros H G. rewrite (time_grammar_dec_full _ _ _ _ _ H).
  apply andb_true_iff in G as [G1 G2]. destruct utc; try discriminate.
  destruct (s =? 60); try discriminate. reflexivity.
Qed.

Lemma datetime_value_inv t y m d h mi s utc : datetime_value t = Some (y, m, d, h, mi, s, utc) ->
  exists dpart tpart, t = dpart ++ 84%N :: tpart /\ date_value dpart = Some (y, m, d)
                      /\ time_value tpart = Some (h, mi, s, utc).
Proof.
  unfold datetime_value. intros H.
  destruct (date_value (firstn 8 t)) as [[[y' m'] d']|] eqn:Ed; try discriminate.
  destruct (skipn 8 t) as [|c r] eqn:Es; try discriminate.
  destruct (c =? 84)%N eqn:Ec; try discriminate. apply N.eqb_eq in Ec. subst c.
  destruct (time_value r) as [[[[h' mi'] s'] u']|] eqn:Et; try discriminate.
  inversion H; subst. exists (firstn 8 t), r. rewrite <- Es, firstn_skipn. auto.
Qed.

Lemma datetime_grammar_dec_full t y m d h mi s utc : datetime_value t = Some (y, m, d, h, mi, s, utc) ->
  dec_datetime t = if s =? 60 then ValueErr else Ok (y, m, d, h, mi, s, utc).
Proof.
  intros H. destruct (datetime_value_inv _ _ _ _ _ _ _ _ H) as (dp & tp & -> & Hd & Ht).
  destruct (date_value_inv _ _ _ _ Hd) as (a & b & c & d0 & e & f & g & h0 & -> & ? & ? & ? & ? & ? & ? & ? & ? & -> & -> & -> & Hv).
  destruct (time_value_inv _ _ _ _ _ Ht) as (i & j & k & l & p & q & -> & ? & ? & ? & ? & ? & ? & -> & -> & -> & Hh & Hm & Hs).
  cbn [app]. rewrite dec_datetime_digits by (assumption || reflexivity || (destruct utc; reflexivity)).
  rewrite Hv. cbn [andb].
  rewrite (valid_time_rfc60 _ _ _ (num2_nonneg i j) (num2_nonneg k l) (num2_nonneg p q) Hh Hm Hs).
  destruct (num2 p q =? 60); cbn [negb]; [reflexivity|]. destruct utc; reflexivity.
Qed.

Lemma datetime_grammar_dec t v : datetime_value t = Some v ->
  (let '(_, _, _, _, _, s, _) := v in negb (s =? 60)) = true -> dec_datetime t = Ok v.
Proof.
  destruct v as [[[[[[y m] d] h] mi] s] utc]. intros H G.
  rewrite (datetime_grammar_dec_full _ _ _ _ _ _ _ _ H). destruct (s =? 60); try discriminate. reflexivity.
Qed.

(* lengths: what the combined decoder dispatches on *)
Lemma date_value_length t v : date_value t = Some v -> List.length t = 8%nat.
Proof.
  destruct v as [[y m] d]. intros H.
  destruct (date_value_inv _ _ _ _ H) as (a & b & c & d0 & e & f & g & h & -> & _). reflexivity.
Qed.
Lemma time_value_length t h m s utc : time_value t = Some (h, m, s, utc) ->
  List.length t = (if utc then 7 else 6)%nat.
Proof.
  intros H. destruct (time_value_inv _ _ _ _ _ H) as (a & b & c & d & e & f & -> & _). destruct utc; reflexivity.
Qed.
Lemma datetime_value_length t y m d h mi s utc : datetime_value t = Some (y, m, d, h, mi, s, utc) ->
  List.length t = (if utc then 16 else 15)%nat.
Proof.
  intros H. destruct (datetime_value_inv _ _ _ _ _ _ _ _ H) as (dp & tp & -> & Hd & Ht).
  rewrite app_length. cbn [List.length]. rewrite (date_value_length _ _ Hd), (time_value_length _ _ _ _ _ Ht).
  destruct utc; reflexivity.
Qed.
