(* Proofs for Model/TzCache.v (C12, cache clauses). *)
Require Import Lib.Base Model.TzCache Proofs.TzRulesProofs.
From Coq Require Import List Bool Lia.
Import ListNotations.

Section CacheProofs.
  Variable zone defn : Type.
  Variable P : provider zone.
  Variable windows : list N -> option (list N).

  Notation cache_get := (cache_get defn).
  Notation cache_component := (cache_component zone defn P).
  Notation run := (run zone defn P windows).
  Notation run_cals := (run_cals zone defn P windows).
  Notation first_def := (first_def zone defn P).
  Notation timezone := (timezone zone defn P windows).
  Notation provider_chain := (provider_chain zone P windows).
  Notation cacheable := (cacheable zone P).

  Lemma cache_get_app : forall c k' d k,
    cache_get (c ++ [(k', d)]) k =
    match cache_get c k with Some x => Some x | None => if str_eqb k' k then Some d else None end.
  Proof.
    induction c as [|[k0 d0] c IH]; intros k' d k; simpl; [destruct (str_eqb k' k); auto|].
    destruct (str_eqb k0 k); auto.
  Qed.

  (* the cache after any history = the first cacheable definition of each key *)
  Lemma cache_after_get : forall evs c k,
    cache_get (fst (run c evs)) k =
    match cache_get c k with Some x => Some x | None => first_def evs k end.
  Proof.
    induction evs as [|e evs IH]; intros c k; simpl.
    - destruct (cache_get c k); auto.
    - destruct e as [id d|id]; simpl; [|apply IH].
      rewrite IH. unfold TzCache.cache_component.
      destruct (cacheable id) eqn:Ec; simpl; [|reflexivity].
      destruct (cache_get c (clean_id id)) as [x|] eqn:Eg.
      + destruct (cache_get c k) eqn:Ek; auto.
        destruct (str_eqb (clean_id id) k) eqn:Es; auto.
        apply str_eqb_eq in Es. congruence.
      + rewrite cache_get_app. destruct (cache_get c k); auto.
        destruct (str_eqb (clean_id id) k); auto.
  Qed.

  Lemma run_app : forall a b c,
    run c (a ++ b) = (fst (run (fst (run c a)) b), snd (run c a) ++ snd (run (fst (run c a)) b)).
  Proof.
    induction a as [|e a IH]; intros b c; simpl.
    - destruct (run c b); auto.
    - destruct e as [id d|id]; simpl; [apply IH|].
      rewrite IH. reflexivity.
  Qed.

  Lemma run_cals_concat : forall cals c,
    fst (run_cals c cals) = fst (run c (concat cals)) /\
    concat (snd (run_cals c cals)) = snd (run c (concat cals)).
  Proof.
    induction cals as [|x r IH]; intros c; simpl; auto.
    rewrite run_app. simpl. destruct (IH (fst (run c x))) as [H1 H2]. rewrite H1, H2. auto.
  Qed.

  Lemma first_def_app : forall a b k,
    first_def (a ++ b) k = match first_def a k with Some d => Some d | None => first_def b k end.
  Proof.
    induction a as [|e a IH]; intros b k; simpl; auto.
    destruct e as [id d|id]; auto. destruct (cacheable id && str_eqb (clean_id id) k); auto.
  Qed.

  (* the value a date-time with TZID=id gets when it follows the history [hist]
     (all events of the calendars parsed before, then the part of its own calendar above it) *)
  Definition resolve (hist : list (ev defn)) (id : list N) : option (tzres zone defn) :=
    timezone (fst (run [] hist)) id.

  Lemma resolve_is_run : forall hist id rest,
    snd (run [] (hist ++ Use id :: rest)) =
    snd (run [] hist) ++ resolve hist id :: snd (run (fst (run [] hist)) rest).
  Proof. intros. rewrite run_app. reflexivity. Qed.

  Theorem resolution : forall hist id,
    resolve hist id =
    match provider_chain id with
    | Some z => Some (RProv z)
    | None => option_map RCustom (first_def hist (clean_id id))
    end.
  Proof.
    intros hist id. unfold resolve, TzCache.timezone.
    destruct (provider_chain id); auto. rewrite cache_after_get. reflexivity.
  Qed.

  Theorem resolves_own_iff : forall hist id d,
    resolve hist id = Some (RCustom d) <->
    provider_chain id = None /\ first_def hist (clean_id id) = Some d.
  Proof.
    intros hist id d. rewrite resolution. destruct (provider_chain id) as [z|].
    - split; [discriminate|intros [H _]; discriminate].
    - destruct (first_def hist (clean_id id)) as [d'|]; simpl; split.
      + intros H; inversion H; auto.
      + intros [_ H]; inversion H; auto.
      + discriminate.
      + intros [_ H]; discriminate.
  Qed.

  (* the good case: the definition stands above the use, the provider does not know the id, and
     nothing parsed earlier in the process defined it *)
  Theorem own_definition : forall earlier pre mid id d id',
    clean_id id' = clean_id id -> cacheable id = true -> provider_chain id' = None ->
    first_def (earlier ++ pre) (clean_id id) = None ->
    resolve (earlier ++ pre ++ Def id d :: mid) id' = Some (RCustom d).
  Proof.
    intros earlier pre mid id d id' Hc Hk Hp Hnone. apply resolves_own_iff. split; auto.
    rewrite Hc. rewrite app_assoc, first_def_app, Hnone. simpl. rewrite Hk, str_eqb_refl. reflexivity.
  Qed.

  (* a definition parsed earlier in the process wins over the calendar's own *)
  Theorem earlier_wins : forall earlier own id d0,
    provider_chain id = None -> first_def earlier (clean_id id) = Some d0 ->
    resolve (earlier ++ own) id = Some (RCustom d0).
  Proof.
    intros earlier own id d0 Hp H. apply resolves_own_iff. split; auto.
    rewrite first_def_app, H. reflexivity.
  Qed.

  (* no definition above the use: floating time *)
  Theorem undefined_floats : forall hist id,
    provider_chain id = None -> first_def hist (clean_id id) = None -> resolve hist id = None.
  Proof. intros hist id Hp H. rewrite resolution, Hp, H. reflexivity. Qed.

  (* an id the provider resolves never reaches the calendar's own definition *)
  Theorem provider_wins : forall hist id z, provider_chain id = Some z -> resolve hist id = Some (RProv z).
  Proof. intros hist id z Hp. rewrite resolution, Hp. reflexivity. Qed.
End CacheProofs.

(* ------------------------------------------------------------------ witnesses of the two defects *)
Definition P0 : provider Z := mkProvider Z (fun _ => false) (fun _ => None).
Definition W0 : list N -> option (list N) := fun _ => None.
Definition idZ : list N := s2l "Custom/Z".

(* calendar 1 defines Custom/Z as definition 1 and uses it; calendar 2 defines it as 2 and uses it *)
Lemma cache_redefine : 
  snd (run_cals Z Z P0 W0 [] [[Def idZ 1%Z; Use idZ]; [Def idZ 2%Z; Use idZ]])
  = [[Some (RCustom 1%Z)]; [Some (RCustom 1%Z)]].
Proof. vm_compute. reflexivity. Qed.

(* the VTIMEZONE stands below its first use: floating on the first parse, zoned on the second *)
Lemma cache_late :
  snd (run_cals Z Z P0 W0 [] [[Use idZ; Def idZ 3%Z]; [Use idZ; Def idZ 3%Z]])
  = [[None]; [Some (RCustom 3%Z)]].
Proof. vm_compute. reflexivity. Qed.
