(* vDDDTypes.from_ical picks the right decoder for every grammar-valid text; vPeriod round trips. *)
Require Import Lib.Base Model.Params Model.CodecBase Model.CodecDate Model.CodecDur
        Proofs.CodecBaseProofs Proofs.CodecDateProofs Proofs.CodecDurProofs.
From Coq Require Import ZArith List Bool Lia ZifyBool.
Local Open Scope Z_scope.

(* ---------------------------------------------------------------- characters of grammar-valid durations *)
Section Chars.
  Variable P : N -> bool.
  Hypothesis Pdigit : forall c, is_digit c = true -> P c = true.

  Lemma all_P_digits ds : forallb is_digit ds = true -> forallb P ds = true.
  Proof.
    induction ds as [|c r IH]; simpl; auto. intros H. apply andb_true_iff in H as [Hc Hr].
    now rewrite (Pdigit _ Hc), IH.
  Qed.

  Lemma og_chars c s ds r : opt_group c s = (Some ds, r) -> P c = true -> forallb P s = forallb P r.
  Proof.
    intros H Hc. destruct (og_some_inv _ _ _ _ H) as (-> & _ & Hd).
    rewrite forallb_app. cbn [forallb]. now rewrite (all_P_digits _ Hd), Hc.
  Qed.

  Lemma p_num_chars c s n r : p_num c s = Some (n, r) -> P c = true -> forallb P s = forallb P r.
  Proof.
    unfold p_num. destruct (opt_group c s) as [[ds|] r'] eqn:E; [|discriminate].
    intros H Hc. injection H as _ <-. exact (og_chars _ _ _ _ E Hc).
  Qed.

  Hypothesis PH : P 72 = true.
  Hypothesis PM : P 77 = true.
  Hypothesis PS : P 83 = true.
  Hypothesis PT : P 84 = true.
  Hypothesis PD : P 68 = true.
  Hypothesis PW : P 87 = true.

  Lemma p_second_chars s v r : p_second s = Some (v, r) -> forallb P s = forallb P r.
  Proof. intros H. exact (p_num_chars _ _ _ _ H PS). Qed.

  Lemma p_minute_chars s v r : p_minute s = Some (v, r) -> forallb P s = forallb P r.
  Proof.
    unfold p_minute. destruct (p_num 77 s) as [[n r0]|] eqn:E; [|discriminate].
    rewrite (p_num_chars _ _ _ _ E PM).
    destruct (p_second r0) as [[k r1]|] eqn:E2; intros H; injection H as _ <-; [|reflexivity].
    exact (p_second_chars _ _ _ E2).
  Qed.

  Lemma p_hour_chars s v r : p_hour s = Some (v, r) -> forallb P s = forallb P r.
  Proof.
    unfold p_hour. destruct (p_num 72 s) as [[n r0]|] eqn:E; [|discriminate].
    rewrite (p_num_chars _ _ _ _ E PH).
    destruct (p_minute r0) as [[k r1]|] eqn:E2; intros H; injection H as _ <-; [|reflexivity].
    exact (p_minute_chars _ _ _ E2).
  Qed.

  Lemma p_time_chars s v r : p_time s = Some (v, r) -> forallb P s = forallb P r.
  Proof.
    unfold p_time. destruct s as [|c s']; [discriminate|].
    destruct (c =? 84)%N eqn:Ec; [|discriminate]. apply N.eqb_eq in Ec. subst c.
    cbn [forallb]. rewrite PT. cbn [andb].
    destruct (p_hour s') as [[k r1]|] eqn:E1.
    - intros H. injection H as _ <-. exact (p_hour_chars _ _ _ E1).
    - destruct (p_minute s') as [[k r1]|] eqn:E2.
      + intros H. injection H as _ <-. exact (p_minute_chars _ _ _ E2).
      + intros H. exact (p_second_chars _ _ _ H).
  Qed.

  Lemma p_date_chars s v r : p_date s = Some (v, r) -> forallb P s = forallb P r.
  Proof.
    unfold p_date. destruct (p_num 68 s) as [[n r0]|] eqn:E; [|discriminate].
    rewrite (p_num_chars _ _ _ _ E PD).
    destruct (p_time r0) as [[k r1]|] eqn:E2; intros H; injection H as _ <-; [|reflexivity].
    exact (p_time_chars _ _ _ E2).
  Qed.

  Lemma p_week_chars s v r : p_week s = Some (v, r) -> forallb P s = forallb P r.
  Proof.
    unfold p_week. destruct (p_num 87 s) as [[n r0]|] eqn:E; [|discriminate].
    intros H. injection H as _ <-. exact (p_num_chars _ _ _ _ E PW).
  Qed.

  Hypothesis PP : P 80 = true.
  Hypothesis Pplus : P 43 = true.
  Hypothesis Pminus : P 45 = true.

  Lemma dur_value_chars t v : dur_value t = Some v -> forallb P t = true.
  Proof.
    unfold dur_value.
    assert (Hbody : forall r1, match (match p_date r1 with Some x => Some x
                                      | None => match p_time r1 with Some x => Some x | None => p_week r1 end end) with
                               | Some (v0, []) => true | _ => false end = true -> forallb P r1 = true).
    { intros r1. destruct (p_date r1) as [[v0 r]|] eqn:E1.
      - destruct r; [|discriminate]. intros _. now rewrite (p_date_chars _ _ _ E1).
      - destruct (p_time r1) as [[v0 r]|] eqn:E2.
        + destruct r; [|discriminate]. intros _. now rewrite (p_time_chars _ _ _ E2).
        + destruct (p_week r1) as [[v0 r]|] eqn:E3; [|discriminate].
          destruct r; [|discriminate]. intros _. now rewrite (p_week_chars _ _ _ E3). }
    assert (Hrest : forall r0 (neg : bool),
              match r0 with
              | p :: r1 => if (p =? 80)%N then
                  match (match p_date r1 with Some x => Some x
                         | None => match p_time r1 with Some x => Some x | None => p_week r1 end end) with
                  | Some (v0, []) => Some (if neg then - v0 else v0) | _ => None end else None
              | [] => None end = Some v -> forallb P r0 = true).
    { intros r0 neg. destruct r0 as [|p r1]; [discriminate|].
      destruct (p =? 80)%N eqn:Ep; [|discriminate]. apply N.eqb_eq in Ep. subst p.
      intros H. cbn [forallb]. rewrite PP. apply Hbody.
      destruct (match p_date r1 with Some x => Some x
                | None => match p_time r1 with Some x => Some x | None => p_week r1 end end) as [[v0 [|]]|];
        try discriminate. reflexivity. }
    destruct t as [|c r]; [discriminate|].
    destruct (c =? 45)%N eqn:E45.
    - apply N.eqb_eq in E45. subst c. intros H. cbn [forallb]. rewrite Pminus. exact (Hrest r true H).
    - destruct (c =? 43)%N eqn:E43.
      + apply N.eqb_eq in E43. subst c. intros H. cbn [forallb]. rewrite Pplus. exact (Hrest r false H).
      + intros H. exact (Hrest (c :: r) false H).
  Qed.
End Chars.

Lemma dur_value_ascii t v : dur_value t = Some v -> all_ascii t = true.
Proof.
  intros H. unfold all_ascii.
  apply (dur_value_chars (fun c => (c <? 128)%N) digit_ascii) with (v := v); auto.
Qed.

Lemma mem_chr_forallb c t : mem_chr c t = negb (forallb (fun x => negb (c =? x)%N) t).
Proof.
  induction t as [|x r IH]; simpl; auto. rewrite IH. destruct (c =? x)%N; reflexivity.
Qed.

Lemma dur_value_noslash t v : dur_value t = Some v -> mem_chr 47 t = false.
Proof.
  intros H. rewrite mem_chr_forallb.
  rewrite (dur_value_chars (fun x => negb (47 =? x)%N)) with (v := v); auto.
  intros c Hc. apply is_digit_range in Hc. lia.
Qed.

(* the ASCII hypothesis of dur_grammar_dec is implied by the grammar *)
Lemma dur_grammar_dec' t v : dur_value t = Some v ->
  (List.length t <=? 4300)%nat && td_ok v = true -> dec_dur t = Ok v.
Proof. intros H G. exact (dur_grammar_dec t v H (dur_value_ascii t v H) G). Qed.

Lemma dur_value_startsP t v : dur_value t = Some v -> starts_P (upper t) = true.
Proof.
  unfold dur_value. destruct t as [|c r]; [discriminate|].
  destruct (c =? 45)%N eqn:E45.
  - apply N.eqb_eq in E45. subst c. destruct r as [|p r1]; [discriminate|].
    destruct (p =? 80)%N eqn:Ep; [|discriminate]. apply N.eqb_eq in Ep. subst p. reflexivity.
  - destruct (c =? 43)%N eqn:E43.
    + apply N.eqb_eq in E43. subst c. destruct r as [|p r1]; [discriminate|].
      destruct (p =? 80)%N eqn:Ep; [|discriminate]. apply N.eqb_eq in Ep. subst p. reflexivity.
    + destruct (c =? 80)%N eqn:Ep; [|discriminate]. apply N.eqb_eq in Ep. subst c. reflexivity.
Qed.

(* ---------------------------------------------------------------- the combined decoder *)
Definition wrap_date (r : res (Z * Z * Z)) : res ddd := bind r (fun v => let '(y, m, d) := v in Ok (DDate y m d)).
Definition wrap_time (r : res (Z * Z * Z * bool)) : res ddd :=
  bind r (fun v => let '(h, m, s, u) := v in Ok (DTime h m s u)).
Definition wrap_datetime (r : res dt) : res ddd := bind r (fun v => Ok (DDatetime v)).
Definition wrap_dur (r : res Z) : res ddd := bind r (fun s => Ok (DDur s)).

Lemma upper_digit_head c r : is_digit c = true -> starts_P (upper (c :: r)) = false.
Proof.
  intros Hc. apply is_digit_range in Hc. unfold starts_P, upper. cbn [map is_prefix].
  unfold upper_chr, is_lower. replace ((97 <=? c)%N && (c <=? 122)%N) with false by lia.
  replace (80 =? c)%N with false by lia. replace (45 =? c)%N with false by lia. replace (43 =? c)%N with false by lia.
  reflexivity.
Qed.

Lemma not_slash_digit c : is_digit c = true -> (47 =? c)%N = false.
Proof. intros Hc. apply is_digit_range in Hc. lia. Qed.

Ltac ascii_list :=
  repeat (apply all_ascii_cons; [first [assumption | apply digit_ascii; assumption | reflexivity] |]);
  first [assumption | reflexivity].

Ltac noslash :=
  cbn [mem_chr app];
  repeat match goal with H : is_digit ?c = true |- _ => rewrite (not_slash_digit c H) end;
  cbn [orb N.eqb Pos.eqb]; try reflexivity.

Lemma date_value_shape t v : date_value t = Some v ->
  all_ascii t = true /\ starts_P (upper t) = false /\ mem_chr 47 t = false /\ List.length t = 8%nat.
Proof.
  destruct v as [[y m] d]. intros H.
  destruct (date_value_inv _ _ _ _ H) as (a & b & c & d0 & e & f & g & h & -> & ? & ? & ? & ? & ? & ? & ? & ? & _).
  split; [ascii_list|]. split; [now apply upper_digit_head|]. split; [noslash|reflexivity].
Qed.

Lemma time_value_shape t h m s utc : time_value t = Some (h, m, s, utc) ->
  all_ascii t = true /\ starts_P (upper t) = false /\ mem_chr 47 t = false
  /\ List.length t = (if utc then 7 else 6)%nat.
Proof.
  intros H. destruct (time_value_inv _ _ _ _ _ H) as (a & b & c & d & e & f & -> & ? & ? & ? & ? & ? & ? & _).
  cbn [app]. split; [destruct utc; ascii_list|]. split; [now apply upper_digit_head|].
  split; [destruct utc; noslash | destruct utc; reflexivity].
Qed.

Lemma datetime_value_shape t y m d h mi s utc : datetime_value t = Some (y, m, d, h, mi, s, utc) ->
  all_ascii t = true /\ starts_P (upper t) = false /\ mem_chr 47 t = false
  /\ List.length t = (if utc then 16 else 15)%nat.
Proof.
  intros H. destruct (datetime_value_inv _ _ _ _ _ _ _ _ H) as (dp & tp & -> & Hd & Ht).
  destruct (date_value_inv _ _ _ _ Hd) as (a & b & c & d0 & e & f & g & h0 & -> & ? & ? & ? & ? & ? & ? & ? & ? & _).
  destruct (time_value_inv _ _ _ _ _ Ht) as (i & j & k & l & p & q & -> & ? & ? & ? & ? & ? & ? & _).
  cbn [app]. split; [destruct utc; ascii_list|]. split; [now apply upper_digit_head|].
  split; [destruct utc; noslash | destruct utc; reflexivity].
Qed.

Lemma ddd_simple_eq t : mem_chr 47 t = false -> ddd_from_ical t = ddd_simple t.
Proof.
  intros Hs. unfold ddd_from_ical, ddd_simple. destruct (negb (all_ascii t)); [reflexivity|].
  destruct (starts_P (upper t)); [reflexivity|]. now rewrite Hs.
Qed.

Lemma ddd_simple_date t v : date_value t = Some v -> ddd_simple t = wrap_date (dec_date t).
Proof.
  intros H. destruct (date_value_shape t v H) as (Ha & Hp & _ & Hl).
  unfold ddd_simple. rewrite Ha, Hp, Hl. reflexivity.
Qed.

Lemma ddd_simple_time t h m s utc : time_value t = Some (h, m, s, utc) -> ddd_simple t = wrap_time (dec_time t).
Proof.
  intros H. destruct (time_value_shape _ _ _ _ _ H) as (Ha & Hp & _ & Hl).
  unfold ddd_simple. rewrite Ha, Hp, Hl. destruct utc; reflexivity.
Qed.

Lemma ddd_simple_datetime t v : datetime_value t = Some v -> ddd_simple t = wrap_datetime (dec_datetime t).
Proof.
  destruct v as [[[[[[y m] d] h] mi] s] utc]. intros H.
  destruct (datetime_value_shape _ _ _ _ _ _ _ _ H) as (Ha & Hp & _ & Hl).
  unfold ddd_simple. rewrite Ha, Hp, Hl. destruct utc; reflexivity.
Qed.

Lemma ddd_simple_dur t v : dur_value t = Some v -> ddd_simple t = wrap_dur (dec_dur t).
Proof.
  intros H. unfold ddd_simple. rewrite (dur_value_ascii t v H), (dur_value_startsP t v H). reflexivity.
Qed.

(* for a grammar-valid text of each type the combined decoder is that type's decoder *)
Lemma ddd_dispatch_date t v : date_value t = Some v -> ddd_from_ical t = wrap_date (dec_date t).
Proof.
  intros H. destruct (date_value_shape t v H) as (_ & _ & Hs & _).
  rewrite (ddd_simple_eq t Hs). exact (ddd_simple_date t v H).
Qed.

Lemma ddd_dispatch_time t v : time_value t = Some v -> ddd_from_ical t = wrap_time (dec_time t).
Proof.
  destruct v as [[[h m] s] utc]. intros H. destruct (time_value_shape _ _ _ _ _ H) as (_ & _ & Hs & _).
  rewrite (ddd_simple_eq t Hs). exact (ddd_simple_time _ _ _ _ _ H).
Qed.

Lemma ddd_dispatch_datetime t v : datetime_value t = Some v -> ddd_from_ical t = wrap_datetime (dec_datetime t).
Proof.
  intros H. pose proof H as H'. destruct v as [[[[[[y m] d] h] mi] s] utc].
  destruct (datetime_value_shape _ _ _ _ _ _ _ _ H) as (_ & _ & Hs & _).
  rewrite (ddd_simple_eq t Hs). exact (ddd_simple_datetime _ _ H').
Qed.

Lemma ddd_dispatch_dur t v : dur_value t = Some v -> ddd_from_ical t = wrap_dur (dec_dur t).
Proof.
  intros H. rewrite (ddd_simple_eq t (dur_value_noslash t v H)). exact (ddd_simple_dur t v H).
Qed.

(* ---------------------------------------------------------------- PERIOD *)
Lemma split_slash_noslash y : forall cur, mem_chr 47 y = false -> split_slash y cur = [rev cur ++ y].
Proof.
  induction y as [|c r IH]; intros cur H.
  - simpl. now rewrite app_nil_r.
  - cbn [mem_chr] in H. apply orb_false_iff in H as [Hc Hr]. cbn [split_slash].
    rewrite N.eqb_sym, Hc. rewrite IH by auto. cbn [rev]. now rewrite <- app_assoc.
Qed.

Lemma split_slash_app x y : forall cur, mem_chr 47 x = false -> mem_chr 47 y = false ->
  split_slash (x ++ 47%N :: y) cur = [rev cur ++ x; y].
Proof.
  induction x as [|c r IH]; intros cur Hx Hy.
  - cbn [app split_slash N.eqb Pos.eqb]. rewrite split_slash_noslash by auto. now rewrite app_nil_r.
  - cbn [mem_chr] in Hx. apply orb_false_iff in Hx as [Hc Hr]. cbn [app split_slash].
    rewrite N.eqb_sym, Hc. rewrite IH by auto. cbn [rev]. now rewrite <- app_assoc.
Qed.

Lemma mem_chr_app c a b : mem_chr c (a ++ b) = mem_chr c a || mem_chr c b.
Proof. induction a as [|x r IH]; simpl; auto. rewrite IH. apply orb_assoc. Qed.

Lemma dec_period_parts x y : all_ascii x = true -> all_ascii y = true ->
  mem_chr 47 x = false -> mem_chr 47 y = false ->
  dec_period (x ++ 47%N :: y) =
  to_value_err (bind (ddd_simple x) (fun a => bind (ddd_simple y) (fun b => Ok (DPeriod a b)))).
Proof.
  intros Hx Hy Sx Sy. unfold dec_period.
  assert (Ha : all_ascii (x ++ 47%N :: y) = true).
  { rewrite all_ascii_app, Hx. unfold all_ascii in *. cbn [forallb]. now rewrite Hy. }
  rewrite Ha. cbn [negb]. rewrite split_slash_app by auto. reflexivity.
Qed.

Lemma ddd_period_eq x y : is_digit (hd 0%N x) = true -> x <> [] ->
  ddd_from_ical (x ++ 47%N :: y) = dec_period (x ++ 47%N :: y).
Proof.
  intros Hd Hne. destruct x as [|c r]; [congruence|]. cbn [hd] in Hd.
  unfold ddd_from_ical. destruct (negb (all_ascii ((c :: r) ++ 47%N :: y))) eqn:Ea.
  - unfold dec_period. now rewrite Ea.
  - cbn [app]. rewrite (upper_digit_head c _ Hd).
    change (c :: r ++ 47%N :: y) with ((c :: r) ++ 47%N :: y). rewrite mem_chr_app. cbn [mem_chr N.eqb Pos.eqb].
    now rewrite orb_true_r.
Qed.

Lemma datetime_value_head t v : datetime_value t = Some v -> is_digit (hd 0%N t) = true /\ t <> [].
Proof.
  destruct v as [[[[[[y m] d] h] mi] s] utc]. intros H.
  destruct (datetime_value_inv _ _ _ _ _ _ _ _ H) as (dp & tp & -> & Hd & Ht).
  destruct (date_value_inv _ _ _ _ Hd) as (a & b & c & d0 & e & f & g & h0 & -> & Ha & _).
  split; [exact Ha|discriminate].
Qed.

(* explicit form: both ends valid datetimes of the same kind, start <= end *)
Lemma period_explicit_rt a b t : enc_period_explicit a b = Ok t ->
  dec_period t = Ok (DPeriod (DDatetime a) (DDatetime b))
  /\ ddd_from_ical t = Ok (DPeriod (DDatetime a) (DDatetime b))
  /\ period_value t = Some (DPeriod (DDatetime a) (DDatetime b)).
Proof.
  unfold enc_period_explicit.
  destruct (negb (dt_valid a && dt_valid b && Bool.eqb (dt_utc a) (dt_utc b))) eqn:G; [discriminate|].
  destruct (dt_secs b <? dt_secs a); [discriminate|].
  apply negb_false_iff in G. apply andb_true_iff in G as [G _]. apply andb_true_iff in G as [Va Vb].
  destruct a as [[[[[[y m] d] h] mi] s] u]. destruct b as [[[[[[y' m'] d'] h'] mi'] s'] u'].
  cbn [dt_valid] in Va, Vb. apply andb_true_iff in Va as [Va1 Va2]. apply andb_true_iff in Vb as [Vb1 Vb2].
  destruct (datetime_rt y m d h mi s u Va1 Va2) as (x & Ex & Dx & Gx).
  destruct (datetime_rt y' m' d' h' mi' s' u' Vb1 Vb2) as (z & Ez & Dz & Gz).
  rewrite Ex, Ez. cbn [bind]. intros H. injection H as <-.
  destruct (datetime_value_shape _ _ _ _ _ _ _ _ Gx) as (Ax & _ & Sx & _).
  destruct (datetime_value_shape _ _ _ _ _ _ _ _ Gz) as (Az & _ & Sz & _).
  assert (Hdec : dec_period (x ++ 47%N :: z) = Ok (DPeriod (DDatetime (y, m, d, h, mi, s, u)) (DDatetime (y', m', d', h', mi', s', u')))).
  { rewrite dec_period_parts by auto. rewrite (ddd_simple_datetime _ _ Gx), (ddd_simple_datetime _ _ Gz), Dx, Dz. reflexivity. }
  split; [exact Hdec|]. split.
  - destruct (datetime_value_head _ _ Gx) as (Hh & Hn). rewrite ddd_period_eq by auto. exact Hdec.
  - unfold period_value. rewrite split_slash_app by auto. cbn [rev app]. now rewrite Gx, Gz.
Qed.

(* start + duration form: the duration is written as a dur-value *)
Lemma period_dur_rt a s t : enc_period_dur a s = Ok t ->
  dec_period t = Ok (DPeriod (DDatetime a) (DDur s))
  /\ ddd_from_ical t = Ok (DPeriod (DDatetime a) (DDur s))
  /\ period_value t = Some (DPeriod (DDatetime a) (DDur s)).
Proof.
  unfold enc_period_dur.
  destruct (negb (dt_valid a && td_ok s)) eqn:G; [discriminate|].
  destruct ((dt_secs a + s <? 0) || (max_ordinal * 86400 <=? dt_secs a + s)); [discriminate|].
  destruct (s <? 0); [discriminate|].
  apply negb_false_iff in G. apply andb_true_iff in G as [Va Vs].
  destruct a as [[[[[[y m] d] h] mi] s0] u].
  cbn [dt_valid] in Va. apply andb_true_iff in Va as [Va1 Va2].
  destruct (datetime_rt y m d h mi s0 u Va1 Va2) as (x & Ex & Dx & Gx).
  destruct (dur_rt s Vs) as (z & Ez & Dz & Gz).
  rewrite Ex, Ez. cbn [bind]. intros H. injection H as <-.
  destruct (datetime_value_shape _ _ _ _ _ _ _ _ Gx) as (Ax & _ & Sx & _).
  pose proof (dur_value_ascii _ _ Gz) as Az. pose proof (dur_value_noslash _ _ Gz) as Sz.
  assert (Hdec : dec_period (x ++ 47%N :: z) = Ok (DPeriod (DDatetime (y, m, d, h, mi, s0, u)) (DDur s))).
  { rewrite dec_period_parts by auto. rewrite (ddd_simple_datetime _ _ Gx), (ddd_simple_dur _ _ Gz), Dx, Dz. reflexivity. }
  split; [exact Hdec|]. split.
  - destruct (datetime_value_head _ _ Gx) as (Hh & Hn). rewrite ddd_period_eq by auto. exact Hdec.
  - unfold period_value. rewrite split_slash_app by auto. cbn [rev app]. rewrite Gx.
    destruct (datetime_value z) as [w|] eqn:Ew; [|now rewrite Gz].
    exfalso. destruct (datetime_value_head _ _ Ew) as (Hh & Hn). pose proof (dur_value_startsP _ _ Gz) as Hp.
    destruct z as [|c r]; [congruence|]. cbn [hd] in Hh. rewrite (upper_digit_head c r Hh) in Hp. discriminate.
Qed.

Lemma dur_grammar_dec_full' t v : dur_value t = Some v -> (List.length t <= 4300)%nat ->
  dec_dur t = if (td_max <? Z.abs v) || (v <? td_min) then Escape s_overflow else Ok v.
Proof. intros H Hl. exact (dur_grammar_dec_full t v H (dur_value_ascii t v H) Hl). Qed.
