(* C07: the certificates for the TEXT codec paths and the theorems they give. *)
Require Import Lib.Base Lib.Chain Gen.Gen_parser Model.Text Proofs.ChainProofs.


Lemma direct_cert_ok : check direct_chain norm_chain forb_direct direct_crit direct_cert = true.
Proof. vm_compute. reflexivity. Qed.

Lemma line_cert_ok : check line_chain norm_chain forb_line line_crit line_cert = true.
Proof. vm_compute. reflexivity. Qed.

Lemma text_direct s : direct_safe s = true -> unescape_char (escape_char s) = norm s.
Proof.
  intros H. unfold unescape_char, escape_char, norm. rewrite <- seq_run_app.
  exact (bisim_sound _ _ _ _ _ direct_cert_ok s H).
Qed.

Lemma text_line s : line_safe s = true -> text_via_line s = norm s.
Proof.
  intros H. unfold text_via_line, line_value_path, unescape_char, unescape_string, escape_string, escape_char, norm.
  rewrite <- !seq_run_app. rewrite <- ?app_assoc.
  exact (bisim_sound _ _ _ _ _ line_cert_ok s H).
Qed.

(* refutations outside the guards: the explorer's own counterexample words *)
Lemma text_direct_refuted : exists s, unescape_char (escape_char s) <> norm s.
Proof. exists [92; 110]. vm_compute. discriminate. Qed.

Lemma text_line_refuted : exists s, direct_safe s = true /\ text_via_line s <> norm s.
Proof. exists [92; 44]. split; [reflexivity|vm_compute; discriminate]. Qed.

Lemma categories_refuted : exists items, line_safe (concat items) = true /\
  categories_via_line items <> map norm items.
Proof. exists [[97; 44; 98]]. split; [reflexivity|vm_compute; discriminate]. Qed.

(* ------------------------------------------------------------------ the encoded form is well escaped *)
Require Import Proofs.ReplaceProofs.
From Coq Require Import Lia.

Lemma esc_cert_ok : check escape_char_chain esc_spec_chain [] esc_crit esc_cert = true.
Proof. vm_compute. reflexivity. Qed.

Lemma escape_char_spec s : escape_char s = seq_run percharchain (norm s).
Proof.
  unfold escape_char, norm. rewrite <- seq_run_app.
  exact (bisim_sound _ _ _ _ _ esc_cert_ok s eq_refl).
Qed.

(* replacing a one-character pattern is a character map *)
Lemma py_replace_single c rep : forall s,
  py_replace_aux [c] rep 0 s = flat_map (fun x => if x =? c then rep else [x]) s.
Proof.
  induction s as [|x s IH]; [reflexivity|]. cbn [py_replace_aux flat_map is_prefix length Nat.sub].
  rewrite andb_true_r, (N.eqb_sym c x). destruct (x =? c); rewrite IH; reflexivity.
Qed.

Lemma flat_map_compose {A B C} (f : A -> list B) (g : B -> list C) : forall s,
  flat_map g (flat_map f s) = flat_map (fun x => flat_map g (f x)) s.
Proof. induction s as [|x s IH]; [reflexivity|]. cbn [flat_map]. rewrite flat_map_app, IH. reflexivity. Qed.

Lemma perchar_map s : seq_run percharchain s = flat_map esc_map s.
Proof.
  unfold percharchain, seq_run. cbn [fold_left].
  rewrite !stage_run_py_replace by discriminate. unfold py_replace. rewrite !py_replace_single.
  rewrite !flat_map_compose. apply flat_map_ext. intros c. unfold esc_map.
  destruct (c =? 92) eqn:E92; [cbn [flat_map app N.eqb Pos.eqb]; reflexivity|].
  cbn [flat_map app]. rewrite ?app_nil_r.
  destruct (c =? 59) eqn:E59; [cbn [flat_map app N.eqb Pos.eqb]; reflexivity|].
  cbn [flat_map app]. rewrite ?app_nil_r.
  destruct (c =? 44) eqn:E44; [cbn [flat_map app N.eqb Pos.eqb]; reflexivity|].
  cbn [flat_map app]. rewrite ?app_nil_r.
  destruct (c =? 10) eqn:E10; reflexivity.
Qed.

Lemma well_escaped_map : forall s, well_escaped_from false (flat_map esc_map s) = true.
Proof.
  induction s as [|c s IH]; [reflexivity|]. cbn [flat_map]. unfold esc_map at 1.
  destruct (c =? 92) eqn:E92; [cbn [app well_escaped_from N.eqb Pos.eqb]; exact IH|].
  destruct (c =? 59) eqn:E59; [cbn [app well_escaped_from N.eqb Pos.eqb]; exact IH|].
  destruct (c =? 44) eqn:E44; [cbn [app well_escaped_from N.eqb Pos.eqb]; exact IH|].
  destruct (c =? 10) eqn:E10; [cbn [app well_escaped_from N.eqb Pos.eqb]; exact IH|].
  cbn [app well_escaped_from]. rewrite E92, E10, E59, E44. cbn [orb]. exact IH.
Qed.

(* C07: for EVERY string, the encoded form has no raw line feed, and no semicolon or comma that is not escaped *)
Theorem escape_char_well_escaped s : well_escaped (escape_char s) = true.
Proof. unfold well_escaped. rewrite escape_char_spec, perchar_map. apply well_escaped_map. Qed.

(* in particular no raw LF at all (a backslash is never followed by LF in the image of esc_map) *)
Theorem escape_char_no_lf s : mem_chr 10 (escape_char s) = false.
Proof.
  rewrite escape_char_spec, perchar_map. induction (norm s) as [|c r IH]; [reflexivity|].
  cbn [flat_map]. unfold esc_map at 1.
  destruct (c =? 92) eqn:E92; [cbn; exact IH|]. destruct (c =? 59) eqn:E59; [cbn; exact IH|].
  destruct (c =? 44) eqn:E44; [cbn; exact IH|]. destruct (c =? 10) eqn:E10; [cbn; exact IH|].
  cbn [app mem_chr]. rewrite N.eqb_sym, E10. cbn [orb]. exact IH.
Qed.
