(* C07: the certificates for the TEXT codec paths and the theorems they give. *)
Require Import Lib.Base Lib.Chain Gen.Gen_parser Model.Text Proofs.ChainProofs.


Lemma direct_cert_ok : check direct_chain norm_chain forb_direct direct_crit direct_cert = true.
Proof. vm_compute. reflexivity. Qed.

Lemma line_cert_ok : check line_chain norm_chain forb_line line_crit line_cert = true.
Proof. vm_compute. reflexivity. Qed.

Lemma text_direct s : direct_safe s = true -> unescape_char (escape_char s) = norm s.
Proof.
  intros H. unfold unescape_char, escape_char, norm. rewrite <- seq_run_app.
  exact (bisim_sound _ _ _ _ _ direct_cert_ok s H).
Qed.

Lemma text_line s : line_safe s = true -> text_via_line s = norm s.
Proof.
  intros H. unfold text_via_line, line_value_path, unescape_char, unescape_string, escape_string, escape_char, norm.
  rewrite <- !seq_run_app. rewrite <- ?app_assoc.
  exact (bisim_sound _ _ _ _ _ line_cert_ok s H).
Qed.

(* refutations outside the guards: the explorer's own counterexample words *)
Lemma text_direct_refuted : exists s, unescape_char (escape_char s) <> norm s.
Proof. exists [92; 110]. vm_compute. discriminate. Qed.

Lemma text_line_refuted : exists s, direct_safe s = true /\ text_via_line s <> norm s.
Proof. exists [92; 44]. split; [reflexivity|vm_compute; discriminate]. Qed.

Lemma categories_refuted : exists items, line_safe (concat items) = true /\
  categories_via_line items <> map norm items.
Proof. exists [[97; 44; 98]]. split; [reflexivity|vm_compute; discriminate]. Qed.
