(* Proofs for Model/TzOnsets.v (C12): day numbers, n-th weekday of a month, yearly onsets. *)
Require Import Lib.Base Model.Params Model.CodecBase Model.TzOnsets.
From Coq Require Import ZArith List Bool Lia ZifyBool Arith Sorting.Sorted.
Import ListNotations.
Open Scope Z_scope.
Ltac Zify.zify_post_hook ::= Z.to_euclidean_division_equations.

(* ================================================================== 1. day numbers *)
(* ------------------------------------------------------------------ one 400-year era *)
(* day of era from (year of era, month counted from March, day) and back: the two halves of
   days_from_civil / civil_from_days that do not depend on the era *)
Definition doe_of (yoe mp d : Z) : Z := yoe * 365 + yoe / 4 - yoe / 100 + (153 * mp + 2) / 5 + d - 1.
Definition doe_split (doe : Z) : Z * Z * Z :=
  let yoe := (doe - doe / 1460 + doe / 36524 - doe / 146096) / 365 in
  let doy := doe - (365 * yoe + yoe / 4 - yoe / 100) in
  let mp := (5 * doy + 2) / 153 in
  (yoe, mp, doy - (153 * mp + 2) / 5 + 1).

(* length of month mp (0 = March .. 11 = February) of the March-based year yoe of an era *)
Definition mp_len (yoe mp : Z) : Z :=
  if mp =? 11 then (if is_leap (yoe + 1) then 29 else 28)
  else if (mp =? 1) || (mp =? 3) || (mp =? 6) || (mp =? 8) then 30 else 31.

(* first day of era of the March-based year y *)
Definition year_start (y : Z) : Z := 365 * y + y / 4 - y / 100.
Definition leap_day (yoe : Z) : Z := if is_leap (yoe + 1) then 1 else 0.

Ltac leap_cases yoe :=
  unfold leap_day, is_leap in *;
  destruct ((yoe + 1) mod 4 =? 0) eqn:?A; destruct ((yoe + 1) mod 100 =? 0) eqn:?B;
  destruct ((yoe + 1) mod 400 =? 0) eqn:?C; cbn [negb andb orb] in *.

(* the year of era is recovered from every day of that year ... *)
Lemma yoe_recovered : forall yoe doe, 0 <= yoe < 400 ->
  year_start yoe <= doe <= year_start yoe + 364 + leap_day yoe ->
  (doe - doe / 1460 + doe / 36524 - doe / 146096) / 365 = yoe.
Proof. intros yoe doe H1 H2. unfold year_start in *. leap_cases yoe; lia. Qed.

(* ... and every day of the era lies in the year computed for it *)
Lemma yoe_of_day : forall doe yoe, 0 <= doe < 146097 ->
  yoe = (doe - doe / 1460 + doe / 36524 - doe / 146096) / 365 ->
  0 <= yoe < 400 /\ year_start yoe <= doe <= year_start yoe + 364 + leap_day yoe.
Proof. intros doe yoe H E. unfold year_start. leap_cases yoe; lia. Qed.

Lemma mp_cases : forall mp, 0 <= mp < 12 ->
  mp = 0 \/ mp = 1 \/ mp = 2 \/ mp = 3 \/ mp = 4 \/ mp = 5 \/ mp = 6 \/ mp = 7 \/ mp = 8 \/ mp = 9 \/ mp = 10 \/ mp = 11.
Proof. intros. lia. Qed.

Ltac mp_split H :=
  apply mp_cases in H;
  destruct H as [H|[H|[H|[H|[H|[H|[H|[H|[H|[H|[H|H]]]]]]]]]]]; subst.

Ltac small_arith :=
  cbn [Z.eqb Pos.eqb Z.leb Z.ltb Z.compare Pos.compare Pos.compare_cont orb andb Z.add Z.sub Z.opp Z.pos_sub
       Pos.add Pos.succ Pos.pred_double Pos.add_carry Z.double Z.succ_double Z.pred_double] in *.

(* day of (March-based) year <-> month and day *)
Lemma doy_of_month_day : forall yoe mp d, 0 <= mp < 12 -> 1 <= d <= mp_len yoe mp ->
  let doy := (153 * mp + 2) / 5 + d - 1 in
  0 <= doy <= 364 + leap_day yoe /\ (5 * doy + 2) / 153 = mp /\ doy - (153 * mp + 2) / 5 + 1 = d.
Proof.
  intros yoe mp d Hm Hd. cbv zeta. unfold mp_len, leap_day in *.
  mp_split Hm; small_arith; destruct (is_leap (yoe + 1)); lia.
Qed.

Lemma month_day_of_doy : forall yoe doy mp, 0 <= doy <= 364 + leap_day yoe -> mp = (5 * doy + 2) / 153 ->
  0 <= mp < 12 /\ 1 <= doy - (153 * mp + 2) / 5 + 1 <= mp_len yoe mp.
Proof.
  intros yoe doy mp Hd E.
  assert (Hm : 0 <= mp < 12) by (unfold leap_day in Hd; destruct (is_leap (yoe + 1)); lia).
  assert (E1 : 153 * mp <= 5 * doy + 2 < 153 * mp + 153) by lia. clear E.
  split; [exact Hm|]. unfold mp_len, leap_day in *.
  mp_split Hm; small_arith; destruct (is_leap (yoe + 1)); lia.
Qed.

(* every date of an era: its day of era is inside the era and splits back into the date *)
Lemma era_date : forall yoe mp d, 0 <= yoe < 400 -> 0 <= mp < 12 -> 1 <= d <= mp_len yoe mp ->
  0 <= doe_of yoe mp d < 146097 /\ doe_split (doe_of yoe mp d) = (yoe, mp, d).
Proof.
  intros yoe mp d Hy Hm Hd.
  destruct (doy_of_month_day yoe mp d Hm Hd) as (D1 & D2 & D3).
  set (doy := (153 * mp + 2) / 5 + d - 1) in *.
  assert (E : doe_of yoe mp d = year_start yoe + doy) by (unfold doe_of, year_start, doy; lia).
  rewrite E.
  assert (R : year_start yoe <= year_start yoe + doy <= year_start yoe + 364 + leap_day yoe) by lia.
  pose proof (yoe_recovered yoe _ Hy R) as Y.
  split.
  - clear Y. unfold year_start in *. leap_cases yoe; lia.
  - unfold doe_split. rewrite Y.
    replace (year_start yoe + doy - (365 * yoe + yoe / 4 - yoe / 100)) with doy by (unfold year_start; lia).
    rewrite D2, D3. reflexivity.
Qed.

(* every day of an era splits into a date of the era whose day of era it is *)
Lemma era_day : forall doe, 0 <= doe < 146097 ->
  let '(yoe, mp, d) := doe_split doe in
  0 <= yoe < 400 /\ 0 <= mp < 12 /\ 1 <= d <= mp_len yoe mp /\ doe_of yoe mp d = doe.
Proof.
  intros doe Hd. unfold doe_split.
  set (yoe := (doe - doe / 1460 + doe / 36524 - doe / 146096) / 365).
  destruct (yoe_of_day doe yoe Hd eq_refl) as (Hy & R).
  set (doy := doe - (365 * yoe + yoe / 4 - yoe / 100)).
  assert (D : 0 <= doy <= 364 + leap_day yoe) by (unfold doy, year_start in *; lia).
  set (mp := (5 * doy + 2) / 153).
  destruct (month_day_of_doy yoe doy mp D eq_refl) as (Hm & Hdd).
  split; [exact Hy|]. split; [exact Hm|]. split; [exact Hdd|].
  unfold doe_of, doy. lia.
Qed.

(* ------------------------------------------------------------------ month facts *)
Definition valid_md (y m d : Z) : Prop := 1 <= m <= 12 /\ 1 <= d <= days_in_month y m.

Lemma valid_date_md : forall y m d, valid_date y m d = true -> valid_md y m d.
Proof. unfold valid_date, valid_md. intros. lia. Qed.

Lemma month_cases : forall m, 1 <= m <= 12 ->
  m = 1 \/ m = 2 \/ m = 3 \/ m = 4 \/ m = 5 \/ m = 6 \/ m = 7 \/ m = 8 \/ m = 9 \/ m = 10 \/ m = 11 \/ m = 12.
Proof. intros. lia. Qed.

Ltac month_split H :=
  apply month_cases in H;
  destruct H as [H|[H|[H|[H|[H|[H|[H|[H|[H|[H|[H|H]]]]]]]]]]]; subst.

Lemma is_leap_period : forall y k, is_leap (y + 400 * k) = is_leap y.
Proof. intros. unfold is_leap. lia. Qed.

Lemma days_in_month_range : forall y m, 1 <= m <= 12 -> 28 <= days_in_month y m <= 31.
Proof.
  intros y m H. month_split H; unfold days_in_month; cbn [Z.eqb Pos.eqb Z.leb Z.compare Pos.compare Pos.compare_cont orb andb];
    try lia; destruct (is_leap y); lia.
Qed.

(* ------------------------------------------------------------------ the two functions through an era *)
Lemma civil_from_days_split : forall z,
  civil_from_days z =
  let '(yoe, mp, d) := doe_split ((z + 719468) mod 146097) in
  let m := if mp <? 10 then mp + 3 else mp - 9 in
  (yoe + (z + 719468) / 146097 * 400 + (if m <=? 2 then 1 else 0), m, d).
Proof. intros z. reflexivity. Qed.

Definition march_year (y m : Z) : Z := if m <=? 2 then y - 1 else y.
Definition march_month (m : Z) : Z := if m <=? 2 then m + 9 else m - 3.

Lemma days_from_civil_era : forall y m d,
  days_from_civil y m d + 719468 =
  (march_year y m / 400) * 146097 + doe_of (march_year y m mod 400) (march_month m) d.
Proof.
  intros y m d. unfold days_from_civil, doe_of, march_year, march_month.
  destruct (m <=? 2); lia.
Qed.

Lemma mp_len_days_in_month : forall y m, 1 <= m <= 12 ->
  mp_len (march_year y m mod 400) (march_month m) = days_in_month y m.
Proof.
  intros y m H.
  assert (L : forall yy, is_leap (yy mod 400 + 1) = is_leap (yy + 1)).
  { intros yy. rewrite <- (is_leap_period (yy mod 400 + 1) (yy / 400)). f_equal. lia. }
  month_split H; unfold mp_len, days_in_month, march_year, march_month;
    cbn [Z.eqb Pos.eqb Z.leb Z.ltb Z.compare Pos.compare Pos.compare_cont orb andb Z.add Z.sub Z.opp Z.pos_sub
         Pos.add Pos.succ Pos.pred_double Pos.add_carry Z.double Z.succ_double Z.pred_double];
    try reflexivity.
  rewrite L. replace (y - 1 + 1) with y by lia. reflexivity.
Qed.

(* (d) the date of the day number of a date is that date -- every year in Z, every valid month/day *)
Lemma civil_from_days_from_civil : forall y m d, valid_md y m d ->
  civil_from_days (days_from_civil y m d) = (y, m, d).
Proof.
  intros y m d [Hm Hd].
  pose proof (days_from_civil_era y m d) as E.
  pose proof (mp_len_days_in_month y m Hm) as L.
  assert (Hyoe : 0 <= march_year y m mod 400 < 400) by lia.
  assert (Hmp : 0 <= march_month m < 12) by (unfold march_month; destruct (m <=? 2) eqn:?; lia).
  destruct (era_date (march_year y m mod 400) (march_month m) d Hyoe Hmp ltac:(lia)) as [R S].
  rewrite civil_from_days_split, E.
  set (doe := doe_of (march_year y m mod 400) (march_month m) d) in *.
  replace ((march_year y m / 400 * 146097 + doe) mod 146097) with doe by lia.
  replace ((march_year y m / 400 * 146097 + doe) / 146097) with (march_year y m / 400) by lia.
  rewrite S. unfold march_year, march_month.
  destruct (m <=? 2) eqn:M.
  - destruct (m + 9 <? 10) eqn:M1; [lia|]. replace (m + 9 - 9) with m by lia. rewrite M.
    f_equal. f_equal. lia.
  - destruct (m - 3 <? 10) eqn:M1; [|lia]. replace (m - 3 + 3) with m by lia. rewrite M.
    f_equal. f_equal. lia.
Qed.

(* (d) conversely every day number is the day number of the date computed for it, and that date
   has a month 1..12 and a day the month has *)
Lemma days_from_civil_from_days : forall z,
  let '(y, m, d) := civil_from_days z in valid_md y m d /\ days_from_civil y m d = z.
Proof.
  intros z. rewrite civil_from_days_split.
  assert (Hd : 0 <= (z + 719468) mod 146097 < 146097) by lia.
  pose proof (era_day _ Hd) as K.
  destruct (doe_split ((z + 719468) mod 146097)) as [[yoe mp] d].
  destruct K as (Hy & Hm & Hdd & Hdoe). cbv zeta.
  set (m := if mp <? 10 then mp + 3 else mp - 9).
  set (y := yoe + (z + 719468) / 146097 * 400 + (if m <=? 2 then 1 else 0)).
  assert (Hm12 : 1 <= m <= 12) by (unfold m; destruct (mp <? 10) eqn:?; lia).
  assert (MY : march_year y m = yoe + (z + 719468) / 146097 * 400).
  { unfold march_year, y. destruct (m <=? 2); lia. }
  assert (MM : march_month m = mp).
  { unfold march_month, m. destruct (mp <? 10) eqn:A.
    - destruct (mp + 3 <=? 2) eqn:B; lia.
    - destruct (mp - 9 <=? 2) eqn:B; lia. }
  pose proof (mp_len_days_in_month y m Hm12) as L. rewrite MY, MM in L.
  replace ((yoe + (z + 719468) / 146097 * 400) mod 400) with yoe in L by lia.
  split.
  - split; [exact Hm12|]. rewrite <- L. exact Hdd.
  - pose proof (days_from_civil_era y m d) as E. rewrite MY, MM in E.
    replace ((yoe + (z + 719468) / 146097 * 400) mod 400) with yoe in E by lia.
    replace ((yoe + (z + 719468) / 146097 * 400) / 400) with ((z + 719468) / 146097) in E by lia.
    lia.
Qed.

(* ------------------------------------------------------------------ consecutive days *)
Lemma days_from_civil_day : forall y m d, days_from_civil y m d = days_from_civil y m 1 + (d - 1).
Proof. intros. unfold days_from_civil. lia. Qed.

Lemma is_leap_step : forall y,
  y / 4 - y / 100 + y / 400 = (y - 1) / 4 - (y - 1) / 100 + (y - 1) / 400 + (if is_leap y then 1 else 0).
Proof. intros y. unfold is_leap. destruct (y mod 4 =? 0) eqn:A; destruct (y mod 100 =? 0) eqn:B;
  destruct (y mod 400 =? 0) eqn:C; cbn [negb andb orb]; lia. Qed.

(* (d) the day number of the next date (by month lengths) is the next number *)
Lemma days_from_civil_next : forall y m d, valid_md y m d ->
  let '(y2, m2, d2) := next_date y m d in
  valid_md y2 m2 d2 /\ days_from_civil y2 m2 d2 = days_from_civil y m d + 1.
Proof.
  intros y m d [Hm Hd]. unfold next_date.
  destruct (d <? days_in_month y m) eqn:E.
  - split; [split; lia|]. rewrite (days_from_civil_day y m (d + 1)), (days_from_civil_day y m d). lia.
  - assert (d = days_in_month y m) by lia. subst d. clear E Hd.
    destruct (m <? 12) eqn:M.
    + split.
      * split; [lia|]. pose proof (days_in_month_range y (m + 1) ltac:(lia)). lia.
      * pose proof (is_leap_step y) as LS.
        month_split Hm; try lia; unfold days_from_civil, days_in_month;
          cbn [Z.eqb Pos.eqb Z.leb Z.ltb Z.compare Pos.compare Pos.compare_cont orb andb Z.add Z.sub Z.opp Z.pos_sub
               Pos.add Pos.succ Pos.pred_double Pos.add_carry Z.double Z.succ_double Z.pred_double];
          try lia.
        destruct (is_leap y); lia.
    + assert (m = 12) by lia. subst m. split.
      * split; [lia|]. unfold days_in_month. cbn. lia.
      * unfold days_from_civil, days_in_month. cbn [Z.eqb Pos.eqb Z.leb Z.compare Pos.compare Pos.compare_cont orb andb].
        lia.
Qed.

Lemma weekday_of_days_succ : forall z, weekday_of_days (z + 1) = (weekday_of_days z + 1) mod 7.
Proof. intros. unfold weekday_of_days. lia. Qed.

Lemma weekday_of_days_range : forall z, 0 <= weekday_of_days z <= 6.
Proof. intros. unfold weekday_of_days. lia. Qed.

(* (d) the weekday of the next date is the next weekday *)
Lemma weekday_next : forall y m d, valid_md y m d ->
  let '(y2, m2, d2) := next_date y m d in weekday y2 m2 d2 = (weekday y m d + 1) mod 7.
Proof.
  intros y m d H. pose proof (days_from_civil_next y m d H) as K.
  destruct (next_date y m d) as [[y2 m2] d2]. destruct K as [_ K].
  unfold weekday. rewrite K. apply weekday_of_days_succ.
Qed.

(* (d) the day number agrees with the model of date.toordinal() used by the codec area *)
Lemma days_before_month_table : forall y m, 1 <= m <= 12 ->
  days_before_month y m = (153 * march_month m + 2) / 5 + (if m <=? 2 then -306 else 59 + (if is_leap y then 1 else 0)).
Proof.
  intros y m H.
  month_split H; unfold days_before_month, days_in_month, march_month;
    cbn [Z.eqb Pos.eqb Z.leb Z.ltb Z.compare Pos.compare Pos.compare_cont orb andb Z.add Z.sub Z.opp Z.pos_sub
         Pos.add Pos.succ Pos.pred_double Pos.add_carry Z.double Z.succ_double Z.pred_double];
    destruct (is_leap y); reflexivity.
Qed.

Lemma ordinal_days_from_civil : forall y m d, 1 <= m <= 12 ->
  ordinal y m d = days_from_civil y m d + 719163.
Proof.
  intros y m d H. unfold ordinal. rewrite (days_before_month_table y m H).
  pose proof (is_leap_step y) as LS.
  unfold days_from_civil, march_month. destruct (m <=? 2) eqn:M; cbv zeta.
  - lia.
  - destruct (is_leap y); lia.
Qed.

Lemma day_number_sound :
  (forall y m d, valid_md y m d -> civil_from_days (days_from_civil y m d) = (y, m, d)) /\
  (forall z, let '(y, m, d) := civil_from_days z in valid_md y m d /\ days_from_civil y m d = z) /\
  days_from_civil 1970 1 1 = 0 /\ weekday 1970 1 1 = 3 /\
  (forall y m d, valid_md y m d ->
     let '(y2, m2, d2) := next_date y m d in
     valid_md y2 m2 d2 /\ days_from_civil y2 m2 d2 = days_from_civil y m d + 1 /\
     weekday y2 m2 d2 = (weekday y m d + 1) mod 7) /\
  (forall y m d, 1 <= m <= 12 -> ordinal y m d = days_from_civil y m d + 719163).
Proof.
  split; [exact civil_from_days_from_civil|]. split; [exact days_from_civil_from_days|].
  split; [reflexivity|]. split; [reflexivity|]. split; [|exact ordinal_days_from_civil].
  intros y m d V. pose proof (days_from_civil_next y m d V) as A. pose proof (weekday_next y m d V) as B.
  destruct (next_date y m d) as [[y2 m2] d2]. destruct A as [A1 A2]. split; [exact A1|]. split; [exact A2|exact B].
Qed.

(* ================================================================== 2. the n-th weekday of a month *)
(* ------------------------------------------------------------------ counting days *)
Lemma count_days_app : forall f k1 k2 a,
  count_days f a (k1 + k2) = count_days f a k1 + count_days f (a + Z.of_nat k1) k2.
Proof.
  induction k1 as [|k1 IH]; intros k2 a.
  - cbn [count_days Nat.add]. replace (a + Z.of_nat 0) with a by lia. lia.
  - cbn [count_days Nat.add]. rewrite IH. replace (a + 1 + Z.of_nat k1) with (a + Z.of_nat (S k1)) by lia. lia.
Qed.

Lemma count_days_ext : forall f g len a,
  (forall k, a <= k < a + Z.of_nat len -> f k = g k) -> count_days f a len = count_days g a len.
Proof.
  induction len as [|len IH]; intros a H; cbn [count_days]; [reflexivity|].
  rewrite (H a) by lia. rewrite (IH (a + 1)); [reflexivity|]. intros k Hk. apply H. lia.
Qed.

Lemma count_days_none : forall f len a,
  (forall k, a <= k < a + Z.of_nat len -> f k = false) -> count_days f a len = 0.
Proof.
  induction len as [|len IH]; intros a H; cbn [count_days]; [reflexivity|].
  rewrite (H a) by lia. rewrite (IH (a + 1)); [reflexivity|]. intros k Hk. apply H. lia.
Qed.

Lemma count_days_bounds : forall f len a, 0 <= count_days f a len <= Z.of_nat len.
Proof.
  induction len as [|len IH]; intros a; cbn [count_days]; [lia|].
  specialize (IH (a + 1)). destruct (f a); lia.
Qed.

(* days whose number is congruent to r modulo 7, after a shift c *)
Definition on_day (c r : Z) (k : Z) : bool := (k + c) mod 7 =? r.

(* any seven consecutive days contain exactly one *)
Lemma count_days_week : forall c r a, 0 <= r < 7 -> count_days (on_day c r) a 7 = 1.
Proof.
  intros c r a Hr.
  set (q := (r - a - c) mod 7).
  assert (Hq : 0 <= q < 7) by (unfold q; lia).
  assert (E : forall i, 0 <= i < 7 -> on_day c r (a + i) = (i =? q)).
  { intros i Hi. unfold on_day, q. lia. }
  cbn [count_days].
  replace a with (a + 0) at 1 by lia.
  replace (a + 1 + 1) with (a + 2) by lia. replace (a + 2 + 1) with (a + 3) by lia.
  replace (a + 3 + 1) with (a + 4) by lia. replace (a + 4 + 1) with (a + 5) by lia.
  replace (a + 5 + 1) with (a + 6) by lia.
  rewrite !E by lia.
  assert (Q : q = 0 \/ q = 1 \/ q = 2 \/ q = 3 \/ q = 4 \/ q = 5 \/ q = 6) by lia.
  destruct Q as [Q|[Q|[Q|[Q|[Q|[Q|Q]]]]]]; rewrite Q; reflexivity.
Qed.

Lemma count_days_weeks : forall c r j a, 0 <= r < 7 -> count_days (on_day c r) a (7 * j) = Z.of_nat j.
Proof.
  induction j as [|j IH]; intros a Hr.
  - reflexivity.
  - replace (7 * S j)%nat with (7 + 7 * j)%nat by lia.
    rewrite count_days_app, count_days_week by exact Hr. rewrite IH by exact Hr. lia.
Qed.

(* ------------------------------------------------------------------ nth_weekday *)
Lemma Some_inj : forall (A : Type) (a b : A), Some a = Some b -> a = b.
Proof. intros A a b H. injection H. auto. Qed.

Definition same_weekday (y m wd : Z) (k : Z) : bool := weekday y m k =? wd.

Lemma same_weekday_on_day : forall y m wd k,
  same_weekday y m wd k = on_day (days_from_civil y m 1 + 2) wd k.
Proof.
  intros. unfold same_weekday, on_day, weekday, weekday_of_days. rewrite (days_from_civil_day y m k).
  f_equal. f_equal. lia.
Qed.

Lemma count_same_weekday : forall y m wd a len,
  count_days (same_weekday y m wd) a len = count_days (on_day (days_from_civil y m 1 + 2) wd) a len.
Proof. intros. apply count_days_ext. intros. apply same_weekday_on_day. Qed.

Lemma weekday_day : forall y m d, weekday y m d = (weekday y m 1 + (d - 1)) mod 7.
Proof. intros. unfold weekday, weekday_of_days. rewrite (days_from_civil_day y m d). lia. Qed.

(* (a) what nth_weekday returns: a day of the month that falls on wd, with exactly n-1 days of that
   weekday before it in the month (n > 0), resp. exactly -n-1 after it (n < 0) *)
Lemma nth_weekday_sound : forall y m n wd d, nth_weekday y m n wd = Some d ->
  1 <= m <= 12 /\ 0 <= wd <= 6 /\ n <> 0 /\ 1 <= d <= days_in_month y m /\ weekday y m d = wd /\
  (0 < n -> count_days (same_weekday y m wd) 1 (Z.to_nat (d - 1)) = n - 1) /\
  (n < 0 -> count_days (same_weekday y m wd) (d + 1) (Z.to_nat (days_in_month y m - d)) = - n - 1).
Proof.
  intros y m n wd d H. unfold nth_weekday in H.
  destruct ((1 <=? m) && (m <=? 12) && (0 <=? wd) && (wd <=? 6)) eqn:G; cbn [negb] in H; [|discriminate]. cbv zeta in H.
  assert (Hm : 1 <= m <= 12) by lia. assert (Hwd : 0 <= wd <= 6) by lia.
  pose proof (days_in_month_range y m Hm) as Hdim.
  set (dim := days_in_month y m) in *.
  pose proof (weekday_of_days_range (days_from_civil y m 1)) as Hw1. fold (weekday y m 1) in Hw1.
  set (w1 := weekday y m 1) in *.
  set (d1 := 1 + (wd - w1) mod 7) in *.
  assert (Hd1 : 1 <= d1 <= 7) by (unfold d1; lia).
  assert (NONE : forall k, (wd - w1) mod 7 <> (k - 1) mod 7 -> same_weekday y m wd k = false).
  { intros k Hk. unfold same_weekday. rewrite weekday_day. fold w1. lia. }
  repeat split; try lia.
  - destruct (0 <? n) eqn:P; [|destruct (n <? 0) eqn:Q; [|discriminate]]; lia.
  - destruct (0 <? n) eqn:P; [|destruct (n <? 0) eqn:Q; [|discriminate]].
    + destruct (d1 + 7 * (n - 1) <=? dim) eqn:B; [|discriminate]. apply Some_inj in H. lia.
    + destruct (1 <=? d1 + 7 * ((dim - d1) / 7) + 7 * (n + 1)) eqn:B; [|discriminate]. apply Some_inj in H. lia.
  - destruct (0 <? n) eqn:P; [|destruct (n <? 0) eqn:Q; [|discriminate]].
    + destruct (d1 + 7 * (n - 1) <=? dim) eqn:B; [|discriminate]. apply Some_inj in H. lia.
    + destruct (1 <=? d1 + 7 * ((dim - d1) / 7) + 7 * (n + 1)) eqn:B; [|discriminate]. apply Some_inj in H. lia.
  - rewrite weekday_day. fold w1.
    destruct (0 <? n) eqn:P; [|destruct (n <? 0) eqn:Q; [|discriminate]].
    + destruct (d1 + 7 * (n - 1) <=? dim) eqn:B; [|discriminate]. apply Some_inj in H. unfold d1 in H. lia.
    + destruct (1 <=? d1 + 7 * ((dim - d1) / 7) + 7 * (n + 1)) eqn:B; [|discriminate]. apply Some_inj in H.
      unfold d1 in H. lia.
  - intros Hn. destruct (0 <? n) eqn:P; [|lia].
    destruct (d1 + 7 * (n - 1) <=? dim) eqn:B; [|discriminate]. apply Some_inj in H.
    (* [1, d) = [1, d1) ++ (n-1) whole weeks *)
    replace (Z.to_nat (d - 1)) with (Z.to_nat (d1 - 1) + 7 * Z.to_nat (n - 1))%nat by lia.
    rewrite count_days_app.
    rewrite (count_days_none (same_weekday y m wd) (Z.to_nat (d1 - 1)) 1).
    2:{ intros k Hk. apply NONE. unfold d1 in Hk. lia. }
    rewrite count_same_weekday, count_days_weeks by lia. lia.
  - intros Hn. destruct (0 <? n) eqn:P; [lia|]. destruct (n <? 0) eqn:Q; [|lia].
    destruct (1 <=? d1 + 7 * ((dim - d1) / 7) + 7 * (n + 1)) eqn:B; [|discriminate]. apply Some_inj in H.
    set (dl := d1 + 7 * ((dim - d1) / 7)) in *.
    assert (Hdl : dim - 7 < dl <= dim) by (unfold dl; lia).
    (* (d, dim] = (-n-1) whole weeks ++ (dl, dim] *)
    replace (Z.to_nat (dim - d)) with (7 * Z.to_nat (- n - 1) + Z.to_nat (dim - dl))%nat by lia.
    rewrite count_days_app.
    rewrite (count_days_none (same_weekday y m wd) (Z.to_nat (dim - dl))).
    2:{ intros k Hk. apply NONE. unfold dl, d1 in *. lia. }
    rewrite count_same_weekday, count_days_weeks by lia. lia.
Qed.

(* when it returns nothing although the arguments are in range, the month has fewer than |n| days
   of that weekday *)
Lemma nth_weekday_none : forall y m n wd, nth_weekday y m n wd = None ->
  1 <= m <= 12 -> 0 <= wd <= 6 -> n <> 0 ->
  count_days (same_weekday y m wd) 1 (Z.to_nat (days_in_month y m)) < Z.abs n.
Proof.
  intros y m n wd H Hm Hwd Hn. unfold nth_weekday in H.
  destruct ((1 <=? m) && (m <=? 12) && (0 <=? wd) && (wd <=? 6)) eqn:G; cbn [negb] in H; [|lia]. cbv zeta in H.
  pose proof (days_in_month_range y m Hm) as Hdim.
  set (dim := days_in_month y m) in *.
  pose proof (weekday_of_days_range (days_from_civil y m 1)) as Hw1. fold (weekday y m 1) in Hw1.
  set (w1 := weekday y m 1) in *.
  set (d1 := 1 + (wd - w1) mod 7) in *.
  assert (Hd1 : 1 <= d1 <= 7) by (unfold d1; lia).
  assert (NONE : forall k, (wd - w1) mod 7 <> (k - 1) mod 7 -> same_weekday y m wd k = false).
  { intros k Hk. unfold same_weekday. rewrite weekday_day. fold w1. lia. }
  set (dl := d1 + 7 * ((dim - d1) / 7)) in *.
  assert (Hdl : dim - 7 < dl <= dim) by (unfold dl; lia).
  (* the whole month = [1, d1) ++ whole weeks [d1, dl + 7) cut at dim: count = (dl - d1)/7 + 1 *)
  assert (TOTAL : count_days (same_weekday y m wd) 1 (Z.to_nat dim) = (dim - d1) / 7 + 1).
  { replace (Z.to_nat dim) with (Z.to_nat (d1 - 1) + (7 * Z.to_nat ((dim - d1) / 7) + (1 + Z.to_nat (dim - dl))))%nat
      by (unfold dl; lia).
    rewrite count_days_app.
    rewrite (count_days_none (same_weekday y m wd) (Z.to_nat (d1 - 1)) 1).
    2:{ intros k Hk. apply NONE. unfold d1 in Hk. lia. }
    rewrite count_days_app. rewrite (count_same_weekday y m wd _ (7 * _)), count_days_weeks by lia.
    rewrite count_days_app. cbn [count_days].
    rewrite (count_days_none (same_weekday y m wd) (Z.to_nat (dim - dl))).
    2:{ intros k Hk. apply NONE. unfold dl, d1 in *. lia. }
    replace (1 + Z.of_nat (Z.to_nat (d1 - 1)) + Z.of_nat (7 * Z.to_nat ((dim - d1) / 7))) with dl by (unfold dl; lia).
    assert (HL : same_weekday y m wd dl = true).
    { unfold same_weekday. rewrite weekday_day. fold w1. unfold dl, d1. lia. }
    rewrite HL. lia. }
  rewrite TOTAL.
  destruct (0 <? n) eqn:P.
  - destruct (d1 + 7 * (n - 1) <=? dim) eqn:B; [discriminate|]. lia.
  - destruct (n <? 0) eqn:Q; [|lia].
    fold dl in H. destruct (1 <=? dl + 7 * (n + 1)) eqn:B; [discriminate|]. unfold dl in B. lia.
Qed.

(* conversely: a day of the month on that weekday with n-1 earlier (resp. -n-1 later) such days in
   the month is what nth_weekday returns -- "the n-th" determines the day *)
Lemma count_days_hit : forall f len a d, a <= d < a + Z.of_nat len -> f d = true ->
  count_days f a len = count_days f a (Z.to_nat (d - a)) + 1 + count_days f (d + 1) (Z.to_nat (a + Z.of_nat len - d - 1)).
Proof.
  intros f len a d Hd Hf.
  replace len with (Z.to_nat (d - a) + (1 + Z.to_nat (a + Z.of_nat len - d - 1)))%nat at 1 by lia.
  rewrite count_days_app. replace (a + Z.of_nat (Z.to_nat (d - a))) with d by lia.
  rewrite count_days_app. cbn [count_days]. rewrite Hf.
  replace (d + Z.of_nat 1) with (d + 1) by lia. lia.
Qed.

Lemma nth_weekday_complete : forall y m n wd d,
  1 <= m <= 12 -> 0 <= wd <= 6 -> 1 <= d <= days_in_month y m -> weekday y m d = wd ->
  (0 < n /\ count_days (same_weekday y m wd) 1 (Z.to_nat (d - 1)) = n - 1) \/
  (n < 0 /\ count_days (same_weekday y m wd) (d + 1) (Z.to_nat (days_in_month y m - d)) = - n - 1) ->
  nth_weekday y m n wd = Some d.
Proof.
  intros y m n wd d Hm Hwd Hd W C.
  set (f := same_weekday y m wd) in *. set (dim := days_in_month y m) in *.
  assert (Fd : f d = true) by (unfold f, same_weekday; lia).
  pose proof (count_days_hit f (Z.to_nat dim) 1 d ltac:(lia) Fd) as T.
  replace (Z.to_nat (1 + Z.of_nat (Z.to_nat dim) - d - 1)) with (Z.to_nat (dim - d)) in T by lia.
  pose proof (count_days_bounds f (Z.to_nat (d - 1)) 1) as B1.
  pose proof (count_days_bounds f (Z.to_nat (dim - d)) (d + 1)) as B2.
  destruct (nth_weekday y m n wd) as [d'|] eqn:N.
  - f_equal. destruct (nth_weekday_sound _ _ _ _ _ N) as (_ & _ & _ & Hd' & W' & C1 & C2).
    fold f dim in C1, C2, Hd'.
    assert (Fd' : f d' = true) by (unfold f, same_weekday; lia).
    destruct (Z.lt_trichotomy d' d) as [L|[L|L]]; [|exact L|].
    + (* d' < d: d' is one of the earlier days of d, d one of the later days of d' *)
      exfalso. destruct C as [[Hn C]|[Hn C]].
      * pose proof (count_days_hit f (Z.to_nat (d - 1)) 1 d' ltac:(lia) Fd') as S.
        pose proof (count_days_bounds f (Z.to_nat (1 + Z.of_nat (Z.to_nat (d - 1)) - d' - 1)) (d' + 1)).
        specialize (C1 Hn). lia.
      * pose proof (count_days_hit f (Z.to_nat (dim - d')) (d' + 1) d ltac:(lia) Fd) as S.
        pose proof (count_days_bounds f (Z.to_nat (d - (d' + 1))) (d' + 1)).
        replace (Z.to_nat (d' + 1 + Z.of_nat (Z.to_nat (dim - d')) - d - 1)) with (Z.to_nat (dim - d)) in S by lia.
        specialize (C2 Hn). lia.
    + exfalso. destruct C as [[Hn C]|[Hn C]].
      * pose proof (count_days_hit f (Z.to_nat (d' - 1)) 1 d ltac:(lia) Fd) as S.
        pose proof (count_days_bounds f (Z.to_nat (1 + Z.of_nat (Z.to_nat (d' - 1)) - d - 1)) (d + 1)).
        specialize (C1 Hn). lia.
      * pose proof (count_days_hit f (Z.to_nat (dim - d)) (d + 1) d' ltac:(lia) Fd') as S.
        pose proof (count_days_bounds f (Z.to_nat (d' - (d + 1))) (d + 1)).
        replace (Z.to_nat (d + 1 + Z.of_nat (Z.to_nat (dim - d)) - d' - 1)) with (Z.to_nat (dim - d')) in S by lia.
        specialize (C2 Hn). lia.
  - exfalso. pose proof (nth_weekday_none y m n wd N Hm Hwd ltac:(lia)) as K. fold f dim in K.
    destruct C as [[Hn C]|[Hn C]]; lia.
Qed.

(* ================================================================== 3. yearly onsets *)
(* ------------------------------------------------------------------ day numbers grow with the year *)
Definition gdays (y : Z) : Z := 365 * y + y / 4 - y / 100 + y / 400.

Lemma gdays_step : forall y, gdays y + 365 <= gdays (y + 1).
Proof. intros. unfold gdays. lia. Qed.

Lemma gdays_mono : forall k y, 0 <= k -> gdays y + 365 * k <= gdays (y + k).
Proof.
  intros k y Hk. revert y. pattern k. apply natlike_ind; [| |exact Hk].
  - intros y. replace (y + 0) with y by lia. lia.
  - intros x Hx IH y. specialize (IH (y + 1)). pose proof (gdays_step y).
    replace (y + Z.succ x) with (y + 1 + x) by lia. lia.
Qed.

Lemma days_from_civil_year_lt : forall y1 y2 m d1 d2,
  y1 < y2 -> 1 <= d1 <= 31 -> 1 <= d2 <= 31 -> days_from_civil y1 m d1 < days_from_civil y2 m d2.
Proof.
  intros y1 y2 m d1 d2 Hy H1 H2.
  assert (E : forall y d, days_from_civil y m d = gdays (march_year y m) + (153 * march_month m + 2) / 5 + d - 1 - 719468).
  { intros. unfold days_from_civil, gdays, march_year, march_month. destruct (m <=? 2); lia. }
  rewrite !E.
  pose proof (gdays_mono (march_year y2 m - march_year y1 m) (march_year y1 m)) as G.
  replace (march_year y1 m + (march_year y2 m - march_year y1 m)) with (march_year y2 m) in G by lia.
  unfold march_year in *. destruct (m <=? 2); lia.
Qed.

(* ------------------------------------------------------------------ seconds *)
Lemma local_secs_day : forall y m d h mi s, valid_time h mi s = true ->
  local_secs y m d h mi s / 86400 = days_from_civil y m d /\
  local_secs y m d h mi s mod 86400 = h * 3600 + mi * 60 + s.
Proof. intros y m d h mi s V. unfold valid_time in V. unfold local_secs. lia. Qed.

Lemma local_secs_year_lt : forall y1 y2 m d1 d2 h mi s, valid_time h mi s = true ->
  y1 < y2 -> 1 <= d1 <= 31 -> 1 <= d2 <= 31 -> local_secs y1 m d1 h mi s < local_secs y2 m d2 h mi s.
Proof.
  intros. pose proof (days_from_civil_year_lt y1 y2 m d1 d2 ltac:(lia) ltac:(lia) ltac:(lia)).
  unfold local_secs. lia.
Qed.

(* ------------------------------------------------------------------ candidates *)
Lemma years_from_In : forall k y x, In x (years_from y k) <-> y <= x < y + Z.of_nat k.
Proof.
  induction k as [|k IH]; intros y x; cbn [years_from In]; [lia|]. rewrite IH. lia.
Qed.

Lemma year_range_In : forall y0 ylast x, In x (year_range y0 ylast) <-> y0 <= x <= ylast.
Proof. intros. unfold year_range. rewrite years_from_In. lia. Qed.

Lemma opt_list_In : forall (A : Type) (o : option A) x, In x (opt_list o) <-> o = Some x.
Proof.
  intros A [a|] x; cbn [opt_list In]; split; intros H.
  - destruct H as [H|H]; [congruence|contradiction].
  - left. congruence.
  - contradiction.
  - discriminate.
Qed.

Lemma candidates_In : forall ylast r o,
  In o (candidates ylast r) <-> exists Y, y_year r <= Y <= ylast /\ candidate r Y = Some o.
Proof.
  intros. unfold candidates. rewrite in_flat_map. split.
  - intros (Y & HY & Ho). exists Y. rewrite year_range_In in HY. rewrite opt_list_In in Ho. auto.
  - intros (Y & HY & Ho). exists Y. rewrite year_range_In, opt_list_In. auto.
Qed.

(* what a candidate is *)
Lemma candidate_sound : forall r Y o, candidate r Y = Some o ->
  exists d, nth_weekday Y (y_bymonth r) (y_n r) (y_wd r) = Some d /\
            o = local_secs Y (y_bymonth r) d (y_hour r) (y_min r) (y_sec r) /\ dtstart_secs r <= o.
Proof.
  intros r Y o H. unfold candidate in H.
  destruct (nth_weekday Y (y_bymonth r) (y_n r) (y_wd r)) as [d|]; [|discriminate]. cbv zeta in H.
  destruct (dtstart_secs r <=? local_secs Y (y_bymonth r) d (y_hour r) (y_min r) (y_sec r)) eqn:E; [|discriminate].
  apply Some_inj in H. exists d. repeat split; [congruence|lia].
Qed.

Definition rule_time_ok (r : yrule) : Prop := valid_time (y_hour r) (y_min r) (y_sec r) = true.

Lemma yrule_wf_time : forall r, yrule_wf r = true -> rule_time_ok r.
Proof.
  intros r H. unfold yrule_wf in H. unfold rule_time_ok.
  repeat (apply andb_true_iff in H; destruct H as [H ?]). assumption.
Qed.

Lemma candidate_year_lt : forall r Y1 Y2 o1 o2, rule_time_ok r ->
  Y1 < Y2 -> candidate r Y1 = Some o1 -> candidate r Y2 = Some o2 -> o1 < o2.
Proof.
  intros r Y1 Y2 o1 o2 T HY H1 H2.
  destruct (candidate_sound _ _ _ H1) as (d1 & N1 & E1 & _).
  destruct (candidate_sound _ _ _ H2) as (d2 & N2 & E2 & _).
  destruct (nth_weekday_sound _ _ _ _ _ N1) as (Hm & _ & _ & D1 & _).
  destruct (nth_weekday_sound _ _ _ _ _ N2) as (_ & _ & _ & D2 & _).
  pose proof (days_in_month_range Y1 _ Hm). pose proof (days_in_month_range Y2 _ Hm).
  subst o1 o2. apply local_secs_year_lt; [exact T|lia|lia|lia].
Qed.

(* the calendar year of an onset *)
Lemma candidate_year : forall r Y o, rule_time_ok r -> candidate r Y = Some o -> year_of_secs o = Y.
Proof.
  intros r Y o T H. destruct (candidate_sound _ _ _ H) as (d & N & E & _).
  destruct (nth_weekday_sound _ _ _ _ _ N) as (Hm & _ & _ & D & _).
  unfold year_of_secs. subst o. destruct (local_secs_day Y (y_bymonth r) d _ _ _ T) as [Q _]. rewrite Q.
  rewrite civil_from_days_from_civil by (split; assumption). reflexivity.
Qed.

(* sortedness of the images of an increasing partial function over consecutive years *)
Lemma flat_map_years_sorted : forall (g : Z -> option Z),
  (forall Y1 Y2 o1 o2, Y1 < Y2 -> g Y1 = Some o1 -> g Y2 = Some o2 -> o1 < o2) ->
  forall k y, StronglySorted Z.lt (flat_map (fun Y => opt_list (g Y)) (years_from y k)).
Proof.
  intros g MONO. induction k as [|k IH]; intros y; cbn [years_from flat_map]; [constructor|].
  destruct (g y) as [o|] eqn:E; cbn [opt_list app]; [|apply IH].
  constructor; [apply IH|]. apply Forall_forall. intros o' Ho'.
  apply in_flat_map in Ho'. destruct Ho' as (Y & HY & Ho'). apply years_from_In in HY. apply opt_list_In in Ho'.
  apply (MONO y Y); [lia|assumption|assumption].
Qed.

Lemma candidates_sorted : forall ylast r, rule_time_ok r -> StronglySorted Z.lt (candidates ylast r).
Proof.
  intros ylast r T. unfold candidates, year_range. apply flat_map_years_sorted.
  intros. eapply candidate_year_lt; eauto.
Qed.

Lemma candidates_years_sorted : forall ylast r, rule_time_ok r ->
  StronglySorted Z.lt (map year_of_secs (candidates ylast r)).
Proof.
  intros ylast r T. unfold candidates, year_range.
  generalize (Z.to_nat (ylast - y_year r + 1)) as k. generalize (y_year r) as y.
  intros y k. revert y. induction k as [|k IH]; intros y; cbn [years_from flat_map]; [constructor|].
  destruct (candidate r y) as [o|] eqn:E; cbn [opt_list app map]; [|apply IH].
  constructor; [apply IH|]. apply Forall_forall. intros yy Hy.
  apply in_map_iff in Hy. destruct Hy as (o' & Ey & Ho').
  apply in_flat_map in Ho'. destruct Ho' as (Y & HY & Ho'). apply years_from_In in HY. apply opt_list_In in Ho'.
  rewrite (candidate_year r y o T E). rewrite <- Ey, (candidate_year r Y o' T Ho'). lia.
Qed.

(* ------------------------------------------------------------------ prefixes *)
Lemma take_while_prefix : forall (A : Type) (f : A -> bool) l,
  exists rest, l = take_while f l ++ rest /\ match rest with [] => True | c :: _ => f c = false end.
Proof.
  induction l as [|x l IH]; cbn [take_while].
  - exists []. split; [reflexivity|exact I].
  - destruct (f x) eqn:E.
    + destruct IH as (rest & E1 & E2). exists rest. split; [cbn; f_equal; exact E1|exact E2].
    + exists (x :: l). split; [reflexivity|exact E].
Qed.

Lemma take_while_all : forall (A : Type) (f : A -> bool) l, Forall (fun x => f x = true) (take_while f l).
Proof.
  induction l as [|x l IH]; cbn [take_while]; [constructor|].
  destruct (f x) eqn:E; constructor; assumption.
Qed.

Lemma onsets_prefix : forall ylast r, exists rest, candidates ylast r = yearly_onsets ylast r ++ rest.
Proof.
  intros. unfold yearly_onsets. destruct (y_bound r) as [u|k|].
  - destruct (take_while_prefix _ (within r u) (candidates ylast r)) as (rest & E & _). exists rest. exact E.
  - exists (skipn (Z.to_nat k) (candidates ylast r)). symmetry. apply firstn_skipn.
  - destruct (take_while_prefix _ (within r horizon) (candidates ylast r)) as (rest & E & _). exists rest. exact E.
Qed.

Lemma sorted_app_l : forall (l1 l2 : list Z), StronglySorted Z.lt (l1 ++ l2) -> StronglySorted Z.lt l1.
Proof.
  induction l1 as [|x l1 IH]; intros l2 H; [constructor|].
  cbn in H. inversion H as [|? ? S F]; subst. constructor; [eapply IH; eassumption|].
  apply Forall_forall. intros z Hz. rewrite Forall_forall in F. apply F. apply in_or_app. left. exact Hz.
Qed.

Lemma sorted_app_lt : forall (l1 l2 : list Z) a b, StronglySorted Z.lt (l1 ++ l2) -> In a l1 -> In b l2 -> a < b.
Proof.
  induction l1 as [|x l1 IH]; intros l2 a b H Ha Hb; [contradiction|].
  cbn in H. inversion H as [|? ? S F]; subst. destruct Ha as [Ha|Ha].
  - subst x. rewrite Forall_forall in F. apply F. apply in_or_app. right. exact Hb.
  - eapply IH; eassumption.
Qed.

Lemma onsets_In_candidates : forall ylast r o, In o (yearly_onsets ylast r) -> In o (candidates ylast r).
Proof.
  intros ylast r o H. destruct (onsets_prefix ylast r) as (rest & E). rewrite E. apply in_or_app. left. exact H.
Qed.

(* ------------------------------------------------------------------ (a) each onset *)
Lemma yearly_onsets_each : forall ylast r o, yrule_wf r = true -> In o (yearly_onsets ylast r) ->
  exists Y d,
    y_year r <= Y <= ylast /\
    civil_from_days (o / 86400) = (Y, y_bymonth r, d) /\
    o mod 86400 = y_hour r * 3600 + y_min r * 60 + y_sec r /\
    weekday_of_days (o / 86400) = y_wd r /\
    1 <= d <= days_in_month Y (y_bymonth r) /\
    (0 < y_n r -> count_days (same_weekday Y (y_bymonth r) (y_wd r)) 1 (Z.to_nat (d - 1)) = y_n r - 1) /\
    (y_n r < 0 -> count_days (same_weekday Y (y_bymonth r) (y_wd r)) (d + 1)
                    (Z.to_nat (days_in_month Y (y_bymonth r) - d)) = - y_n r - 1) /\
    dtstart_secs r <= o.
Proof.
  intros ylast r o W H. pose proof (yrule_wf_time r W) as T.
  apply onsets_In_candidates in H. apply candidates_In in H. destruct H as (Y & HY & HC).
  destruct (candidate_sound _ _ _ HC) as (d & N & E & DS).
  destruct (nth_weekday_sound _ _ _ _ _ N) as (Hm & Hwd & Hn & D & WD & C1 & C2).
  destruct (local_secs_day Y (y_bymonth r) d _ _ _ T) as [Q1 Q2]. rewrite <- E in Q1, Q2.
  exists Y, d. rewrite Q1, Q2. repeat split; try assumption; try lia.
  apply civil_from_days_from_civil. split; assumption.
Qed.

(* ------------------------------------------------------------------ (b) order *)
Lemma map_prefix_sorted : forall (f : Z -> Z) (l1 l2 : list Z),
  StronglySorted Z.lt (map f (l1 ++ l2)) -> StronglySorted Z.lt (map f l1).
Proof. intros f l1 l2 H. rewrite map_app in H. eapply sorted_app_l. exact H. Qed.

Lemma yearly_onsets_order : forall ylast r, yrule_wf r = true ->
  StronglySorted Z.lt (yearly_onsets ylast r) /\
  StronglySorted Z.lt (map year_of_secs (yearly_onsets ylast r)) /\
  Forall (fun o => dtstart_secs r <= o /\ y_year r <= year_of_secs o <= ylast) (yearly_onsets ylast r).
Proof.
  intros ylast r W. pose proof (yrule_wf_time r W) as T.
  destruct (onsets_prefix ylast r) as (rest & E).
  pose proof (candidates_sorted ylast r T) as S1. pose proof (candidates_years_sorted ylast r T) as S2.
  rewrite E in S1, S2. split; [eapply sorted_app_l; exact S1|]. split; [eapply map_prefix_sorted; exact S2|].
  apply Forall_forall. intros o Ho. apply onsets_In_candidates in Ho. apply candidates_In in Ho.
  destruct Ho as (Y & HY & HC). rewrite (candidate_year r Y o T HC).
  destruct (candidate_sound _ _ _ HC) as (d & _ & _ & DS). lia.
Qed.

(* every year of the range contributes its instance, unless the month has no such day or the
   instance lies before DTSTART: nothing else is left out of [candidates] *)
Lemma candidates_complete : forall ylast r Y d,
  y_year r <= Y <= ylast -> nth_weekday Y (y_bymonth r) (y_n r) (y_wd r) = Some d ->
  dtstart_secs r <= local_secs Y (y_bymonth r) d (y_hour r) (y_min r) (y_sec r) ->
  In (local_secs Y (y_bymonth r) d (y_hour r) (y_min r) (y_sec r)) (candidates ylast r).
Proof.
  intros ylast r Y d HY N DS. apply candidates_In. exists Y. split; [exact HY|].
  unfold candidate. rewrite N. cbv zeta.
  destruct (dtstart_secs r <=? local_secs Y (y_bymonth r) d (y_hour r) (y_min r) (y_sec r)) eqn:E; [reflexivity|lia].
Qed.

(* ------------------------------------------------------------------ (c) the bound *)
Definition rule_until (r : yrule) : option Z :=
  match y_bound r with YUntil u => Some u | YUnbounded => Some horizon | YCount _ => None end.

Lemma yearly_onsets_until : forall ylast r u, yrule_wf r = true -> rule_until r = Some u ->
  Forall (fun o => o - y_from r <= u) (yearly_onsets ylast r) /\
  exists rest, candidates ylast r = yearly_onsets ylast r ++ rest /\
               Forall (fun c => u < c - y_from r) rest.
Proof.
  intros ylast r u W RU. pose proof (yrule_wf_time r W) as T.
  assert (EQ : yearly_onsets ylast r = take_while (within r u) (candidates ylast r)).
  { unfold yearly_onsets, rule_until in *. destruct (y_bound r); congruence. }
  rewrite EQ. split.
  - pose proof (take_while_all _ (within r u) (candidates ylast r)) as A.
    rewrite Forall_forall in *. intros o Ho. specialize (A o Ho). unfold within in A. lia.
  - destruct (take_while_prefix _ (within r u) (candidates ylast r)) as (rest & E & HD).
    exists rest. split; [exact E|].
    destruct rest as [|c rest]; [constructor|].
    pose proof (candidates_sorted ylast r T) as S. rewrite E in S.
    apply Forall_forall. intros c' Hc'. unfold within in HD.
    destruct Hc' as [Hc'|Hc']; [subst; lia|].
    assert (c < c').
    { assert (S' : StronglySorted Z.lt ((take_while (within r u) (candidates ylast r) ++ [c]) ++ rest)).
      { rewrite <- app_assoc. exact S. }
      eapply sorted_app_lt; [exact S'| |exact Hc']. apply in_or_app. right. left. reflexivity. }
    lia.
Qed.

(* so with UNTIL (or the horizon) the onsets are exactly the candidates that satisfy it *)
Lemma yearly_onsets_until_iff : forall ylast r u o, yrule_wf r = true -> rule_until r = Some u ->
  (In o (yearly_onsets ylast r) <-> In o (candidates ylast r) /\ o - y_from r <= u).
Proof.
  intros ylast r u o W RU. destruct (yearly_onsets_until ylast r u W RU) as (A & rest & E & B).
  rewrite Forall_forall in A, B. split.
  - intros H. split; [apply onsets_In_candidates; exact H|apply A; exact H].
  - intros [H1 H2]. rewrite E in H1. apply in_app_or in H1. destruct H1 as [H1|H1]; [exact H1|].
    specialize (B o H1). lia.
Qed.

Lemma yearly_onsets_count : forall ylast r k, y_bound r = YCount k ->
  yearly_onsets ylast r = firstn (Z.to_nat k) (candidates ylast r) /\
  length (yearly_onsets ylast r) = Nat.min (Z.to_nat k) (length (candidates ylast r)).
Proof.
  intros ylast r k H. unfold yearly_onsets. rewrite H. split; [reflexivity|apply firstn_length].
Qed.

(* ------------------------------------------------------------------ the year range cuts nothing off *)
Lemma days_from_civil_in_year : forall y m d, valid_md y m d ->
  days_from_civil y 1 1 <= days_from_civil y m d <= days_from_civil y 12 31.
Proof.
  intros y m d [Hm Hd]. pose proof (is_leap_step y) as LS.
  month_split Hm; unfold days_from_civil, days_in_month in *;
    cbn [Z.eqb Pos.eqb Z.leb Z.ltb Z.compare Pos.compare Pos.compare_cont orb andb Z.add Z.sub Z.opp Z.pos_sub
         Pos.add Pos.succ Pos.pred_double Pos.add_carry Z.double Z.succ_double Z.pred_double] in *;
    destruct (is_leap y); lia.
Qed.

Lemma days_from_civil_year_lt_any : forall y1 m1 d1 y2 m2 d2,
  valid_md y1 m1 d1 -> valid_md y2 m2 d2 -> y1 < y2 -> days_from_civil y1 m1 d1 < days_from_civil y2 m2 d2.
Proof.
  intros y1 m1 d1 y2 m2 d2 V1 V2 Hy.
  pose proof (days_from_civil_in_year _ _ _ V1) as B1. pose proof (days_from_civil_in_year _ _ _ V2) as B2.
  assert (N : days_from_civil (y1 + 1) 1 1 = days_from_civil y1 12 31 + 1) by (unfold days_from_civil; cbn [Z.leb Z.compare Pos.compare Pos.compare_cont]; lia).
  assert (J : forall y, days_from_civil y 1 1 = gdays (y - 1) + 306 - 719468) by (intros; unfold days_from_civil, gdays; cbn [Z.leb Z.compare Pos.compare Pos.compare_cont]; lia).
  pose proof (gdays_mono (y2 - (y1 + 1)) (y1 + 1 - 1) ltac:(lia)) as G.
  replace (y1 + 1 - 1 + (y2 - (y1 + 1))) with (y2 - 1) in G by lia.
  rewrite (J (y1 + 1)) in N. rewrite (J y2) in B2. lia.
Qed.

Lemma civil_year_mono : forall z1 z2, z1 <= z2 -> fst (fst (civil_from_days z1)) <= fst (fst (civil_from_days z2)).
Proof.
  intros z1 z2 Hz.
  pose proof (days_from_civil_from_days z1) as K1. pose proof (days_from_civil_from_days z2) as K2.
  destruct (civil_from_days z1) as [[y1 m1] d1]. destruct (civil_from_days z2) as [[y2 m2] d2].
  destruct K1 as [V1 E1]. destruct K2 as [V2 E2]. cbn [fst].
  destruct (Z_le_gt_dec y1 y2) as [L|L]; [exact L|].
  pose proof (days_from_civil_year_lt_any _ _ _ _ _ _ V2 V1 ltac:(lia)). lia.
Qed.

Lemma year_of_secs_mono : forall o1 o2, o1 <= o2 -> year_of_secs o1 <= year_of_secs o2.
Proof. intros o1 o2 H. unfold year_of_secs. apply civil_year_mono. lia. Qed.

Lemma sorted_ext : forall l1 l2 : list Z, StronglySorted Z.lt l1 -> StronglySorted Z.lt l2 ->
  (forall x, In x l1 <-> In x l2) -> l1 = l2.
Proof.
  induction l1 as [|a l1 IH]; intros l2 S1 S2 H.
  - destruct l2 as [|b l2]; [reflexivity|]. exfalso. apply (proj2 (H b)). left. reflexivity.
  - destruct l2 as [|b l2]; [exfalso; apply (proj1 (H a)); left; reflexivity|].
    inversion S1 as [|? ? S1' F1]; subst. inversion S2 as [|? ? S2' F2]; subst.
    rewrite Forall_forall in F1, F2.
    assert (a = b).
    { destruct (proj1 (H a) (or_introl eq_refl)) as [E|I1]; [congruence|].
      destruct (proj2 (H b) (or_introl eq_refl)) as [E|I2]; [congruence|].
      specialize (F1 b I2). specialize (F2 a I1). lia. }
    subst b. f_equal. apply IH; [assumption|assumption|].
    intros x. split; intros Hx.
    + destruct (proj1 (H x) (or_intror Hx)) as [E|I]; [|exact I]. subst x. specialize (F1 a Hx). lia.
    + destruct (proj2 (H x) (or_intror Hx)) as [E|I]; [|exact I]. subst x. specialize (F2 a Hx). lia.
Qed.

(* with UNTIL (or the horizon): once ylast reaches the calendar year of the bound read as local time,
   the onsets are the instances of ALL years from DTSTART's on that satisfy the bound *)
Lemma yearly_onsets_until_all_years : forall ylast r u o, yrule_wf r = true -> rule_until r = Some u ->
  year_of_secs (u + y_from r) <= ylast ->
  (In o (yearly_onsets ylast r) <->
   (exists Y, y_year r <= Y /\ candidate r Y = Some o) /\ o - y_from r <= u).
Proof.
  intros ylast r u o W RU HY. pose proof (yrule_wf_time r W) as T.
  rewrite (yearly_onsets_until_iff ylast r u o W RU), candidates_In. split.
  - intros [(Y & HYr & HC) HU]. split; [exists Y; split; [lia|exact HC]|exact HU].
  - intros [(Y & HYr & HC) HU]. split; [|exact HU]. exists Y. split; [|exact HC].
    pose proof (candidate_year r Y o T HC) as CY.
    pose proof (year_of_secs_mono o (u + y_from r) ltac:(lia)). lia.
Qed.

Lemma yearly_onsets_range_irrelevant : forall y1 y2 r u, yrule_wf r = true -> rule_until r = Some u ->
  year_of_secs (u + y_from r) <= y1 -> year_of_secs (u + y_from r) <= y2 ->
  yearly_onsets y1 r = yearly_onsets y2 r.
Proof.
  intros y1 y2 r u W RU H1 H2.
  apply sorted_ext.
  - apply (yearly_onsets_order y1 r W).
  - apply (yearly_onsets_order y2 r W).
  - intros x. rewrite (yearly_onsets_until_all_years y1 r u x W RU H1), (yearly_onsets_until_all_years y2 r u x W RU H2).
    tauto.
Qed.

(* what the dispatcher hands to the harness *)
Lemma family_onsets_spec : forall r l, family_onsets r = Some l ->
  yrule_wf r = true /\ l = yearly_onsets (default_last_year r) r /\ hd_error l = Some (dtstart_secs r) /\
  forall u, rule_until r = Some u ->
    forall o, In o l <-> (exists Y, y_year r <= Y /\ candidate r Y = Some o) /\ o - y_from r <= u.
Proof.
  intros r l H. unfold family_onsets in H.
  destruct (yrule_wf r) eqn:W; cbn [andb] in H; [|discriminate].
  destruct (dtstart_is_instance (default_last_year r) r) eqn:D; [|discriminate].
  apply Some_inj in H. subst l. split; [reflexivity|]. split; [reflexivity|]. split.
  - unfold dtstart_is_instance in D. destruct (yearly_onsets (default_last_year r) r) as [|o l]; [discriminate|].
    cbn [hd_error]. f_equal. lia.
  - intros u RU o. apply yearly_onsets_until_all_years; [exact W|exact RU|].
    unfold default_last_year, rule_until in *. destruct (y_bound r); try discriminate; apply Some_inj in RU; subst; lia.
Qed.

(* ------------------------------------------------------------------ the example *)
Definition ex_eu_dst_onsets : list Z := Eval vm_compute in yearly_onsets (default_last_year ex_eu_dst) ex_eu_dst.
Definition ex_eu_std_onsets : list Z := Eval vm_compute in yearly_onsets (default_last_year ex_eu_std) ex_eu_std.

Lemma ex_eu_ok :
  yrule_wf ex_eu_dst = true /\ yrule_wf ex_eu_std = true /\
  family_onsets ex_eu_dst = Some ex_eu_dst_onsets /\ family_onsets ex_eu_std = Some ex_eu_std_onsets /\
  default_last_year ex_eu_dst = 2025 /\ default_last_year ex_eu_std = 2038 /\
  length ex_eu_dst_onsets = 45%nat /\ length ex_eu_std_onsets = 43%nat /\
  (* 1981-03-29T02:00, 1982-03-28T02:00, ..., 2025-03-30T02:00 (= UNTIL 2025-03-30T01:00Z + 1 h) *)
  firstn 2 ex_eu_dst_onsets = [354679200; 386128800] /\ last ex_eu_dst_onsets 0 = 1743300000 /\
  dtstart_secs ex_eu_dst = 354679200 /\ 1743300000 - y_from ex_eu_dst = 1743296400 /\
  (* one second less in UNTIL and the onset of 2025 is gone *)
  last (yearly_onsets 2025 (mkYrule 1981 3 29 2 0 0 3 (-1) 6 (YUntil 1743296399) 3600)) 0 = 1711850400 /\
  (* 1996-10-27T03:00 ... 2038-10-31T03:00; the horizon is 2038-12-31T00:00:00Z *)
  hd 0 ex_eu_std_onsets = 846385200 /\ last ex_eu_std_onsets 0 = 2172106800 /\ horizon = 2177366400 /\
  civil_from_days (2172106800 / 86400) = (2038, 10, 31) /\ weekday 2038 10 31 = 6 /\
  nth_weekday 2038 10 (-1) 6 = Some 31 /\ nth_weekday 2024 2 5 3 = Some 29 /\ nth_weekday 2023 2 5 3 = None.
Proof. vm_compute. repeat split; reflexivity. Qed.
