(* Reusable lemmas about sorting (used by C17 canonsort_keys; meant for C10 as well).

   1. [sorted_perm_eq]: two StronglySorted lists that are permutations of each other under an
      order that is antisymmetric on their elements are equal.
   2. [sort_by] (Model/Sort.v, Python's stable sorted) returns a sorted permutation of its input
      for any total transitive boolean order, hence [sort_by_perm_invariant]: the result does
      not depend on the order of the input.
   3. [str_leb] (Model/Params.v, Python's str order on code points) is a total order. *)
Require Import Lib.Base Model.Params Model.Sort.
From Coq Require Import Sorting.Sorted Sorting.Permutation Lia.

Section SortedPerm.
  Variable A : Type.
  Variable le : A -> A -> Prop.

  Lemma sorted_perm_eq : forall l1 l2 : list A,
    Permutation l1 l2 -> StronglySorted le l1 -> StronglySorted le l2 ->
    (forall a b, In a l1 -> In b l1 -> le a b -> le b a -> a = b) ->
    l1 = l2.
  Proof.
    induction l1 as [|a r1 IH]; intros l2 Hp H1 H2 Hanti.
    - apply Permutation_nil in Hp. subst. reflexivity.
    - destruct l2 as [|b r2].
      + apply Permutation_sym, Permutation_nil in Hp. discriminate.
      + inversion H1 as [|? ? Hs1 Hf1]; subst. inversion H2 as [|? ? Hs2 Hf2]; subst.
        assert (Hab : a = b).
        { assert (Ha : In a (b :: r2)) by (eapply Permutation_in; [exact Hp|left; reflexivity]).
          assert (Hb : In b (a :: r1)) by (eapply Permutation_in; [apply Permutation_sym; exact Hp|left; reflexivity]).
          destruct Ha as [Ha|Ha]; [symmetry; exact Ha|].
          destruct Hb as [Hb|Hb]; [exact Hb|].
          rewrite Forall_forall in Hf1, Hf2.
          apply Hanti; [left; reflexivity|right; exact Hb|apply Hf1; exact Hb|apply Hf2; exact Ha]. }
        subst b. f_equal. apply IH.
        * eapply Permutation_cons_inv. exact Hp.
        * exact Hs1.
        * exact Hs2.
        * intros x y Hx Hy. apply Hanti; right; assumption.
  Qed.
End SortedPerm.

Section SortBy.
  Variable A : Type.
  Variable leb : A -> A -> bool.
  Hypothesis leb_total : forall a b, leb a b = false -> leb b a = true.
  Hypothesis leb_trans : forall a b c, leb a b = true -> leb b c = true -> leb a c = true.

  Local Notation le := (fun a b => leb a b = true).

  Lemma insert_by_perm x l : Permutation (insert_by leb x l) (x :: l).
  Proof.
    induction l as [|y r IH]; cbn [insert_by]; [apply Permutation_refl|].
    destruct (leb x y); [apply Permutation_refl|].
    eapply Permutation_trans; [apply perm_skip; exact IH|apply perm_swap].
  Qed.

  Lemma sort_by_perm l : Permutation (sort_by leb l) l.
  Proof.
    induction l as [|x r IH]; cbn; [constructor|].
    eapply Permutation_trans; [apply insert_by_perm|apply perm_skip; exact IH].
  Qed.

  Lemma insert_by_sorted x l : StronglySorted le l -> StronglySorted le (insert_by leb x l).
  Proof.
    induction l as [|y r IH]; intros Hs; cbn [insert_by].
    - constructor; constructor.
    - inversion Hs as [|? ? Hsr Hfr]; subst.
      destruct (leb x y) eqn:E.
      + constructor; [exact Hs|]. constructor; [exact E|].
        rewrite Forall_forall in Hfr |- *. intros z Hz. eapply leb_trans; [exact E|apply Hfr; exact Hz].
      + constructor; [apply IH; exact Hsr|].
        rewrite Forall_forall in Hfr |- *. intros z Hz.
        apply (Permutation_in _ (insert_by_perm x r)) in Hz. destruct Hz as [Hz|Hz].
        * subst z. apply leb_total. exact E.
        * apply Hfr. exact Hz.
  Qed.

  Lemma sort_by_sorted l : StronglySorted le (sort_by leb l).
  Proof.
    induction l as [|x r IH]; cbn; [constructor|]. apply insert_by_sorted. exact IH.
  Qed.

  Lemma sort_by_in x l : In x (sort_by leb l) <-> In x l.
  Proof.
    split; intros H.
    - eapply Permutation_in; [apply sort_by_perm|exact H].
    - eapply Permutation_in; [apply Permutation_sym, sort_by_perm|exact H].
  Qed.

  (* the result of sorting is determined by the multiset of the input *)
  Lemma sort_by_perm_invariant l1 l2 :
    Permutation l1 l2 ->
    (forall a b, In a l1 -> In b l1 -> leb a b = true -> leb b a = true -> a = b) ->
    sort_by leb l1 = sort_by leb l2.
  Proof.
    intros Hp Hanti. apply (sorted_perm_eq A le).
    - eapply Permutation_trans; [apply sort_by_perm|].
      eapply Permutation_trans; [exact Hp|apply Permutation_sym, sort_by_perm].
    - apply sort_by_sorted.
    - apply sort_by_sorted.
    - intros a b Ha Hb. apply Hanti; apply sort_by_in; assumption.
  Qed.

  (* a sorted list is a fixed point *)
  Lemma sort_by_sorted_id l :
    StronglySorted le l ->
    (forall a b, In a l -> In b l -> leb a b = true -> leb b a = true -> a = b) ->
    sort_by leb l = l.
  Proof.
    intros Hs Hanti. apply (sorted_perm_eq A le).
    - apply sort_by_perm.
    - apply sort_by_sorted.
    - exact Hs.
    - intros a b Ha Hb. apply Hanti; apply sort_by_in; assumption.
  Qed.
End SortBy.

(* ---------------------------------------------------------------- Python's str order *)
Lemma str_ltb_irrefl a : str_ltb a a = false.
Proof. induction a as [|x a IH]; cbn; [reflexivity|]. rewrite N.ltb_irrefl. exact IH. Qed.

Lemma str_ltb_trans : forall a b c, str_ltb a b = true -> str_ltb b c = true -> str_ltb a c = true.
Proof.
  induction a as [|x a IH]; intros [|y b] [|z c] H1 H2; cbn in *; try congruence.
  destruct (N.ltb_spec x y), (N.ltb_spec y x), (N.ltb_spec y z), (N.ltb_spec z y),
    (N.ltb_spec x z), (N.ltb_spec z x); try congruence; try lia.
  eapply IH; eassumption.
Qed.

Lemma str_ltb_asym : forall a b, str_ltb a b = true -> str_ltb b a = false.
Proof.
  induction a as [|x a IH]; intros [|y b] H; cbn in *; try congruence.
  destruct (N.ltb_spec x y), (N.ltb_spec y x); try congruence; try lia.
  apply IH. exact H.
Qed.

Lemma str_ltb_tricho : forall a b, str_ltb a b = false -> str_ltb b a = false -> a = b.
Proof.
  induction a as [|x a IH]; intros [|y b] H1 H2; cbn in *; try congruence.
  destruct (N.ltb_spec x y), (N.ltb_spec y x); try congruence; try lia.
  assert (x = y) by lia. subst. f_equal. apply IH; assumption.
Qed.

Lemma str_leb_total a b : str_leb a b = false -> str_leb b a = true.
Proof.
  unfold str_leb. rewrite negb_false_iff, negb_true_iff. apply str_ltb_asym.
Qed.

Lemma str_leb_antisym a b : str_leb a b = true -> str_leb b a = true -> a = b.
Proof.
  unfold str_leb. rewrite !negb_true_iff. intros H1 H2. apply str_ltb_tricho; assumption.
Qed.

Lemma str_leb_trans a b c : str_leb a b = true -> str_leb b c = true -> str_leb a c = true.
Proof.
  unfold str_leb. rewrite !negb_true_iff. intros Hba Hcb.
  destruct (str_ltb c a) eqn:Hca; [|reflexivity]. exfalso.
  (* c < a, not b < a, not c < b *)
  destruct (str_ltb b c) eqn:Hbc.
  - rewrite (str_ltb_trans _ _ _ Hbc Hca) in Hba. discriminate.
  - assert (c = b) by (apply str_ltb_tricho; assumption). subst. congruence.
Qed.

Lemma str_leb_refl a : str_leb a a = true.
Proof. unfold str_leb. rewrite str_ltb_irrefl. reflexivity. Qed.
