(* Proofs about Model/Recur.v (property C19). *)
Require Import Lib.Base Lib.Chain Gen.Gen_parser Gen.Gen_recur Model.Params Model.Sort Model.Caseless
        Model.Text Model.Recur Proofs.SortPerm Proofs.CaselessProofs.
From Coq Require Decimal DecimalZ DecimalPos.
From Coq Require Import Lia Sorting.Permutation.

(* ---------------------------------------------------------------- split / join *)
Lemma mem_chr_app c a b : mem_chr c (a ++ b) = mem_chr c a || mem_chr c b.
Proof. induction a as [|x a IH]; cbn; [reflexivity|]. rewrite IH, orb_assoc. reflexivity. Qed.

Lemma split_nosep sep x : mem_chr sep x = false -> split_chr sep x = [x].
Proof.
  induction x as [|c r IH]; cbn; [reflexivity|]. intros H. apply orb_false_iff in H. destruct H as [H1 H2].
  rewrite N.eqb_sym, H1, (IH H2). reflexivity.
Qed.

Lemma split_app sep x rest : mem_chr sep x = false ->
  split_chr sep (x ++ sep :: rest) = x :: split_chr sep rest.
Proof.
  induction x as [|c r IH]; cbn; intros H.
  - rewrite N.eqb_refl. reflexivity.
  - apply orb_false_iff in H. destruct H as [H1 H2]. rewrite N.eqb_sym, H1, (IH H2). reflexivity.
Qed.

Lemma split_join sep l : l <> [] -> Forall (fun p => mem_chr sep p = false) l ->
  split_chr sep (join_chr sep l) = l.
Proof.
  induction l as [|x r IH]; intros Hne Hf; [contradiction|].
  inversion Hf as [|? ? Hx Hr]; subst. destruct r as [|y r'].
  - cbn. apply split_nosep. exact Hx.
  - change (join_chr sep (x :: y :: r')) with (x ++ sep :: join_chr sep (y :: r')).
    rewrite split_app by exact Hx. f_equal. apply IH; [discriminate|exact Hr].
Qed.

Lemma mem_chr_join c sep l : (c =? sep) = false -> Forall (fun p => mem_chr c p = false) l ->
  mem_chr c (join_chr sep l) = false.
Proof.
  intros Hc. induction l as [|x r IH]; intros Hf; [reflexivity|].
  inversion Hf as [|? ? Hx Hr]; subst. destruct r as [|y r'].
  - exact Hx.
  - change (join_chr sep (x :: y :: r')) with (x ++ sep :: join_chr sep (y :: r')).
    rewrite mem_chr_app. cbn [mem_chr]. rewrite Hx, Hc, (IH Hr). reflexivity.
Qed.

Lemma no_sep_parts s : no_sep s = true ->
  mem_chr 44 s = false /\ mem_chr 59 s = false /\ mem_chr 61 s = false.
Proof.
  unfold no_sep. rewrite negb_true_iff, !orb_false_iff. tauto.
Qed.

(* ---------------------------------------------------------------- map_res *)
Lemma map_res_ext_in {A B} (f g : A -> res B) l :
  (forall x, In x l -> f x = g x) -> map_res f l = map_res g l.
Proof.
  induction l as [|x r IH]; intros H; cbn; [reflexivity|].
  rewrite (H x) by (left; reflexivity). rewrite IH; [reflexivity|]. intros y Hy. apply H. right. exact Hy.
Qed.

Lemma rv_eqb_eq a b : rv_eqb a b = true -> a = b.
Proof.
  destruct a, b; cbn; try discriminate; intros H.
  - apply Z.eqb_eq in H. congruence.
  - apply andb_true_iff in H. destruct H as [H1 H2]. apply Z.eqb_eq in H1. apply eqb_prop in H2. congruence.
  - apply seqb_eq in H. congruence.
  - repeat (apply andb_true_iff in H; destruct H as [H ?]).
    repeat match goal with E : (_ =? _) = true |- _ => apply N.eqb_eq in E end. congruence.
  - repeat (apply andb_true_iff in H; destruct H as [H ?]).
    repeat match goal with E : (_ =? _) = true |- _ => apply N.eqb_eq in E end.
    match goal with E : Bool.eqb _ _ = true |- _ => apply eqb_prop in E end. congruence.
Qed.

Lemma val_ok_spec t v : val_ok t v = true ->
  exists s, enc_val t v = Ok s /\ no_sep s = true /\ dec_val t s = Ok (canon_val t v)
            /\ enc_val t (canon_val t v) = Ok s.
Proof.
  unfold val_ok. destruct (enc_val t v) as [s| | |] eqn:E; try discriminate.
  intros H. apply andb_true_iff in H. destruct H as [H H3]. apply andb_true_iff in H. destruct H as [H1 H2].
  exists s. split; [reflexivity|]. split; [exact H1|].
  destruct (dec_val t s) as [v'| | |]; try discriminate. apply rv_eqb_eq in H2. subst v'.
  split; [reflexivity|].
  destruct (enc_val t (canon_val t v)) as [s'| | |]; try discriminate. apply seqb_eq in H3. congruence.
Qed.

Lemma map_res_enc t l : forallb (val_ok t) l = true ->
  exists ts, map_res (enc_val t) l = Ok ts
    /\ Forall (fun s => no_sep s = true) ts
    /\ map_res (dec_val t) ts = Ok (map (canon_val t) l)
    /\ map_res (enc_val t) (map (canon_val t) l) = Ok ts
    /\ (l <> [] -> ts <> []).
Proof.
  induction l as [|v r IH]; cbn [forallb]; intros H.
  - exists []. cbn. repeat split; try constructor. intros X. exfalso. apply X. reflexivity.
  - apply andb_true_iff in H. destruct H as [Hv Hr].
    destruct (val_ok_spec t v Hv) as [s [E1 [E2 [E3 E4]]]].
    destruct (IH Hr) as [ts [F1 [F2 [F3 [F4 _]]]]].
    exists (s :: ts). cbn [map_res map]. rewrite E1, F1, E3, F3, E4, F4. cbn.
    repeat split; try constructor; try assumption. discriminate.
Qed.

(* ---------------------------------------------------------------- the generated tables *)
Lemma order_no_sep : forallb no_sep recur_canonical_order = true.
Proof. vm_compute. reflexivity. Qed.

Lemma order_upper : forallb is_upper_str recur_canonical_order = true.
Proof. vm_compute. reflexivity. Qed.

Lemma order_nodup : nodup_strs recur_canonical_order = true.
Proof. vm_compute. reflexivity. Qed.

Lemma in_order_facts k : mem_str k recur_canonical_order = true -> no_sep k = true /\ upper k = k.
Proof.
  intros H. apply mem_str_In in H. split.
  - exact (proj1 (forallb_forall _ _) order_no_sep k H).
  - pose proof (proj1 (forallb_forall _ _) order_upper k H) as Hu. unfold is_upper_str in Hu.
    apply seqb_eq in Hu. exact Hu.
Qed.

(* ---------------------------------------------------------------- one part *)
Definition vals_of (d : rdict) (k : str) : list rv :=
  match dict_get k d with Some vals => vals_list vals | None => [] end.
Definition cpart (d : rdict) (k : str) : str * rvals :=
  (k, Many (map (canon_val (vtype_for k)) (vals_of d k))).

Lemma canon_rule_eq d : canon_rule d = map (cpart d) (canonsort_keys (keys d) recur_canonical_order).
Proof. reflexivity. Qed.

Lemma part_roundtrip d k vals :
  dict_get k d = Some vals -> part_ok (k, vals) = true ->
  exists p, enc_part d k = Ok p
    /\ mem_chr 59 p = false
    /\ (exists vs, split_chr 61 p = [k; vs] /\ parse_type k vs = Ok (map (canon_val (vtype_for k)) (vals_list vals)))
    /\ upper k = k
    /\ map_res (enc_val (vtype_for k)) (map (canon_val (vtype_for k)) (vals_list vals))
       = map_res (enc_val (vtype_for k)) (vals_list vals).
Proof.
  intros Hget Hok. unfold part_ok in Hok. cbn [fst snd] in Hok.
  apply andb_true_iff in Hok. destruct Hok as [Hk Hv].
  destruct (in_order_facts k Hk) as [Hks Hku].
  destruct (no_sep_parts k Hks) as [_ [Hk59 Hk61]].
  assert (Hne : vals_list vals <> []) by (destruct (vals_list vals); [discriminate|discriminate]).
  assert (Hall : forallb (val_ok (vtype_for k)) (vals_list vals) = true)
    by (destruct (vals_list vals); [discriminate|exact Hv]).
  destruct (map_res_enc _ _ Hall) as [ts [F1 [F2 [F3 [F4 F5]]]]].
  assert (T44 : Forall (fun s => mem_chr 44 s = false) ts)
    by (eapply Forall_impl; [|exact F2]; intros s Hs; apply no_sep_parts in Hs; tauto).
  assert (T59 : Forall (fun s => mem_chr 59 s = false) ts)
    by (eapply Forall_impl; [|exact F2]; intros s Hs; apply no_sep_parts in Hs; tauto).
  assert (T61 : Forall (fun s => mem_chr 61 s = false) ts)
    by (eapply Forall_impl; [|exact F2]; intros s Hs; apply no_sep_parts in Hs; tauto).
  exists (k ++ 61 :: join_chr 44 ts). unfold enc_part. rewrite Hget. cbv beta iota. rewrite F1. cbn [bind].
  split; [reflexivity|]. split.
  - rewrite mem_chr_app. cbn [mem_chr]. rewrite Hk59.
    rewrite (mem_chr_join 59 44 ts) by (reflexivity || exact T59). reflexivity.
  - split; [|split; [exact Hku|rewrite F4; reflexivity]].
    exists (join_chr 44 ts). split.
    + rewrite split_app by exact Hk61. rewrite split_nosep; [reflexivity|].
      apply mem_chr_join; [reflexivity|exact T61].
    + unfold parse_type. rewrite split_join; [exact F3|apply F5; exact Hne|exact T44].
Qed.

(* ---------------------------------------------------------------- all parts *)
Lemma parts_roundtrip d : forall ks acc,
  (forall k, In k ks -> exists vals, dict_get k d = Some vals /\ part_ok (k, vals) = true) ->
  NoDup ks -> (forall k, In k ks -> ~ In k (keys acc)) ->
  exists parts, map_res (enc_part d) ks = Ok parts
    /\ Forall (fun p => mem_chr 59 p = false) parts
    /\ (ks <> [] -> parts <> [])
    /\ parse_pairs parts acc = Ok (acc ++ map (cpart d) ks).
Proof.
  induction ks as [|k r IH]; intros acc Hall Hnd Hdis.
  - exists []. cbn. rewrite app_nil_r. repeat split; try constructor. intros X. exfalso. apply X. reflexivity.
  - destruct (Hall k (or_introl eq_refl)) as [vals [Hget Hok]].
    destruct (part_roundtrip d k vals Hget Hok) as [p [E1 [E2 [[vs [E3 E4]] [E5 _]]]]].
    inversion Hnd as [|? ? Hk Hr]; subst.
    assert (Hacc : ~ In k (keys acc)) by (apply Hdis; left; reflexivity).
    destruct (IH (acc ++ [cpart d k])) as [parts [F1 [F2 [_ F4]]]].
    + intros k' Hk'. apply Hall. right. exact Hk'.
    + exact Hr.
    + intros k' Hk' Hin. unfold keys in Hin |- *. rewrite map_app in Hin. apply in_app_or in Hin.
      destruct Hin as [Hin|[Hin|[]]].
      * apply (Hdis k' (or_intror Hk')). exact Hin.
      * cbn in Hin. subst k'. contradiction.
    + exists (p :: parts). cbn [map_res]. rewrite E1, F1. cbn [bind].
      split; [reflexivity|]. split; [constructor; assumption|]. split; [discriminate|].
      cbn [parse_pairs]. rewrite E3, E4. cbn [bind]. rewrite E5.
      rewrite dict_set_notin by exact Hacc.
      unfold cpart at 1 in F4. unfold vals_of in F4. rewrite Hget in F4.
      rewrite F4. rewrite <- app_assoc. reflexivity.
Qed.

Lemma dict_get_In {V} k (d : list (str * V)) v : dict_get k d = Some v -> In (k, v) d.
Proof.
  induction d as [|[k' v'] r IH]; cbn; [discriminate|].
  destruct (str_eqb k k') eqn:E.
  - apply seqb_eq in E. subst. intros H. inversion H. left. reflexivity.
  - intros H. right. apply IH. exact H.
Qed.

Lemma keys_parts d k : rule_ok d = true -> In k (keys d) ->
  exists vals, dict_get k d = Some vals /\ part_ok (k, vals) = true.
Proof.
  intros Hok Hin. destruct (dict_get k d) as [vals|] eqn:E.
  - exists vals. split; [reflexivity|]. apply dict_get_In in E.
    exact (proj1 (forallb_forall _ _) Hok _ E).
  - apply dict_get_none in E. contradiction.
Qed.

Lemma sorted_keys_facts (d : rdict) : NoDup (keys d) ->
  let ks := canonsort_keys (keys d) recur_canonical_order in
  NoDup ks /\ (forall k, In k ks -> In k (keys d)) /\ canonsort_keys ks recur_canonical_order = ks.
Proof.
  intros Hnd ks. pose proof (canonsort_perm (keys d) recur_canonical_order) as Hp. fold ks in Hp.
  split; [|split].
  - eapply Permutation_NoDup; [apply Permutation_sym; exact Hp|exact Hnd].
  - intros k Hk. eapply Permutation_in; eassumption.
  - unfold ks at 2. apply canonsort_perm_invariant. exact Hp.
Qed.

Lemma keys_cparts d ks : keys (map (cpart d) ks) = ks.
Proof. unfold keys. rewrite map_map. cbn [cpart fst]. apply map_id. Qed.

(* from_ical (to_ical d) = canon d *)
Lemma recur_roundtrip d : NoDup (keys d) -> rule_ok d = true ->
  exists txt, recur_to_ical d = Ok txt /\ recur_from_ical txt = Ok (canon_rule d).
Proof.
  intros Hnd Hok. destruct (sorted_keys_facts d Hnd) as [Hks [Hin _]].
  set (ks := canonsort_keys (keys d) recur_canonical_order) in *.
  destruct (parts_roundtrip d ks []) as [parts [F1 [F2 [F3 F4]]]].
  - intros k Hk. apply keys_parts; [exact Hok|apply Hin; exact Hk].
  - exact Hks.
  - intros k _ [].
  - exists (join_chr 59 parts). unfold recur_to_ical. fold ks. rewrite F1. cbn [bind].
    split; [reflexivity|]. unfold recur_from_ical. rewrite canon_rule_eq. fold ks.
    destruct parts as [|p parts'].
    + destruct ks as [|k0 ks']; [|exfalso; apply F3; [discriminate|reflexivity]]. reflexivity.
    + rewrite split_join by (discriminate || exact F2). rewrite F4. cbn [app].
      f_equal. apply c_init_as_kdict. split.
      * unfold keys_upper. rewrite keys_cparts. rewrite Forall_forall. intros k Hk.
        destruct (keys_parts d k Hok (Hin k Hk)) as [vals [_ Hp]]. unfold part_ok in Hp.
        apply andb_true_iff in Hp. destruct Hp as [Hp _]. cbn [fst] in Hp.
        apply (in_order_facts k Hp).
      * rewrite keys_cparts. exact Hks.
Qed.

Lemma dict_get_cparts d ks k : In k ks -> dict_get k (map (cpart d) ks) = Some (snd (cpart d k)).
Proof.
  induction ks as [|k' r IH]; intros H; [destruct H|]. cbn [map dict_get cpart fst].
  destruct (str_eqb k k') eqn:E.
  - apply seqb_eq in E. subst. reflexivity.
  - apply seqb_neq in E. destruct H as [H|H]; [congruence|]. apply IH. exact H.
Qed.

(* to_ical (canon d) = to_ical d, hence to_ical (from_ical (to_ical d)) = to_ical d *)
Lemma recur_canon_same_text d : NoDup (keys d) -> rule_ok d = true ->
  recur_to_ical (canon_rule d) = recur_to_ical d.
Proof.
  intros Hnd Hok. destruct (sorted_keys_facts d Hnd) as [Hks [Hin Hfix]].
  set (ks := canonsort_keys (keys d) recur_canonical_order) in *.
  unfold recur_to_ical. rewrite canon_rule_eq. fold ks. rewrite keys_cparts, Hfix. fold ks.
  rewrite (map_res_ext_in (enc_part (map (cpart d) ks)) (enc_part d) ks); [reflexivity|].
  intros k Hk. unfold enc_part. rewrite dict_get_cparts by exact Hk. cbn [cpart snd vals_list].
  destruct (keys_parts d k Hok (Hin k Hk)) as [vals [Hget Hp]].
  destruct (part_roundtrip d k vals Hget Hp) as [p [_ [_ [_ [_ E]]]]].
  unfold vals_of. rewrite Hget, E. reflexivity.
Qed.

Lemma recur_new_nodup items : NoDup (keys (recur_new items)).
Proof. unfold recur_new, c_init. apply (c_update_inv rvals items [] (inv_nil rvals)). Qed.

(* ---------------------------------------------------------------- FREQ first *)
Lemma order_head : exists rest, recur_canonical_order = s2l "RSCALE" :: s2l "FREQ" :: rest
  /\ mem_str (s2l "FREQ") rest = false /\ mem_str (s2l "RSCALE") rest = false.
Proof. eexists. vm_compute. repeat split; reflexivity. Qed.

Lemma nodup_strs_NoDup l : nodup_strs l = true -> NoDup l.
Proof.
  induction l as [|x r IH]; cbn; intros H; constructor.
  - apply andb_true_iff in H. destruct H as [H _]. apply negb_true_iff, mem_str_false in H. exact H.
  - apply IH. apply andb_true_iff in H. tauto.
Qed.

Lemma freq_first_keys ks : NoDup ks -> In (s2l "FREQ") ks ->
  exists rest, canonsort_keys ks recur_canonical_order = s2l "FREQ" :: rest
            \/ canonsort_keys ks recur_canonical_order = s2l "RSCALE" :: s2l "FREQ" :: rest.
Proof.
  intros Hnd Hin. rewrite canonsort_declared_order; [|apply nodup_strs_NoDup, order_nodup|exact Hnd].
  destruct order_head as [rest [E _]]. rewrite E. cbn [filter].
  apply mem_str_In in Hin. rewrite Hin.
  destruct (mem_str (s2l "RSCALE") ks); eexists; [right|left]; reflexivity.
Qed.

(* ---------------------------------------------------------------- leaf codecs: sufficient conditions for val_ok *)
Lemma digit_not_fancy c : is_digit c = true -> int_fancy c = false /\ (c =? 45) = false /\ (c =? 43) = false
  /\ (c =? 44) = false /\ (c =? 59) = false /\ (c =? 61) = false.
Proof.
  unfold is_digit, int_fancy. intros H. apply andb_true_iff in H. destruct H as [H1 H2].
  apply N.leb_le in H1, H2.
  assert (E1 : (c =? 32) = false) by (apply N.eqb_neq; lia).
  assert (E2 : (c <=? 13) = false) by (apply N.leb_gt; lia).
  assert (E3 : (c <=? 31) = false) by (apply N.leb_gt; lia).
  assert (E4 : (c =? 95) = false) by (apply N.eqb_neq; lia).
  rewrite E1, E2, E3, E4, !andb_false_r. cbn.
  repeat split; apply N.eqb_neq; lia.
Qed.

Lemma uint_str_digits u : forallb is_digit (uint_str u) = true.
Proof. induction u; cbn; try reflexivity; exact IHu. Qed.

Lemma str_uint_uint_str u : str_uint (uint_str u) = Some u.
Proof. induction u; cbn; try reflexivity; rewrite IHu; reflexivity. Qed.

Lemma digits_no c s : forallb is_digit s = true -> is_digit c = false -> mem_chr c s = false.
Proof.
  induction s as [|x r IH]; cbn; [reflexivity|]. rewrite andb_true_iff. intros [H1 H2] Hc.
  rewrite (IH H2 Hc), orb_false_r. apply N.eqb_neq. intros ->. congruence.
Qed.

Lemma digits_not_fancy s : forallb is_digit s = true -> existsb int_fancy s = false.
Proof.
  induction s as [|x r IH]; cbn; [reflexivity|]. rewrite andb_true_iff. intros [H1 H2].
  rewrite (IH H2). destruct (digit_not_fancy x H1) as [-> _]. reflexivity.
Qed.


Lemma uint_str_nonnil u : u <> Decimal.Nil -> uint_str u <> [].
Proof. destruct u; cbn; intros H; try discriminate. contradiction. Qed.

Lemma py_int_digits s u : s <> [] -> forallb is_digit s = true -> str_uint s = Some u ->
  py_int s = Ok (Z.of_int (Decimal.Pos u)).
Proof.
  intros Hne Hd Hu. unfold py_int. rewrite (digits_not_fancy s Hd).
  destruct s as [|c r]; [contradiction|]. cbn [forallb] in Hd. apply andb_true_iff in Hd.
  destruct (digit_not_fancy c (proj1 Hd)) as [_ [E45 [E43 _]]]. rewrite E45, E43. rewrite Hu. reflexivity.
Qed.

Lemma py_int_neg_digits s u : s <> [] -> forallb is_digit s = true -> str_uint s = Some u ->
  py_int (45 :: s) = Ok (Z.of_int (Decimal.Neg u)).
Proof.
  intros Hne Hd Hu. unfold py_int. cbn [existsb]. rewrite (digits_not_fancy s Hd).
  change (int_fancy 45) with false. cbn [orb]. change (45 =? 45) with true. cbv iota beta.
  destruct s as [|c r]; [contradiction|]. rewrite Hu. reflexivity.
Qed.

(* int(str(z)) = z for every integer *)
Lemma py_int_dec_Z z : py_int (dec_Z z) = Ok z.
Proof.
  destruct z as [|p|p].
  - vm_compute. reflexivity.
  - unfold dec_Z. change (Z.to_int (Z.pos p)) with (Decimal.Pos (Pos.to_uint p)). cbv iota beta.
    rewrite (py_int_digits _ (Pos.to_uint p)).
    + f_equal. exact (DecimalZ.of_to (Z.pos p)).
    + apply uint_str_nonnil, DecimalPos.Unsigned.to_uint_nonnil.
    + apply uint_str_digits.
    + apply str_uint_uint_str.
  - unfold dec_Z. change (Z.to_int (Z.neg p)) with (Decimal.Neg (Pos.to_uint p)). cbv iota beta.
    rewrite (py_int_neg_digits _ (Pos.to_uint p)).
    + f_equal. exact (DecimalZ.of_to (Z.neg p)).
    + apply uint_str_nonnil, DecimalPos.Unsigned.to_uint_nonnil.
    + apply uint_str_digits.
    + apply str_uint_uint_str.
Qed.

Lemma dec_Z_no_sep z : no_sep (dec_Z z) = true.
Proof.
  assert (D : forall u c, is_digit c = false -> mem_chr c (uint_str u) = false)
    by (intros u c Hc; apply digits_no; [apply uint_str_digits|exact Hc]).
  unfold no_sep, dec_Z. destruct (Z.to_int z) as [u|u]; cbn [mem_chr];
    rewrite !D by reflexivity; reflexivity.
Qed.

(* every integer value of an integer part is in the domain *)
Lemma val_ok_int z : val_ok TInt (RInt z) = true.
Proof.
  unfold val_ok. cbn [enc_val canon_val dec_val]. rewrite dec_Z_no_sep, py_int_dec_Z. cbn [bind rv_eqb].
  rewrite Z.eqb_refl, seqb_refl. reflexivity.
Qed.

(* every frequency name in any letter case *)
Lemma freq_table_ok : forallb (fun f => no_sep f && is_upper_str f) frequency_names = true.
Proof. vm_compute. reflexivity. Qed.

Lemma val_ok_freq s : mem_str (upper s) frequency_names = true -> val_ok TFreq (RStr s) = true.
Proof.
  intros H. unfold val_ok. cbn [enc_val canon_val dec_val]. unfold vfrequency.
  repeat (rewrite ?upper_idem, ?H; cbn [bind rv_eqb]).
  rewrite !seqb_refl.
  apply mem_str_In in H. pose proof (proj1 (forallb_forall _ _) freq_table_ok _ H) as Ht.
  apply andb_true_iff in Ht. rewrite (proj1 Ht). reflexivity.
Qed.

(* every SKIP value of the generated enumeration *)
Lemma skip_table_ok : forallb (fun s => val_ok TSkip (RStr s)) skip_values = true.
Proof. vm_compute. reflexivity. Qed.

Lemma val_ok_skip s : mem_str s skip_values = true -> val_ok TSkip (RStr s) = true.
Proof. intros H. apply mem_str_In in H. exact (proj1 (forallb_forall _ _) skip_table_ok _ H). Qed.

(* every RFC weekdaynum ([[+/-] 1..53] SU..SA), as a finite table over the generated weekday names *)
Definition all_weekdaynums : list str :=
  flat_map (fun d => d :: flat_map (fun n => [dec_Z (Z.of_nat n) ++ d; 43 :: dec_Z (Z.of_nat n) ++ d; 45 :: dec_Z (Z.of_nat n) ++ d])
                                   (seq 1 53)) (map fst weekday_table).

Lemma weekdaynum_table_ok :
  forallb (fun s => val_ok TWeekday (RStr s) && g_weekdaynum s) all_weekdaynums = true
  /\ List.length all_weekdaynums = 1120%nat.
Proof. vm_compute. split; reflexivity. Qed.

(* generated names agree with the RFC lists the recogniser is written from *)
Lemma tables_match_rfc :
  forallb (fun f => mem_str f rfc_freqs) frequency_names = true
  /\ forallb (fun f => mem_str f frequency_names) rfc_freqs = true
  /\ forallb (fun s => mem_str s rfc_skips) skip_values = true
  /\ forallb (fun s => mem_str s skip_values) rfc_skips = true
  /\ forallb (fun d => mem_str d rfc_weekdays) (map fst weekday_table) = true
  /\ forallb (fun d => mem_str d (map fst weekday_table)) rfc_weekdays = true.
Proof. vm_compute. repeat split; reflexivity. Qed.
