(* Proofs about Model/UsedTz.v (property C18). *)
Require Import Lib.Base Lib.Chain Gen.Gen_parser Gen.Gen_cal Model.Text Model.Params Model.Contentline Model.Tree Model.TreeOps Model.UsedTz.
Require Import Proofs.ChainProofs Proofs.ParamsProofs Proofs.TreeProofs Proofs.WalkEqProofs.
From Coq Require Import Lia Arith Permutation.

Definition item_tz (it : prop_line) : list pval := match tzid_of (snd (fst it)) with Some t => [t] | None => [] end.

Lemma used_tzids_unfold c : used_tzids c = flat_map item_tz (property_items false c).
Proof. reflexivity. Qed.

Lemma flat_map_map {A B C} (f : B -> list C) (g : A -> B) l : flat_map f (map g l) = flat_map (fun x => f (g x)) l.
Proof. induction l as [|x l IH]; [reflexivity|]. cbn [map flat_map]. rewrite IH. reflexivity. Qed.

Lemma flat_map_flat_map {A B C} (f : B -> list C) (g : A -> list B) l :
  flat_map f (flat_map g l) = flat_map (fun x => flat_map f (g x)) l.
Proof. induction l as [|x l IH]; [reflexivity|]. cbn [flat_map]. rewrite flat_map_app', IH. reflexivity. Qed.

Lemma flat_map_ext_in' {A B} (f g : A -> list B) : forall l, (forall x, In x l -> f x = g x) -> flat_map f l = flat_map g l.
Proof.
  induction l as [|x l IH]; intros H; [reflexivity|]. cbn [flat_map]. rewrite (H x (or_introl eq_refl)). f_equal.
  apply IH. intros y Hy. apply H. right. exact Hy.
Qed.

Lemma own_items_nodup ps n es subs : NoDup (map fst ps) ->
  flat_map item_tz (own_items false (Comp n ps subs es)) = comp_tzids (Comp n ps subs es).
Proof.
  intros Hnd. rewrite own_items_keys. cbn [c_props c_name emit_keys]. unfold comp_tzids. cbn [c_props].
  rewrite flat_map_map, flat_map_flat_map. apply flat_map_ext_in'.
  intros [k e] Hin. cbn [fst snd]. unfold key_items.
  rewrite (dict_get_nodup_in ps k e Hnd Hin). rewrite flat_map_map. reflexivity.
Qed.

(* the reported used ids are exactly the TZID parameters of every value of every nested component *)
Theorem used_complete : forall t, tree_nodup t = true -> used_tzids t = all_tzids t.
Proof.
  induction t as [n ps subs es IH] using comp_ind'. intros Hnd. cbn [tree_nodup] in Hnd.
  apply andb_true_iff in Hnd. destruct Hnd as [Hnd Hsubs]. apply nodup_strs_spec in Hnd.
  rewrite used_tzids_unfold. cbn [property_items]. cbn [flat_map]. unfold item_tz at 1. cbn [fst snd tzid_of dict_get app].
  rewrite !flat_map_app'. cbn [flat_map]. unfold item_tz at 3. cbn [fst snd tzid_of dict_get app]. rewrite app_nil_r.
  unfold all_tzids. cbn [preorder flat_map]. f_equal.
  - apply (own_items_nodup ps n es subs Hnd).
  - rewrite !flat_map_flat_map. clear -IH Hsubs. induction subs as [|s subs IHs]; [reflexivity|].
    inversion IH as [|s' subs' Hs HF]; subst. cbn [forallb] in Hsubs. apply andb_true_iff in Hsubs.
    destruct Hsubs as [H1 H2]. cbn [flat_map]. rewrite <- used_tzids_unfold, (Hs H1). unfold all_tzids at 1.
    f_equal. apply IHs; assumption.
Qed.

(* ------------------------------------------------------------------ missing = used minus the defined ones *)
Lemma discard_str_spec x : forall l, NoDup l -> discard_str x l = filter (fun y => negb (str_eqb x y)) l.
Proof.
  induction l as [|y l IH]; intros Hnd; [reflexivity|]. inversion Hnd as [|y' l' Hy Hnd']; subst.
  cbn [discard_str filter]. destruct (str_eqb x y) eqn:E.
  - apply str_eqb_eq in E. subst y. cbn [negb]. symmetry. apply filter_all.
    apply forallb_forall. intros z Hz. apply negb_true_iff. destruct (str_eqb x z) eqn:E2; [|reflexivity].
    apply str_eqb_eq in E2. subst z. contradiction.
  - cbn [negb]. rewrite (IH Hnd'). reflexivity.
Qed.

Lemma filter_filter_names n names : forall ids,
  filter (fun y => negb (mem_str y names)) (filter (fun y => negb (str_eqb n y)) ids) =
  filter (fun y => negb (mem_str y (n :: names))) ids.
Proof.
  induction ids as [|y ids IH]; [reflexivity|]. cbn [filter]. unfold mem_str at 2. cbn [existsb].
  rewrite (str_eqb_sym y n). destruct (str_eqb n y) eqn:E; cbn [negb orb].
  - exact IH.
  - cbn [filter]. fold (mem_str y names). destruct (negb (mem_str y names)); [f_equal|]; exact IH.
Qed.

Lemma remove_all_spec : forall tzs names ids,
  Forall2 (fun tz n => tz_name tz = Ok n) tzs names -> NoDup ids ->
  remove_all tzs ids = Ok (filter (fun y => negb (mem_str y names)) ids).
Proof.
  induction tzs as [|tz tzs IH]; intros names ids HF Hni.
  - inversion HF; subst. cbn [remove_all]. f_equal. symmetry. apply filter_all. apply forallb_forall. reflexivity.
  - inversion HF as [|tz' n tzs' names' Hn HF']; subst.
    cbn [remove_all]. rewrite Hn. cbn [bind]. rewrite (discard_str_spec n ids Hni).
    rewrite (IH names' _ HF' (NoDup_filter _ Hni)). f_equal. apply filter_filter_names.
Qed.

Lemma dedupe_nodup : forall l, NoDup (dedupe_strs l).
Proof.
  induction l as [|x l IH]; [constructor|]. cbn [dedupe_strs]. destruct (mem_str x l) eqn:E; [exact IH|].
  constructor; [|exact IH]. intros Hin.
  assert (forall l', In x (dedupe_strs l') -> In x l') as Hsub.
  { induction l' as [|y l' IH']; [auto|]. cbn [dedupe_strs]. destruct (mem_str y l'); intros H; [right; auto|].
    destruct H as [->|H]; [left; reflexivity|right; auto]. }
  apply Hsub in Hin. unfold mem_str in E.
  assert (existsb (str_eqb x) l = true) by (apply existsb_exists; exists x; split; [exact Hin|apply str_eqb_eq; reflexivity]).
  congruence.
Qed.

Lemma used_set_nodup t used : used_set t = Ok used -> NoDup used.
Proof.
  unfold used_set. destruct (strs_of_pvals (used_tzids t)); try discriminate. cbn [bind]. intros H.
  inversion H. apply dedupe_nodup.
Qed.

(* whenever every VTIMEZONE has a single TZID: missing = the used ids that no VTIMEZONE defines
   (used or not, repeated or not: the query does not fail) *)
Theorem missing_spec t used names :
  used_set t = Ok used -> Forall2 (fun tz n => tz_name tz = Ok n) (timezones t) names ->
  missing_set t = Ok (filter (fun y => negb (mem_str y names)) used).
Proof.
  intros Hu HF. unfold missing_set. rewrite Hu. cbn [bind].
  apply remove_all_spec; [exact HF|apply (used_set_nodup t used Hu)].
Qed.

(* a VTIMEZONE without TZID still makes the query fail (known finding C18-F1) *)
Lemma missing_refuted_notzid : exists t, missing_set t = Escape (s2l "KeyError").
Proof. exists (Comp (s2l "VCALENDAR") [] [Comp (s2l "VTIMEZONE") [] [] []] []). reflexivity. Qed.

(* ------------------------------------------------------------------ add_missing_timezones *)
Lemma remove_all_app : forall a b ids,
  remove_all (a ++ b) ids = bind (remove_all a ids) (fun ids' => remove_all b ids').
Proof.
  induction a as [|tz a IH]; intros b ids; [reflexivity|]. cbn [app remove_all].
  destruct (tz_name tz) as [n| | |]; cbn [bind]; try reflexivity. apply IH.
Qed.

Lemma remove_all_nodup : forall tzs ids r, NoDup ids -> remove_all tzs ids = Ok r -> NoDup r.
Proof.
  induction tzs as [|tz tzs IH]; intros ids r Hnd H; cbn [remove_all] in H; [inversion H; subst; exact Hnd|].
  destruct (tz_name tz) as [nm| | |]; cbn [bind] in H; try discriminate.
  apply (IH (discard_str nm ids) r); [|exact H]. rewrite (discard_str_spec nm ids Hnd). apply NoDup_filter. exact Hnd.
Qed.

Section AddMissing.
  Variable gen : list N -> option comp.
  Variable order : list (list N) -> list (list N).
  (* Timezone.from_tzid(z) is a VTIMEZONE named z whose own values carry no TZID parameter *)
  Hypothesis gen_ok : forall z tz, gen z = Some tz ->
    tz_name tz = Ok z /\ used_tzids tz = [] /\ timezones tz = [tz].
  Hypothesis order_perm : forall l, Permutation (order l) l.

  Definition generated (ms : list (list N)) : list comp :=
    flat_map (fun z => match gen z with Some tz => [tz] | None => [] end) (order ms).
  Definition known (l : list (list N)) : list (list N) :=
    filter (fun z => match gen z with Some _ => true | None => false end) l.

  Lemma generated_names ms : Forall2 (fun tz n => tz_name tz = Ok n) (generated ms) (known (order ms)).
  Proof.
    unfold generated, known. induction (order ms) as [|z l IH]; [constructor|]. cbn [flat_map filter].
    destruct (gen z) as [tz|] eqn:E; [|exact IH]. cbn [app]. constructor; [apply (gen_ok z tz E)|exact IH].
  Qed.

  Lemma used_tzids_extra n ps subs es extra : (forall tz, In tz extra -> used_tzids tz = []) ->
    used_tzids (Comp n ps (subs ++ extra) es) = used_tzids (Comp n ps subs es).
  Proof.
    intros H.
    assert (flat_map item_tz (flat_map (property_items false) extra) = []) as E.
    { rewrite flat_map_flat_map. induction extra as [|tz extra IH]; [reflexivity|]. cbn [flat_map].
      rewrite <- used_tzids_unfold, (H tz (or_introl eq_refl)). apply IH. intros tz' Hin. apply H. right. exact Hin. }
    rewrite !used_tzids_unfold. cbn [property_items].
    rewrite (flat_map_app' (property_items false) subs extra).
    cbn [flat_map]. rewrite !flat_map_app'. rewrite E, app_nil_r. reflexivity.
  Qed.

  Lemma timezones_extra n ps subs es extra : str_eqb n (s2l "VTIMEZONE") = false ->
    (forall tz, In tz extra -> timezones tz = [tz]) ->
    timezones (Comp n ps (subs ++ extra) es) = timezones (Comp n ps subs es) ++ extra.
  Proof.
    intros Hroot H. unfold timezones, walk. cbn [option_map walk_raw].
    change (upper (s2l "VTIMEZONE")) with (s2l "VTIMEZONE"). rewrite Hroot. cbn [app].
    rewrite flat_map_app'. f_equal.
    induction extra as [|tz extra IH]; [reflexivity|]. cbn [flat_map].
    pose proof (H tz (or_introl eq_refl)) as E. unfold timezones, walk in E. cbn [option_map] in E.
    change (upper (s2l "VTIMEZONE")) with (s2l "VTIMEZONE") in E. rewrite E.
    cbn [app]. f_equal. apply IH. intros tz' Hin. apply H. right. exact Hin.
  Qed.

  Lemma generated_in ms tz : In tz (generated ms) -> exists z, gen z = Some tz.
  Proof.
    unfold generated. intros H. apply in_flat_map in H. destruct H as (z & _ & Hz).
    destruct (gen z) as [tz'|] eqn:E; [|contradiction]. destruct Hz as [<-|[]]. exists z. exact E.
  Qed.

  (* after the call: the used ids are unchanged, every used id the provider knows has left the missing set,
     the ids it does not know are still missing *)
  Theorem add_missing_spec t ms t' : str_eqb (c_name t) (s2l "VTIMEZONE") = false ->
    missing_set t = Ok ms -> add_missing gen order t = Ok t' ->
    used_tzids t' = used_tzids t /\
    missing_set t' = Ok (filter (fun y => negb (mem_str y (known (order ms)))) ms).
  Proof.
    intros Hroot Hm Ha. unfold add_missing in Ha. rewrite Hm in Ha. cbn [bind] in Ha.
    destruct t as [n ps subs es]. cbn [c_name] in Hroot. inversion Ha; subst t'. clear Ha. fold (generated ms).
    assert (Hu : used_tzids (Comp n ps (subs ++ generated ms) es) = used_tzids (Comp n ps subs es)).
    { apply used_tzids_extra. intros tz Hin. destruct (generated_in ms tz Hin) as [z Hz]. apply (gen_ok z tz Hz). }
    split; [exact Hu|].
    unfold missing_set in *. unfold used_set in *. rewrite Hu.
    destruct (strs_of_pvals (used_tzids (Comp n ps subs es))) as [l| | |]; cbn [bind] in *; try discriminate.
    rewrite (timezones_extra n ps subs es _ Hroot) by (intros tz Hin; destruct (generated_in ms tz Hin) as [z Hz]; apply (gen_ok z tz Hz)).
    rewrite remove_all_app, Hm. cbn [bind].
    apply (remove_all_spec (generated ms) (known (order ms)) ms (generated_names ms)).
    apply (remove_all_nodup (timezones (Comp n ps subs es)) (dedupe_strs l) ms (dedupe_nodup l) Hm).
  Qed.

  (* repeating the call adds nothing *)
  Theorem add_missing_idempotent t ms t' : str_eqb (c_name t) (s2l "VTIMEZONE") = false ->
    missing_set t = Ok ms -> add_missing gen order t = Ok t' ->
    add_missing gen order t' = Ok t'.
  Proof.
    intros Hroot Hm Ha. destruct (add_missing_spec t ms t' Hroot Hm Ha) as [_ Hm']. unfold add_missing. rewrite Hm'. cbn [bind].
    destruct t' as [n ps subs es]. f_equal. f_equal. rewrite <- (app_nil_r subs) at 2. f_equal.
    set (ms' := filter (fun y => negb (mem_str y (known (order ms)))) ms).
    assert (forall z, In z (order ms') -> gen z = None) as Hnone.
    { intros z Hz. apply (Permutation_in _ (order_perm ms')) in Hz. unfold ms' in Hz. apply filter_In in Hz.
      destruct Hz as [Hin Hnk]. apply negb_true_iff in Hnk. destruct (gen z) as [tz|] eqn:E; [|reflexivity]. exfalso.
      assert (mem_str z (known (order ms)) = true) as Ht.
      { unfold mem_str. apply existsb_exists. exists z. split; [|apply str_eqb_eq; reflexivity].
        unfold known. apply filter_In. split; [apply (Permutation_in _ (Permutation_sym (order_perm ms)) Hin)|rewrite E; reflexivity]. }
      congruence. }
    induction (order ms') as [|z l IH]; [reflexivity|]. cbn [flat_map]. rewrite (Hnone z (or_introl eq_refl)). cbn [app].
    apply IH. intros z' Hz'. apply Hnone. right. exact Hz'.
  Qed.
End AddMissing.
