(* Proofs for Model/TzId.v (C11). *)
Require Import Lib.Base Model.TzRules Model.TzId Gen.Gen_tz Proofs.TzRulesProofs.
From Coq Require Import ZArith List Bool Lia String.
Import ListNotations.
Open Scope Z_scope.

Section TzIdProofs.
  Variable tz : Type.
  Variable tzids : tz -> list (list N).
  Variable tzname : tz -> Z -> option (list N).
  Variable P : provider tz.

  Notation to_ical := (vdatetime_to_ical tz tzids tzname).
  Notation from_ical := (vdatetime_from_ical tz P).
  Notation mkDt := (mkDt tz).

  (* a zone object of the provider: exactly one id, not "UTC", not empty *)
  Definition keyed (z : tz) (k : list N) : Prop := tzids z = [k] /\ str_eqb k UTCs = false /\ k <> [].

  Lemma tzid_keyed : forall z k, keyed z k -> tzid_from_tzinfo tz tzids (Some z) = Some k.
  Proof.
    intros z k (Hids & Hne & Hnn). unfold tzid_from_tzinfo. rewrite Hids. cbn [mem_str hd_error].
    rewrite (str_eqb_sym UTCs k), Hne. reflexivity.
  Qed.

  Lemma tzid_dt_keyed : forall z k w o, keyed z k ->
    tzid_from_dt tz tzids tzname (mkDt w (Some (z, o))) = Some k.
  Proof. intros z k w o Hk. unfold tzid_from_dt. cbn [d_tz]. rewrite (tzid_keyed z k Hk). reflexivity. Qed.

  Lemma to_ical_keyed : forall z k w o, keyed z k ->
    to_ical (mkDt w (Some (z, o))) = mkWire w false (Some k).
  Proof.
    intros z k w o Hk. unfold vdatetime_to_ical. rewrite (tzid_dt_keyed z k w o Hk).
    destruct Hk as (Hids & Hne & Hnn). rewrite Hne. destruct k; [congruence|reflexivity].
  Qed.

  (* zoned_rt *)
  Lemma zoned_rt : forall z z0 k w o,
    keyed z k -> p_timezone tz P k = Some z0 ->
    let wr := to_ical (mkDt w (Some (z, o))) in
    wr = mkWire w false (Some k) /\ from_ical wr = p_localize tz P z0 w.
  Proof.
    intros z z0 k w o Hk Hl. cbv zeta. rewrite (to_ical_keyed z k w o Hk). split; auto.
    unfold vdatetime_from_ical. simpl. rewrite Hl. reflexivity.
  Qed.

  (* utc_form *)
  Lemma utc_form : forall z w o, mem_str UTCs (tzids z) = true ->
    to_ical (mkDt w (Some (z, o))) = mkWire w true None /\
    from_ical (mkWire w true None) = mkDt w (Some (p_utc tz P)).
  Proof.
    intros z w o Hm. unfold vdatetime_to_ical, tzid_from_dt, tzid_from_tzinfo. cbn [d_tz d_wall]. rewrite Hm.
    rewrite str_eqb_refl. split; reflexivity.
  Qed.

  (* utc_props *)
  Lemma utc_props : forall lname z w o, mem_str lname utc_forced_names = true ->
    mem_str UTCs (tzids (fst (p_utc tz P))) = true ->
    to_ical (add_value tz P lname (mkDt w (Some (z, o)))) = mkWire (w - o) true None.
  Proof.
    intros lname z w o Hn Hu. unfold add_value. rewrite Hn. unfold localize_utc. simpl.
    destruct (p_utc tz P) as [u ou] eqn:E. simpl in Hu. apply utc_form. exact Hu.
  Qed.

  (* lists on the guard "all entries share one zone object" *)
  Lemma list_tzid_same : forall z k l acc, keyed z k ->
    (forall d, In d l -> exists w o, d = mkDt w (Some (z, o))) ->
    fold_left (fun acc d => match elt_tzid tz tzids tzname d with Some i => Some i | None => acc end) l acc
    = match l with [] => acc | _ => Some k end.
  Proof.
    intros z k l. induction l as [|d l IH]; intros acc Hk Hall; [reflexivity|].
    destruct (Hall d (or_introl eq_refl)) as (w & o & ->). simpl.
    assert (elt_tzid tz tzids tzname (mkDt w (Some (z, o))) = Some k) as E.
    { unfold elt_tzid. rewrite (tzid_dt_keyed z k w o Hk). destruct Hk as (Hids & Hne & Hnn). rewrite Hne. reflexivity. }
    rewrite E. rewrite IH; auto. destruct l; reflexivity. intros; apply Hall; right; auto.
  Qed.

  Lemma list_rt : forall z z0 k ws,
    keyed z k -> p_timezone tz P k = Some z0 -> ws <> [] ->
    let l := map (fun wo : Z * Z => mkDt (fst wo) (Some (z, snd wo))) ws in
    fst (list_to_ical tz tzids tzname l) = Some k /\
    list_from_ical tz P (list_to_ical tz tzids tzname l) = map (fun wo => p_localize tz P z0 (fst wo)) ws.
  Proof.
    intros z z0 k ws Hk Hl Hne. cbv zeta. split.
    - unfold list_to_ical, list_tzid. simpl. rewrite (list_tzid_same z k _ None Hk).
      + destruct ws; [congruence|reflexivity].
      + intros d Hd. apply in_map_iff in Hd. destruct Hd as ([w o] & E & _). eauto.
    - unfold list_from_ical, list_to_ical. cbn [fst snd]. unfold list_tzid.
      rewrite (list_tzid_same z k _ None Hk).
      + rewrite !map_map. destruct ws as [|x r]; [congruence|]. apply map_ext. intros [w o]. cbn [fst snd].
        rewrite (to_ical_keyed z k w o Hk). unfold vdatetime_from_ical. cbn [w_tzid w_wall w_z fst snd map]. rewrite Hl. reflexivity.
      + intros d Hd. apply in_map_iff in Hd. destruct Hd as ([w o] & E & _). eauto.
  Qed.

  Lemma period_rt : forall z z0 k w1 o1 w2 o2,
    keyed z k -> p_timezone tz P k = Some z0 ->
    let p := period_to_ical tz tzids tzname (mkDt w1 (Some (z, o1))) (mkDt w2 (Some (z, o2))) in
    fst p = Some k /\ period_from_ical tz P p = (p_localize tz P z0 w1, p_localize tz P z0 w2).
  Proof.
    intros z z0 k w1 o1 w2 o2 Hk Hl. cbv zeta. unfold period_to_ical, period_from_ical.
    rewrite !(to_ical_keyed z k _ _ Hk). rewrite (tzid_dt_keyed z k w1 o1 Hk). destruct Hk as (Hids & Hne & Hnn).
    destruct k as [|c k]; [congruence|]. cbn [fst snd w_wall w_z]. split; auto.
    unfold vdatetime_from_ical. cbn [w_tzid w_wall]. rewrite Hl. reflexivity.
  Qed.
End TzIdProofs.

(* ------------------------------------------------------------------ a concrete provider for the witnesses *)
Definition xBerlin : list N := s2l "Europe/Berlin".
Definition xNY : list N := s2l "America/New_York".
Definition x_tzids (z : Z) : list (list N) := if z =? 0 then [UTCs] else if z =? 1 then [xBerlin] else [xNY].
Definition x_off (z : Z) : Z := if z =? 0 then 0 else if z =? 1 then 7200 else -14400.
Definition x_tzname (z w : Z) : option (list N) := None.
Definition xP : provider Z :=
  mkProv Z (fun k => if str_eqb k UTCs then Some 0 else if str_eqb k xBerlin then Some 1
                     else if str_eqb k xNY then Some 2 else None)
           (fun z w => mkDt Z w (Some (z, x_off z))) (0, 0).
Definition xdt (w z : Z) : dt Z := mkDt Z w (Some (z, x_off z)).

Lemma x_good :
  keyed Z x_tzids 1 xBerlin /\ p_timezone Z xP xBerlin = Some 1 /\
  vdatetime_to_ical Z x_tzids x_tzname (xdt 1591012800 1) = mkWire 1591012800 false (Some xBerlin) /\
  vdatetime_from_ical Z xP (mkWire 1591012800 false (Some xBerlin)) = xdt 1591012800 1.
Proof. repeat split; try reflexivity. discriminate. Qed.

(* a list with a Berlin, a New York and a UTC entry: TZID = New York for all three *)
Lemma x_mixed_list :
  let l := [xdt 1000 1; xdt 2000 2; xdt 3000 0] in
  list_to_ical Z x_tzids x_tzname l =
    (Some xNY, [mkWire 1000 false None; mkWire 2000 false None; mkWire 3000 true None]) /\
  list_from_ical Z xP (list_to_ical Z x_tzids x_tzname l) = [xdt 1000 2; xdt 2000 2; xdt 3000 2].
Proof. vm_compute. split; reflexivity. Qed.

(* a UTC period carries TZID=UTC together with the Z form *)
Lemma x_utc_period :
  period_to_ical Z x_tzids x_tzname (xdt 1000 0) (xdt 2000 0) =
  (Some UTCs, (mkWire 1000 true None, mkWire 2000 true None)).
Proof. vm_compute. reflexivity. Qed.

(* ACKNOWLEDGED is not among the names Component.add forces to UTC *)
Lemma x_acknowledged :
  mem_str (s2l "acknowledged") utc_forced_names = false /\
  vdatetime_to_ical Z x_tzids x_tzname (add_value Z xP (s2l "acknowledged") (xdt 1000 1)) =
  mkWire 1000 false (Some xBerlin) /\
  vdatetime_to_ical Z x_tzids x_tzname (add_value Z xP (s2l "dtstamp") (xdt 10000 1)) = mkWire 2800 true None.
Proof. vm_compute. repeat split; reflexivity. Qed.
