(* Proofs about Model/Alarm.v: C15 (an alarm is active iff not acknowledged at/after its
   snoozed trigger). *)
Require Import Lib.Base Model.Params Gen.Gen_sched Model.StartEnd Model.Alarm.
From Coq Require Import ZArith List Bool Lia ZifyBool.
Local Open Scope Z_scope.

Lemma max_opt_spec : forall a b,
  max_opt a b = match a, b with
                | None, None => None
                | Some x, None => Some x
                | None, Some y => Some y
                | Some x, Some y => Some (Z.max x y)
                end.
Proof. intros [x|] [y|]; reflexivity. Qed.

Lemma acknowledged_spec : forall x,
  acknowledged x = match at_alarm_ack x, at_last_ack x with
                   | None, None => None
                   | Some a, None => Some a
                   | None, Some b => Some b
                   | Some a, Some b => Some (Z.max a b)
                   end.
Proof. intros x. apply max_opt_spec. Qed.

(* ------------------------------------------------------------------ the reported trigger *)
Lemma snooze_moves_trigger : forall o x,
  not_date_trigger x = true -> snooze_ok x = true ->
  at_trigger_prop o x = SOk (spec_trigger o (at_trigger x) (at_snooze x)).
Proof.
  intros o [tr aa la sn] Hd Hs. unfold at_trigger_prop, spec_trigger, not_date_trigger, snooze_ok, floating in *.
  simpl in *. destruct sn as [sn|]; [|reflexivity].
  destruct tr as [d|s|s|k s]; simpl in *; try discriminate; try reflexivity.
  - destruct (s <? sn); reflexivity.
  - destruct (s - zoff o k s <? sn); reflexivity.
Qed.

(* ------------------------------------------------------------------ the decision table *)
Lemma active_table : forall o x,
  not_date_trigger x = true -> snooze_ok x = true ->
  is_active o x =
  if needs_trigger (at_alarm_ack x) (at_last_ack x) (at_snooze x) && floating x
  then SVal LocalTzMissing
  else SOk (spec_active (instant o (at_trigger x)) (at_alarm_ack x) (at_last_ack x) (at_snooze x)).
Proof.
  intros o x Hd Hs. unfold is_active. rewrite (snooze_moves_trigger o x Hd Hs).
  destruct x as [tr aa la sn]. unfold acknowledged, needs_trigger, spec_active, spec_ack, spec_trigger,
    not_date_trigger, snooze_ok, floating in *. simpl in *.
  destruct (max_opt aa la) as [a|]; [|reflexivity].
  destruct sn as [sn|].
  - destruct (a <? sn) eqn:E1; simpl; [reflexivity|].
    destruct tr as [d|s|s|k s]; simpl in *; try discriminate.
    + destruct (s <? sn) eqn:E2; simpl; rewrite ?E1; simpl; f_equal; lia.
    + destruct (s - zoff o k s <? sn) eqn:E2; simpl; rewrite ?E1; simpl; f_equal; lia.
  - destruct tr as [d|s|s|k s]; simpl in *; try discriminate; reflexivity.
Qed.

(* floating triggers exist only when no local zone is set *)
Lemma localize_not_floating : forall o L t t',
  localize o (Some L) t = SOk t' -> match t' with Naive _ => False | _ => True end.
Proof.
  intros o L [d|s|s|k s] t' H; simpl in H; try discriminate; injection H as <-; auto.
  destruct (zfix L); exact I.
Qed.

Lemma map_sres_forall : forall A B (f : A -> sres B) (P : B -> Prop) l ys,
  (forall a b, f a = SOk b -> P b) -> map_sres f l = SOk ys -> Forall P ys.
Proof.
  intros A B f P. induction l as [|a r IH]; intros ys Hf H; simpl in H.
  - injection H as <-. constructor.
  - destruct (f a) as [b| |] eqn:Ea; simpl in H; try discriminate.
    destruct (map_sres f r) as [bs| |] eqn:Er; simpl in H; try discriminate.
    injection H as <-. constructor; eauto.
Qed.

Lemma local_zone_no_floating : forall o p L als ts,
  component_times o p (Some L) als = SOk ts -> Forall (fun x => floating x = false) ts.
Proof.
  intros o p L als ts H. unfold component_times in H.
  destruct (component_raw_times o p als) as [l| |]; simpl in H; try discriminate.
  eapply map_sres_forall; [|exact H].
  intros a b Hb. unfold mk_atime in Hb.
  destruct (localize o (Some L) (snd a)) as [t| |] eqn:El; simpl in Hb; try discriminate.
  injection Hb as <-. unfold floating. simpl.
  apply localize_not_floating in El. destruct t; auto. destruct El.
Qed.

(* with a local zone (and no date triggers) the only error class left is none at all *)
Lemma local_zone_active_defined : forall o x,
  not_date_trigger x = true -> floating x = false ->
  is_active o x = SOk (spec_active (instant o (at_trigger x)) (at_alarm_ack x) (at_last_ack x) (at_snooze x)).
Proof.
  intros o x Hd Hf. rewrite active_table; auto.
  - rewrite Hf, andb_false_r. reflexivity.
  - unfold snooze_ok. rewrite Hf. reflexivity.
Qed.

(* applying the local zone: with a zoneinfo zone the wall clock is kept *)
Lemma localize_keeps_wall : forall o L s, zfix L = None ->
  localize o (Some L) (Naive s) = SOk (Zoned L s).
Proof. intros o L s H. simpl. rewrite H. reflexivity. Qed.

(* with a pytz zone object (fixed offset of its first period, LMT) normalize() moves the wall clock *)
Lemma localize_pytz_refuted : exists o L s t,
  localize o (Some L) (Naive s) = SOk t /\ wall t <> s.
Proof.
  exists {| off_wall := fun _ _ => 3600; off_utc := fun _ _ => 3600 |}, {| zid := 1; zfix := Some 3180 |}, 36000,
         (Zoned {| zid := 1; zfix := Some 3600 |} 36420).
  split; [reflexivity|]. simpl. discriminate.
Qed.

(* ------------------------------------------------------------------ active is a sub-list *)
Lemma filter_sres_sublist : forall A (f : A -> sres bool) l ys,
  filter_sres f l = SOk ys -> sublist ys l.
Proof.
  intros A f. induction l as [|x r IH]; intros ys H; simpl in H.
  - injection H as <-. constructor.
  - destruct (f x) as [b| |]; simpl in H; try discriminate.
    destruct (filter_sres f r) as [zs| |]; simpl in H; try discriminate.
    injection H as <-. destruct b; constructor; auto.
Qed.

Lemma active_sublist : forall o times act,
  active_of o (SOk times) = SOk act -> sublist act times.
Proof. intros o times act H. simpl in H. eapply filter_sres_sublist; eauto. Qed.

Lemma component_active_sublist : forall o p local als act,
  component_active o p local als = SOk act ->
  exists times, component_times o p local als = SOk times /\ sublist act times.
Proof.
  intros o p local als act H. unfold component_active in H.
  destruct (component_times o p local als) as [ts| |]; simpl in H; try discriminate.
  exists ts. split; auto. eapply filter_sres_sublist; eauto.
Qed.

Lemma filter_sres_members : forall A (f : A -> sres bool) l ys x,
  filter_sres f l = SOk ys -> (In x ys <-> In x l /\ f x = SOk true).
Proof.
  intros A f. induction l as [|a r IH]; intros ys x H; simpl in H.
  - injection H as <-. simpl. tauto.
  - destruct (f a) as [b| |] eqn:Ea; simpl in H; try discriminate.
    destruct (filter_sres f r) as [zs| |]; simpl in H; try discriminate.
    injection H as <-. specialize (IH zs x eq_refl). destruct b; simpl; rewrite IH; split.
    + intros [->|[H1 H2]]; auto.
    + intros [[->|H1] H2]; auto.
    + intros [H1 H2]; auto.
    + intros [[->|H1] H2]; auto. rewrite Ea in H2. discriminate.
Qed.

Lemma active_members : forall o times act x,
  active_of o (SOk times) = SOk act -> (In x act <-> In x times /\ is_active o x = SOk true).
Proof. intros o times act x H. simpl in H. eapply filter_sres_members; eauto. Qed.

(* ------------------------------------------------------------------ monotonicity *)
Lemma max_opt_later : forall a b a' b', ack_later a a' -> ack_later b b' ->
  ack_later (max_opt a b) (max_opt a' b').
Proof.
  intros [x|] [y|] [x'|] [y'|]; simpl; intros H1 H2; try tauto; lia.
Qed.

Lemma ltb_false_mono : forall a a' x, a <= a' -> (a <? x) = false -> (a' <? x) = false.
Proof. intros a a' x H1 H2. apply Z.ltb_ge in H2. apply Z.ltb_ge. lia. Qed.

Lemma sok_false_mono : forall a a' x, a <= a' -> SOk (a <? x) = SOk false -> SOk (a' <? x) = SOk false.
Proof. intros a a' x H1 H2. injection H2 as H2. rewrite (ltb_false_mono a a' x H1 H2). reflexivity. Qed.

Lemma ack_monotone : forall o tr aa la sn aa' la',
  ack_later aa aa' -> ack_later la la' ->
  is_active o {| at_trigger := tr; at_alarm_ack := aa; at_last_ack := la; at_snooze := sn |} = SOk false ->
  is_active o {| at_trigger := tr; at_alarm_ack := aa'; at_last_ack := la'; at_snooze := sn |} = SOk false.
Proof.
  intros o tr aa la sn aa' la' H1 H2. pose proof (max_opt_later aa la aa' la' H1 H2) as Hm.
  unfold is_active, acknowledged, at_trigger_prop. simpl.
  destruct (max_opt aa la) as [a|]; [|intros H; discriminate H].
  destruct (max_opt aa' la') as [a'|]; simpl in Hm; [|tauto].
  destruct sn as [sn|].
  - destruct (a <? sn) eqn:E1; [intros H; discriminate H|].
    rewrite (ltb_false_mono a a' sn Hm E1).
    destruct (cmp_instant o tr) as [ti| |]; simpl; intros H; try discriminate H. revert H.
    destruct (ti <? sn) eqn:E2; simpl.
    + apply sok_false_mono; auto.
    + destruct tr as [d|s|s|k s]; simpl; intros H; try discriminate H;
        revert H; apply sok_false_mono; auto.
  - destruct tr as [d|s|s|k s]; simpl; intros H; try discriminate H;
      revert H; apply sok_false_mono; auto.
Qed.

(* ------------------------------------------------------------------ refutations *)
Definition mk_at tr aa la sn : atime :=
  {| at_trigger := tr; at_alarm_ack := aa; at_last_ack := la; at_snooze := sn |}.
Definition orc0 : zoracle := {| off_wall := fun _ _ => 0; off_utc := fun _ _ => 0 |}.

Lemma date_trigger_refuted : exists o x L,
  not_date_trigger x = false /\
  is_active o x = SEsc AttributeErr /\
  at_trigger_prop o (mk_at (at_trigger x) None None (Some 0)) = SEsc TypeErr /\
  localize o (Some L) (at_trigger x) = SEsc TypeErr.
Proof.
  exists orc0, (mk_at (Date 1) None (Some 0) None), {| zid := 1; zfix := None |}.
  repeat split; reflexivity.
Qed.

Lemma floating_snooze_refuted : exists o x,
  not_date_trigger x = true /\ snooze_ok x = false /\
  needs_trigger (at_alarm_ack x) (at_last_ack x) (at_snooze x) = true /\
  is_active o x = SEsc TypeErr /\ at_trigger_prop o x = SEsc TypeErr.
Proof.
  exists orc0, (mk_at (Naive 36000) None (Some 32400) (Some 28800)).
  repeat split; reflexivity.
Qed.
