(* update()/constructor/|= as item-by-item stores: prefix compositionality (the state after a
   prefix of the pairs is the state update() would leave had it been given only that prefix --
   what dict.update leaves behind when a later pair is malformed) and "the last spelling wins"
   for reads after an update.  Proofs only. *)
Require Import Lib.Base Model.Params Model.Sort Model.Caseless Proofs.CaselessProofs.

Section UpdateProofs.
  Variable V : Type.
  Local Notation dict := (list (list N * V)).

  Lemma c_update_app (ps qs : list (key * V)) (d : dict) :
    c_update d (ps ++ qs) = c_update (c_update d ps) qs.
  Proof. unfold c_update. apply fold_left_app. Qed.

  Lemma c_update_snoc (ps : list (key * V)) k v (d : dict) :
    c_update d (ps ++ [(k, v)]) = c_setitem (c_update d ps) k v.
  Proof. rewrite c_update_app. reflexivity. Qed.

  Lemma c_update_firstn_skipn n (ps : list (key * V)) (d : dict) :
    c_update d ps = c_update (c_update d (firstn n ps)) (skipn n ps).
  Proof. rewrite <- c_update_app, firstn_skipn. reflexivity. Qed.

  (* reads after one store *)
  Lemma dict_get_set_same k v (d : dict) : dict_get k (dict_set k v d) = Some v.
  Proof.
    induction d as [|[k' v'] r IH]; cbn.
    - rewrite seqb_refl. reflexivity.
    - destruct (str_eqb k k') eqn:E; cbn.
      + rewrite seqb_refl. reflexivity.
      + rewrite E. exact IH.
  Qed.

  Lemma dict_get_set_other k k0 v (d : dict) :
    str_eqb k0 k = false -> dict_get k0 (dict_set k v d) = dict_get k0 d.
  Proof.
    intros Hne. induction d as [|[k' v'] r IH]; cbn.
    - rewrite Hne. reflexivity.
    - destruct (str_eqb k k') eqn:E; cbn.
      + apply seqb_eq in E. subst k'. rewrite Hne. reflexivity.
      + destruct (str_eqb k0 k'); [reflexivity|exact IH].
  Qed.

  (* the value of the last pair whose folded name is K, scanning from the left with an accumulator *)
  Fixpoint last_for (K : list N) (ps : list (key * V)) (acc : option V) : option V :=
    match ps with
    | [] => acc
    | (k, v) :: r => last_for K r (if str_eqb K (ckey k) then Some v else acc)
    end.

  Lemma c_update_get (K : list N) (ps : list (key * V)) : forall d : dict,
    dict_get K (c_update d ps) = last_for K ps (dict_get K d).
  Proof.
    induction ps as [|[k v] r IH]; intros d; cbn [c_update fold_left last_for]; [reflexivity|].
    change (fold_left (fun acc kv => c_setitem acc (fst kv) (snd kv)) r (c_setitem d (fst (k, v)) (snd (k, v))))
      with (c_update (c_setitem d k v) r).
    rewrite IH. f_equal. unfold c_setitem.
    destruct (str_eqb K (ckey k)) eqn:E.
    - apply seqb_eq in E. subst K. apply dict_get_set_same.
    - apply dict_get_set_other. exact E.
  Qed.

  (* a name no pair spells (in any letter case) keeps its value; a name some pair spells reads
     as the value of the last such pair *)
  Lemma last_for_none K (ps : list (key * V)) : forall acc,
    (forall kv, In kv ps -> str_eqb K (ckey (fst kv)) = false) -> last_for K ps acc = acc.
  Proof.
    induction ps as [|[k v] r IH]; intros acc H; cbn; [reflexivity|].
    pose proof (H (k, v) (or_introl eq_refl)) as Hk. cbn in Hk. rewrite Hk. apply IH. intros kv Hin. apply H. right. exact Hin.
  Qed.

  Lemma last_for_app K (ps qs : list (key * V)) acc :
    last_for K (ps ++ qs) acc = last_for K qs (last_for K ps acc).
  Proof. revert acc. induction ps as [|[k v] r IH]; intros acc; cbn; [reflexivity|apply IH]. Qed.

  Lemma c_update_untouched K (ps : list (key * V)) (d : dict) :
    (forall kv, In kv ps -> str_eqb K (ckey (fst kv)) = false) ->
    dict_get K (c_update d ps) = dict_get K d.
  Proof. intros H. rewrite c_update_get. apply last_for_none. exact H. Qed.

  Lemma c_update_last_wins (ps qs : list (key * V)) k v (d : dict) :
    (forall kv, In kv qs -> str_eqb (ckey k) (ckey (fst kv)) = false) ->
    dict_get (ckey k) (c_update d (ps ++ (k, v) :: qs)) = Some v.
  Proof.
    intros H. rewrite c_update_get, last_for_app. cbn [last_for]. rewrite seqb_refl.
    apply last_for_none. exact H.
  Qed.
End UpdateProofs.
