(* "grammar-valid text => the value the RFC assigns" for PERIOD (through vPeriod.from_ical and through
   vDDDTypes.from_ical), for the combined decoder vDDDTypes.from_ical against the five grammars
   DATE / DATE-TIME / TIME / DURATION / PERIOD (which are pairwise disjoint), for weekdaynum and for
   BINARY (RFC 4648 base64: canonical and non-canonical texts, missing padding). *)
Require Import Lib.Base Model.Params Model.CodecBase Model.CodecDate Model.CodecDur Model.CodecMisc Gen.Gen_prop
        Proofs.CodecBaseProofs Proofs.CodecDateProofs Proofs.CodecDurProofs Proofs.CodecDddProofs
        Proofs.CodecMiscProofs Proofs.CodecB64Proofs.
From Coq Require Import ZArith NArith List Bool Lia ZifyBool.
Local Open Scope Z_scope.

(* ================================================================ PERIOD *)
(* ---------------------------------------------------------------- str.split('/') read backwards *)
Lemma split_slash_nonnil s : forall cur, split_slash s cur <> [].
Proof.
  induction s as [|c r IH]; intros cur; cbn [split_slash]; [discriminate|].
  destruct (c =? 47)%N; [discriminate|apply IH].
Qed.

Lemma split_slash_one s : forall cur b, split_slash s cur = [b] -> b = rev cur ++ s.
Proof.
  induction s as [|c r IH]; intros cur b H; cbn [split_slash] in H.
  - injection H as <-. now rewrite app_nil_r.
  - destruct (c =? 47)%N.
    + injection H as _ H. now apply split_slash_nonnil in H.
    + rewrite (IH _ _ H). cbn [rev]. now rewrite <- app_assoc.
Qed.

Lemma split_slash_two s : forall cur a b, split_slash s cur = [a; b] -> rev cur ++ s = a ++ 47%N :: b.
Proof.
  induction s as [|c r IH]; intros cur a b H; cbn [split_slash] in H.
  - discriminate.
  - destruct (c =? 47)%N eqn:Ec.
    + apply N.eqb_eq in Ec. subst c. injection H as <- H. apply split_slash_one in H. now subst b.
    + rewrite <- (IH _ _ _ H). cbn [rev]. now rewrite <- app_assoc.
Qed.

(* a text with an RFC period reading is start "/" end-or-duration, the parts being grammar-valid *)
Lemma period_value_inv t v : period_value t = Some v ->
  exists a b x, t = a ++ 47%N :: b /\ datetime_value a = Some x
    /\ ((exists y, datetime_value b = Some y /\ v = DPeriod (DDatetime x) (DDatetime y))
        \/ (exists s, datetime_value b = None /\ dur_value b = Some s /\ v = DPeriod (DDatetime x) (DDur s))).
Proof.
  unfold period_value. destruct (split_slash t []) as [|a [|b [|c l]]] eqn:E; try discriminate.
  apply split_slash_two in E. cbn [rev app] in E.
  destruct (datetime_value a) as [x|] eqn:Ea; [|discriminate].
  destruct (datetime_value b) as [y|] eqn:Eb.
  - intros H. injection H as <-. exists a, b, x. split; [exact E|]. split; [exact Ea|]. left. now exists y.
  - destruct (dur_value b) as [s|] eqn:Es; [|discriminate].
    intros H. injection H as <-. exists a, b, x. split; [exact E|]. split; [exact Ea|]. right. now exists s.
Qed.

Lemma datetime_value_ascii_noslash t v : datetime_value t = Some v -> all_ascii t = true /\ mem_chr 47 t = false.
Proof.
  destruct v as [[[[[[y m] d] h] mi] s] utc]. intros H.
  destruct (datetime_value_shape _ _ _ _ _ _ _ _ H) as (Ha & _ & Hs & _). now split.
Qed.

Lemma period_value_slash t v : period_value t = Some v -> mem_chr 47 t = true.
Proof.
  intros H. destruct (period_value_inv t v H) as (a & b & x & -> & _).
  rewrite mem_chr_app. cbn [mem_chr N.eqb Pos.eqb]. now rewrite orb_true_r.
Qed.

(* vDDDTypes.from_ical hands every RFC period to vPeriod.from_ical *)
Lemma ddd_dispatch_period t v : period_value t = Some v -> ddd_from_ical t = dec_period t.
Proof.
  intros H. destruct (period_value_inv t v H) as (a & b & x & -> & Ha & _).
  destruct (datetime_value_head _ _ Ha) as (Hh & Hn). now apply ddd_period_eq.
Qed.

Lemma ddd_simple_datetime_full t v : datetime_value t = Some v -> ddd_simple t = ddd_expected (DDatetime v).
Proof.
  intros H. rewrite (ddd_simple_datetime t v H). destruct v as [[[[[[y m] d] h] mi] s] utc].
  rewrite (datetime_grammar_dec_full _ _ _ _ _ _ _ _ H). cbn [ddd_expected dt_no_leap].
  destruct (s =? 60); reflexivity.
Qed.

Lemma ddd_simple_dur_full t s : dur_value t = Some s -> (List.length t <= 4300)%nat ->
  ddd_simple t = ddd_expected (DDur s).
Proof.
  intros H Hl. rewrite (ddd_simple_dur t s H), (dur_grammar_dec_full' t s H Hl). cbn [ddd_expected].
  destruct ((td_max <? Z.abs s) || (s <? td_min)); reflexivity.
Qed.

(* what vPeriod.from_ical returns for every RFC period text of at most 4300 characters *)
Lemma period_grammar_dec_full t v : period_value t = Some v -> (List.length t <= 4300)%nat ->
  dec_period t = ddd_expected v.
Proof.
  intros H Hl. destruct (period_value_inv t v H) as (a & b & x & -> & Ha & Hb).
  destruct (datetime_value_ascii_noslash _ _ Ha) as (Aa & Sa).
  rewrite app_length in Hl. cbn [List.length] in Hl.
  destruct Hb as [(y & Hb & ->) | (s & _ & Hb & ->)].
  - destruct (datetime_value_ascii_noslash _ _ Hb) as (Ab & Sb).
    rewrite dec_period_parts by assumption.
    rewrite (ddd_simple_datetime_full _ _ Ha), (ddd_simple_datetime_full _ _ Hb). reflexivity.
  - pose proof (dur_value_ascii _ _ Hb) as Ab. pose proof (dur_value_noslash _ _ Hb) as Sb.
    rewrite dec_period_parts by assumption.
    rewrite (ddd_simple_datetime_full _ _ Ha), (ddd_simple_dur_full _ _ Hb) by lia. reflexivity.
Qed.

Lemma to_value_err_ok {A} (r : res A) v : r = Ok v -> to_value_err r = Ok v.
Proof. intros ->. reflexivity. Qed.

(* inside the guard the prediction is the RFC value itself *)
Lemma ddd_expected_guard v : ddd_guard v = true -> ddd_expected v = Ok v.
Proof.
  induction v as [y m d|x|h m s u|s|a IHa b IHb]; cbn [ddd_guard ddd_expected]; intros G.
  - reflexivity.
  - now rewrite G.
  - apply andb_true_iff in G as [G1 G2]. apply negb_true_iff in G1, G2. now rewrite G1, G2.
  - unfold td_ok, td_min, td_max in *. replace ((_ <? Z.abs s) || _) with false by lia. reflexivity.
  - apply andb_true_iff in G as [G1 G2]. now rewrite (IHa G1), (IHb G2).
Qed.

Lemma period_grammar_dec t v : period_value t = Some v ->
  ddd_guard v && (List.length t <=? 4300)%nat = true ->
  dec_period t = Ok v /\ ddd_from_ical t = Ok v.
Proof.
  intros H G. apply andb_true_iff in G as [G Hl]. apply Nat.leb_le in Hl.
  rewrite (ddd_dispatch_period t v H), (period_grammar_dec_full t v H Hl), (ddd_expected_guard v G). now split.
Qed.

(* ================================================================ vDDDTypes.from_ical against the five grammars *)
(* ---------------------------------------------------------------- the grammars are pairwise disjoint *)
(* three observations separate them: a "/" (PERIOD only), a leading [+-]P (DURATION only), the length
   (DATE 8, TIME 6-7, DATE-TIME 15-16) *)
Definition ddd_shape (t : str) : bool * bool * nat := (mem_chr 47 t, starts_P (upper t), List.length t).

Lemma shape_date t v : date_value t = Some v -> ddd_shape t = (false, false, 8%nat).
Proof. intros H. destruct (date_value_shape t v H) as (_ & Hp & Hs & Hl). unfold ddd_shape. now rewrite Hp, Hs, Hl. Qed.

Lemma shape_time t v : time_value t = Some v ->
  ddd_shape t = (false, false, 6%nat) \/ ddd_shape t = (false, false, 7%nat).
Proof.
  destruct v as [[[h m] s] utc]. intros H. destruct (time_value_shape _ _ _ _ _ H) as (_ & Hp & Hs & Hl).
  unfold ddd_shape. rewrite Hp, Hs, Hl. destruct utc; auto.
Qed.

Lemma shape_datetime t v : datetime_value t = Some v ->
  ddd_shape t = (false, false, 15%nat) \/ ddd_shape t = (false, false, 16%nat).
Proof.
  destruct v as [[[[[[y m] d] h] mi] s] utc]. intros H.
  destruct (datetime_value_shape _ _ _ _ _ _ _ _ H) as (_ & Hp & Hs & Hl).
  unfold ddd_shape. rewrite Hp, Hs, Hl. destruct utc; auto.
Qed.

Lemma shape_dur t v : dur_value t = Some v -> exists n, ddd_shape t = (false, true, n).
Proof.
  intros H. exists (List.length t). unfold ddd_shape.
  now rewrite (dur_value_noslash t v H), (dur_value_startsP t v H).
Qed.

Lemma shape_period t v : period_value t = Some v -> exists p n, ddd_shape t = (true, p, n).
Proof. intros H. exists (starts_P (upper t)), (List.length t). unfold ddd_shape. now rewrite (period_value_slash t v H). Qed.

(* no text is in two of the five grammars *)
Lemma ddd_readings_unique t : (List.length (ddd_readings t) <= 1)%nat.
Proof.
  unfold ddd_readings.
  destruct (date_value t) as [[[y m] d]|] eqn:E1; destruct (datetime_value t) as [v2|] eqn:E2;
    destruct (time_value t) as [[[[h mi] s] u]|] eqn:E3; destruct (dur_value t) as [v4|] eqn:E4;
    destruct (period_value t) as [v5|] eqn:E5; cbn [app List.length]; try lia; exfalso;
    repeat match goal with
    | H : date_value t = Some _ |- _ => apply shape_date in H
    | H : time_value t = Some _ |- _ => apply shape_time in H; destruct H as [H|H]
    | H : datetime_value t = Some _ |- _ => apply shape_datetime in H; destruct H as [H|H]
    | H : dur_value t = Some _ |- _ => apply shape_dur in H; destruct H as (? & H)
    | H : period_value t = Some _ |- _ => apply shape_period in H; destruct H as (? & ? & H)
    end; congruence.
Qed.

(* hence "exactly one reading" is "some reading" *)
Lemma ddd_value_iff t v : ddd_value t = Some v <-> In v (ddd_readings t).
Proof.
  unfold ddd_value. pose proof (ddd_readings_unique t) as H.
  destruct (ddd_readings t) as [|a [|b l]]; cbn [List.length In] in *; try lia.
  - split; [discriminate|tauto].
  - split; [intros E; injection E; auto | intros [->|[]]; reflexivity].
Qed.

Lemma ddd_value_cases t v : ddd_value t = Some v ->
  (exists y m d, date_value t = Some (y, m, d) /\ v = DDate y m d)
  \/ (exists x, datetime_value t = Some x /\ v = DDatetime x)
  \/ (exists h m s u, time_value t = Some (h, m, s, u) /\ v = DTime h m s u)
  \/ (exists s, dur_value t = Some s /\ v = DDur s)
  \/ (period_value t = Some v).
Proof.
  intros H. apply ddd_value_iff in H. unfold ddd_readings in H.
  repeat (apply in_app_or in H; destruct H as [H|H]).
  - destruct (date_value t) as [[[y m] d]|]; [|destruct H]. destruct H as [<-|[]]. left. now exists y, m, d.
  - destruct (datetime_value t) as [x|]; [|destruct H]. destruct H as [<-|[]]. right; left. now exists x.
  - destruct (time_value t) as [[[[h m] s] u]|]; [|destruct H]. destruct H as [<-|[]]. right; right; left. now exists h, m, s, u.
  - destruct (dur_value t) as [s|]; [|destruct H]. destruct H as [<-|[]]. right; right; right; left. now exists s.
  - destruct (period_value t) as [p|]; [|destruct H]. destruct H as [<-|[]]. right; right; right; right. reflexivity.
Qed.

(* ---------------------------------------------------------------- the decoder chosen and the value returned *)
(* what vDDDTypes.from_ical returns for EVERY text (of at most 4300 characters) that is in one of the five
   grammars: the decoder of that grammar is the one that runs, and its result is [ddd_expected] of the RFC value *)
Lemma ddd_grammar_dec_full t v : ddd_value t = Some v -> (List.length t <= 4300)%nat ->
  ddd_from_ical t = ddd_expected v.
Proof.
  intros H Hl.
  destruct (ddd_value_cases t v H) as [(y & m & d & E & ->)|[(x & E & ->)|[(h & m & s & u & E & ->)|[(s & E & ->)|E]]]].
  - rewrite (ddd_dispatch_date _ _ E), (date_grammar_dec _ _ E). reflexivity.
  - destruct (datetime_value_ascii_noslash _ _ E) as (_ & Hs). rewrite (ddd_simple_eq t Hs).
    exact (ddd_simple_datetime_full _ _ E).
  - rewrite (ddd_dispatch_time _ _ E), (time_grammar_dec_full _ _ _ _ _ E). cbn [ddd_expected].
    destruct (s =? 60); reflexivity.
  - rewrite (ddd_simple_eq t (dur_value_noslash t s E)). exact (ddd_simple_dur_full _ _ E Hl).
  - rewrite (ddd_dispatch_period t v E). exact (period_grammar_dec_full t v E Hl).
Qed.

(* on the guard: the RFC value itself *)
Lemma ddd_grammar_dec t v : ddd_value t = Some v ->
  ddd_guard v && (List.length t <=? 4300)%nat = true -> ddd_from_ical t = Ok v.
Proof.
  intros H G. apply andb_true_iff in G as [G Hl]. apply Nat.leb_le in Hl.
  rewrite (ddd_grammar_dec_full t v H Hl). exact (ddd_expected_guard v G).
Qed.

(* and outside the guard never: the guard is exact *)
Lemma ddd_grammar_dec_exact t v : ddd_value t = Some v -> (List.length t <= 4300)%nat ->
  (ddd_from_ical t = Ok v <-> ddd_guard v = true).
Proof.
  intros H Hl. rewrite (ddd_grammar_dec_full t v H Hl). split; [|apply ddd_expected_guard].
  revert H. clear Hl. intros H.
  assert (Hleaf : forall w, match w with DPeriod _ _ => False | _ => True end ->
                            ddd_expected w = Ok w -> ddd_guard w = true).
  { intros [y m d|x|h m s u|s|a b] Hw; cbn [ddd_expected ddd_guard]; [auto| | | |destruct Hw].
    - destruct (dt_no_leap x); [reflexivity|discriminate].
    - destruct (s =? 60); [discriminate|]. intros E. injection E as <-. reflexivity.
    - unfold td_ok, td_min, td_max. destruct ((_ <? Z.abs s) || _) eqn:E; [discriminate|]. intros _. lia.
  }
  destruct (ddd_value_cases t v H) as [(y & m & d & E & ->)|[(x & E & ->)|[(h & m & s & u & E & ->)|[(s & E & ->)|E]]]];
    try (apply Hleaf; exact I).
  destruct (period_value_inv t v E) as (a & b & x & _ & _ & [(y & _ & ->)|(s & _ & _ & ->)]);
    cbn [ddd_expected ddd_guard].
  - destruct (dt_no_leap x); [|discriminate]. destruct (dt_no_leap y); [reflexivity|discriminate].
  - destruct (dt_no_leap x); [|discriminate]. cbn [bind].
    unfold td_ok, td_min, td_max. destruct ((_ <? Z.abs s) || _) eqn:E'; [discriminate|]. intros _. cbn [andb]. lia.
Qed.

(* ================================================================ weekdaynum *)
(* weekday_value reads the upper-cased text; the same reading as a function of that text *)
Definition wv_u (u : str) : option (option Z * str) :=
  let '(sg, r) := match u with
                  | c :: r => if (c =? 43)%N then (Some false, r) else if (c =? 45)%N then (Some true, r) else (None, u)
                  | [] => (None, u)
                  end in
  let '(ds, wd) := span_digits r in
  if existsb (str_eqb wd) rfc_weekdays then
    match ds with
    | [] => match sg with None => Some (None, wd) | Some _ => None end
    | _ => let n := digs_val ds 0 in
           if (List.length ds <=? 2)%nat && (1 <=? n) && (n <=? 53)
           then Some (Some (match sg with Some true => - n | _ => n end), wd)
           else None
    end
  else None.

Lemma weekday_value_u t : weekday_value t = wv_u (upper t).
Proof. reflexivity. Qed.

Definition opt_Z_eqb (a b : option Z) : bool :=
  match a, b with Some x, Some y => x =? y | None, None => true | _, _ => false end.

(* "if the text has an RFC reading then vWeekday(text) has exactly that content" as a boolean *)
Definition chk_wv (u : str) : bool :=
  match wv_u u with
  | None => true
  | Some (rel, wd) =>
      match weekday_new u with
      | Ok (u', rel', wd') => str_eqb u' u && opt_Z_eqb rel' rel && str_eqb wd' wd
      | _ => false
      end
  end.

Definition dch (i : nat) : N := (N.of_nat i + 48)%N.
Definition wv_signs : list str := [[]; [43%N]; [45%N]].

(* every text [sign] [0-2 digits] weekday: 7 * 3 * 111 = 2331 texts *)
Lemma chk_wv_all :
  forallb (fun wd => forallb (fun sg =>
     chk_wv (sg ++ wd)
     && forallb (fun i => chk_wv (sg ++ dch i :: wd)
                          && forallb (fun j => chk_wv (sg ++ dch i :: dch j :: wd)) (seq 0 10)) (seq 0 10))
     wv_signs) rfc_weekdays = true.
Proof. vm_compute. reflexivity. Qed.

Lemma digit_dch a : is_digit a = true -> exists i, (i < 10)%nat /\ a = dch i.
Proof.
  intros H. apply is_digit_range in H. exists (N.to_nat (a - 48)). unfold dch. split; lia.
Qed.

Lemma str_eqb_refl a : str_eqb a a = true.
Proof. induction a as [|x a IH]; simpl; auto. now rewrite N.eqb_refl, IH. Qed.

Lemma chk_wv_shape sg ds wd : In sg wv_signs -> In wd rfc_weekdays ->
  forallb is_digit ds = true -> (List.length ds <= 2)%nat -> chk_wv (sg ++ ds ++ wd) = true.
Proof.
  intros Hsg Hwd Hd Hl. pose proof chk_wv_all as H. rewrite forallb_forall in H. specialize (H wd Hwd).
  rewrite forallb_forall in H. specialize (H sg Hsg). apply andb_true_iff in H as [H0 H1].
  destruct ds as [|a [|b [|c l]]]; cbn [List.length] in Hl; try lia.
  - exact H0.
  - cbn [forallb] in Hd. apply andb_true_iff in Hd as [Ha _]. destruct (digit_dch a Ha) as (i & Hi & ->).
    pose proof (forallb_seq_lt _ 10 H1 i Hi) as Hc. cbn beta in Hc. apply andb_true_iff in Hc as [Hc _]. exact Hc.
  - cbn [forallb] in Hd. apply andb_true_iff in Hd as [Ha Hd]. apply andb_true_iff in Hd as [Hb _].
    destruct (digit_dch a Ha) as (i & Hi & ->). destruct (digit_dch b Hb) as (j & Hj & ->).
    pose proof (forallb_seq_lt _ 10 H1 i Hi) as Hc. cbn beta in Hc. apply andb_true_iff in Hc as [_ Hc].
    exact (forallb_seq_lt _ 10 Hc j Hj).
Qed.

Lemma weekday_in wd : existsb (str_eqb wd) rfc_weekdays = true -> In wd rfc_weekdays.
Proof. intros H. apply existsb_exists in H as (x & Hin & He). apply str_eqb_true in He. now subst. Qed.

(* a text with an RFC reading has the shape [sign] [1-2 digits] weekday *)
Lemma wv_u_shape u v : wv_u u = Some v ->
  exists sg ds wd, u = sg ++ ds ++ wd /\ In sg wv_signs /\ In wd rfc_weekdays
                   /\ forallb is_digit ds = true /\ (List.length ds <= 2)%nat.
Proof.
  unfold wv_u.
  assert (Hbody : forall (sg0 : option bool) r,
            (let '(ds, wd) := span_digits r in
             if existsb (str_eqb wd) rfc_weekdays then
               match ds with
               | [] => match sg0 with None => Some (None, wd) | Some _ => None end
               | _ => let n := digs_val ds 0 in
                      if (List.length ds <=? 2)%nat && (1 <=? n) && (n <=? 53)
                      then Some (Some (match sg0 with Some true => - n | _ => n end), wd) else None
               end
             else None) = Some v ->
            exists ds wd, r = ds ++ wd /\ In wd rfc_weekdays /\ forallb is_digit ds = true /\ (List.length ds <= 2)%nat).
  { intros sg0 r. destruct (span_digits r) as [ds wd] eqn:E.
    destruct (span_digits_spec _ _ _ E) as (-> & Hd & _).
    destruct (existsb (str_eqb wd) rfc_weekdays) eqn:Ew; [|discriminate]. apply weekday_in in Ew.
    intros H. exists ds, wd. split; [reflexivity|]. split; [exact Ew|]. split; [exact Hd|].
    destruct ds as [|a l]; [cbn; lia|].
    destruct ((List.length (a :: l) <=? 2)%nat) eqn:El; [|discriminate]. now apply Nat.leb_le in El. }
  destruct u as [|c r0].
  - intros H. destruct (Hbody None [] H) as (ds & wd & E & Hw & Hd & Hl).
    exists [], ds, wd. cbn [app]. repeat split; auto. cbn; auto.
  - destruct (c =? 43)%N eqn:E43; [|destruct (c =? 45)%N eqn:E45].
    + apply N.eqb_eq in E43. subst c. intros H. destruct (Hbody (Some false) r0 H) as (ds & wd & -> & Hw & Hd & Hl).
      exists [43%N], ds, wd. repeat split; auto. cbn; auto.
    + apply N.eqb_eq in E45. subst c. intros H. destruct (Hbody (Some true) r0 H) as (ds & wd & -> & Hw & Hd & Hl).
      exists [45%N], ds, wd. repeat split; auto. cbn; auto.
    + intros H. destruct (Hbody None (c :: r0) H) as (ds & wd & E & Hw & Hd & Hl).
      exists [], ds, wd. cbn [app]. repeat split; auto. cbn; auto.
Qed.

Lemma weekday_core u rel wd : wv_u u = Some (rel, wd) -> weekday_new u = Ok (u, rel, wd).
Proof.
  intros H. destruct (wv_u_shape u _ H) as (sg & ds & wd0 & E & Hsg & Hwd & Hd & Hl).
  pose proof (chk_wv_shape sg ds wd0 Hsg Hwd Hd Hl) as Hc. rewrite <- E in Hc.
  unfold chk_wv in Hc. rewrite H in Hc.
  destruct (weekday_new u) as [[[u' rel'] wd']| | |]; try discriminate.
  apply andb_true_iff in Hc as [Hc E3]. apply andb_true_iff in Hc as [E1 E2].
  apply str_eqb_true in E1, E3. subst.
  destruct rel' as [a|], rel as [b|]; try discriminate; [|reflexivity].
  cbn [opt_Z_eqb] in E2. apply Z.eqb_eq in E2. now subst.
Qed.

Lemma upper_chr_ascii c : (upper_chr c <? 128)%N = (c <? 128)%N.
Proof. unfold upper_chr, is_lower. destruct ((97 <=? c)%N && (c <=? 122)%N) eqn:E; lia. Qed.

Lemma upper_ascii t : all_ascii (upper t) = all_ascii t.
Proof.
  unfold all_ascii, upper. induction t as [|c r IH]; [reflexivity|].
  cbn [map forallb]. now rewrite upper_chr_ascii, IH.
Qed.

(* every weekdaynum text, in any letter case: vWeekday.from_ical returns the upper-cased text with the
   ordinal (signed) and the weekday that the RFC assigns *)
Lemma weekday_grammar_dec t rel wd : weekday_value t = Some (rel, wd) -> dec_weekday t = Ok (upper t, rel, wd).
Proof.
  rewrite weekday_value_u. intros H. pose proof (weekday_core _ _ _ H) as Hn.
  unfold dec_weekday. destruct (negb (all_ascii t)) eqn:Ea; [|exact Hn].
  exfalso. unfold weekday_new in Hn. rewrite upper_ascii in Hn. rewrite Ea in Hn. discriminate.
Qed.

(* ================================================================ BINARY (RFC 4648 base64) *)
Local Open Scope N_scope.
Ltac Zify.zify_post_hook ::= Z.to_euclidean_division_equations.

Lemma b64_val_spec c v : b64_val c = Some v ->
  v < 64 /\ (c =? 61) = false /\ (c <? 128) = true /\ b64_chr v = c.
Proof.
  unfold b64_val, b64_chr.
  destruct ((65 <=? c) && (c <=? 90)) eqn:E1.
  { intros H. injection H as <-. replace (c - 65 <? 26) with true by lia. lia. }
  destruct ((97 <=? c) && (c <=? 122)) eqn:E2.
  { intros H. injection H as <-. replace (c - 71 <? 26) with false by lia. replace (c - 71 <? 52) with true by lia. lia. }
  destruct ((48 <=? c) && (c <=? 57)) eqn:E3.
  { intros H. injection H as <-. replace (c + 4 <? 26) with false by lia. replace (c + 4 <? 52) with false by lia.
    replace (c + 4 <? 62) with true by lia. lia. }
  destruct (c =? 43) eqn:E4.
  { intros H. injection H as <-. apply N.eqb_eq in E4. subst c. cbn. lia. }
  destruct (c =? 47) eqn:E5; [|discriminate].
  intros H. injection H as <-. apply N.eqb_eq in E5. subst c. cbn. lia.
Qed.

(* one alphabet character, whatever it is *)
Lemma a2b_chr c v r qp left pads : b64_val c = Some v ->
  a2b (c :: r) qp left pads =
    if qp =? 0 then a2b r 1 v 0
    else if qp =? 1 then bind (a2b r 2 (v mod 16) 0) (fun o => Ok (left * 4 + v / 16 :: o))
    else if qp =? 2 then bind (a2b r 3 (v mod 4) 0) (fun o => Ok (left * 16 + v / 4 :: o))
    else bind (a2b r 0 0 0) (fun o => Ok (left * 64 + v :: o)).
Proof. intros H. destruct (b64_val_spec c v H) as (_ & Hp & _). cbn [a2b]. now rewrite Hp, H. Qed.

Lemma a2b_quad4 a b c d x y z w r :
  b64_val a = Some x -> b64_val b = Some y -> b64_val c = Some z -> b64_val d = Some w ->
  a2b (a :: b :: c :: d :: r) 0 0 0 = bind (a2b r 0 0 0) (fun o => Ok (quad3 x y z w ++ o)).
Proof.
  intros Ha Hb Hc Hd.
  rewrite (a2b_chr _ _ _ _ _ _ Ha). cbn [N.eqb].
  rewrite (a2b_chr _ _ _ _ _ _ Hb). cbn [N.eqb Pos.eqb].
  rewrite (a2b_chr _ _ _ _ _ _ Hc). cbn [N.eqb Pos.eqb].
  rewrite (a2b_chr _ _ _ _ _ _ Hd). cbn [N.eqb Pos.eqb].
  destruct (a2b r 0 0 0); reflexivity.
Qed.

Lemma a2b_pad2 a b x y : b64_val a = Some x -> b64_val b = Some y ->
  a2b [a; b; 61; 61] 0 0 0 = Ok [x * 4 + y / 16].
Proof.
  intros Ha Hb. rewrite (a2b_chr _ _ _ _ _ _ Ha). cbn [N.eqb].
  rewrite (a2b_chr _ _ _ _ _ _ Hb). cbn [N.eqb Pos.eqb]. reflexivity.
Qed.

Lemma a2b_pad1 a b c x y z : b64_val a = Some x -> b64_val b = Some y -> b64_val c = Some z ->
  a2b [a; b; c; 61] 0 0 0 = Ok [x * 4 + y / 16; (y mod 16) * 16 + z / 4].
Proof.
  intros Ha Hb Hc. rewrite (a2b_chr _ _ _ _ _ _ Ha). cbn [N.eqb].
  rewrite (a2b_chr _ _ _ _ _ _ Hb). cbn [N.eqb Pos.eqb].
  rewrite (a2b_chr _ _ _ _ _ _ Hc). cbn [N.eqb Pos.eqb]. reflexivity.
Qed.

Lemma quad3_fields x y z w : x < 64 -> y < 64 -> z < 64 -> w < 64 ->
  x * 4 + y / 16 < 256 /\ (y mod 16) * 16 + z / 4 < 256 /\ (z mod 4) * 64 + w < 256
  /\ (x * 4 + y / 16) / 4 = x
  /\ ((x * 4 + y / 16) mod 4) * 16 + ((y mod 16) * 16 + z / 4) / 16 = y
  /\ (((y mod 16) * 16 + z / 4) mod 16) * 4 + ((z mod 4) * 64 + w) / 64 = z
  /\ ((z mod 4) * 64 + w) mod 64 = w.
Proof. lia. Qed.

Lemma pad_fields x y z : x < 64 -> y < 64 -> z < 64 ->
  ((x * 4 + y / 16) mod 4) * 16 = (y / 16) * 16
  /\ (((y mod 16) * 16 + z / 4) mod 16) * 4 = (z / 4) * 4
  /\ (y / 16) * 16 < 64 /\ (z / 4) * 4 < 64
  /\ ((y / 16) * 16 = y <-> y mod 16 = 0) /\ ((z / 4) * 4 = z <-> z mod 4 = 0).
Proof. lia. Qed.

Fixpoint list_ind4 {A} (P : list A -> Prop) (H0 : P []) (H1 : forall a, P [a]) (H2 : forall a b, P [a; b])
         (H3 : forall a b c, P [a; b; c]) (H4 : forall a b c d r, P r -> P (a :: b :: c :: d :: r)) (l : list A) : P l :=
  match l with
  | [] => H0
  | [a] => H1 a
  | [a; b] => H2 a b
  | [a; b; c] => H3 a b c
  | a :: b :: c :: d :: r => H4 a b c d r (list_ind4 P H0 H1 H2 H3 H4 r)
  end.

Lemma binary_value_cons a b c d e r :
  binary_value (a :: b :: c :: d :: e :: r) =
  match b64_val a, b64_val b, b64_val c, b64_val d, binary_value (e :: r) with
  | Some x, Some y, Some z, Some w, Some o => Some (quad3 x y z w ++ o)
  | _, _, _, _, _ => None
  end.
Proof. reflexivity. Qed.

Lemma binary_grammar_cons a b c d e r :
  binary_grammar (a :: b :: c :: d :: e :: r) =
  is_b64_chr a && is_b64_chr b && is_b64_chr c && is_b64_chr d && binary_grammar (e :: r).
Proof. reflexivity. Qed.

Lemma binary_canonical_cons a b c d e r : binary_canonical (a :: b :: c :: d :: e :: r) = binary_canonical (e :: r).
Proof. reflexivity. Qed.

Lemma b64_chr_inj i j : i < 64 -> j < 64 -> b64_chr i = b64_chr j -> i = j.
Proof.
  intros Hi Hj E. pose proof (b64_val_chr i Hi) as H1. rewrite E, (b64_val_chr j Hj) in H1. now injection H1.
Qed.

(* the last quantum *)
Lemma binary_value_last a b c d o : binary_value [a; b; c; d] = Some o ->
  a2b [a; b; c; d] 0 0 0 = Ok o /\ all_ascii [a; b; c; d] = true /\ octets o
  /\ binary_grammar [a; b; c; d] = true /\ (b64_enc o = [a; b; c; d] <-> binary_canonical [a; b; c; d] = true).
Proof.
  cbn [binary_value binary_grammar binary_canonical]. unfold is_b64_chr, all_ascii. cbn [forallb].
  destruct (b64_val a) as [x|] eqn:Ea; [|discriminate]. destruct (b64_val b) as [y|] eqn:Eb; [|discriminate].
  destruct (b64_val_spec a x Ea) as (Hx & _ & Aa & Ca). destruct (b64_val_spec b y Eb) as (Hy & _ & Ab & Cb).
  rewrite Aa, Ab. cbn [andb].
  destruct (c =? 61) eqn:Ec.
  - apply N.eqb_eq in Ec. subst c. destruct (d =? 61) eqn:Ed; [|discriminate]. apply N.eqb_eq in Ed. subst d.
    intros H. injection H as <-. split; [exact (a2b_pad2 a b x y Ea Eb)|]. split; [reflexivity|].
    split; [repeat constructor; lia|]. split; [reflexivity|].
    destruct (quad3_fields x y 0 0 Hx Hy ltac:(lia) ltac:(lia)) as (_ & _ & _ & F1 & _).
    destruct (pad_fields x y 0 Hx Hy ltac:(lia)) as (P1 & _ & P3 & _ & P5 & _).
    cbn [b64_enc N.eqb Pos.eqb]. rewrite F1, P1, Ca. split.
    + intros E. injection E as E. rewrite <- Cb in E. apply b64_chr_inj in E; auto. apply N.eqb_eq. now apply P5.
    + intros E. apply N.eqb_eq in E. apply P5 in E. now rewrite E, Cb.
  - destruct (b64_val c) as [z|] eqn:Ez; [|discriminate].
    destruct (b64_val_spec c z Ez) as (Hz & _ & Ac & Cc). rewrite Ac. cbn [andb orb].
    destruct (d =? 61) eqn:Ed.
    + apply N.eqb_eq in Ed. subst d. intros H. injection H as <-. split; [exact (a2b_pad1 a b c x y z Ea Eb Ez)|].
      split; [reflexivity|].
      destruct (quad3_fields x y z 0 Hx Hy Hz ltac:(lia)) as (B1 & B2 & _ & F1 & F2 & _).
      destruct (pad_fields x y z Hx Hy Hz) as (_ & P2 & _ & P4 & _ & P6).
      split; [repeat constructor; assumption|]. split; [now rewrite orb_true_r|].
      cbn [b64_enc]. rewrite F1, F2, P2, Ca, Cb. split.
      * intros E. injection E as E. rewrite <- Cc in E. apply b64_chr_inj in E; auto. apply N.eqb_eq. now apply P6.
      * intros E. apply N.eqb_eq in E. apply P6 in E. now rewrite E, Cc.
    + destruct (b64_val d) as [w|] eqn:Ew; [|discriminate].
      destruct (b64_val_spec d w Ew) as (Hw & _ & Ad & Cd). rewrite Ad.
      intros H. injection H as <-.
      destruct (quad3_fields x y z w Hx Hy Hz Hw) as (B1 & B2 & B3 & F1 & F2 & F3 & F4).
      split; [rewrite (a2b_quad4 a b c d x y z w [] Ea Eb Ez Ew); reflexivity|]. split; [reflexivity|].
      split; [repeat constructor; assumption|]. split; [reflexivity|].
      cbn [quad3 b64_enc]. rewrite F1, F2, F3, F4, Ca, Cb, Cc, Cd. split; reflexivity.
Qed.

(* every RFC 5545 "binary" text, canonical or not: what base64.b64decode returns is the octet sequence that
   RFC 4648 assigns to it; re-encoding gives the text back exactly when it is canonical *)
Lemma binary_value_spec t : forall o, binary_value t = Some o ->
  a2b t 0 0 0 = Ok o /\ all_ascii t = true /\ octets o /\ binary_grammar t = true
  /\ (b64_enc o = t <-> binary_canonical t = true).
Proof.
  induction t as [|a|a b|a b c|a b c d r IH] using list_ind4; intros o H; try discriminate.
  - injection H as <-. repeat split; constructor.
  - destruct r as [|e r]; [exact (binary_value_last a b c d o H)|].
    rewrite binary_value_cons in H.
    destruct (b64_val a) as [x|] eqn:Ea; [|discriminate]. destruct (b64_val b) as [y|] eqn:Eb; [|discriminate].
    destruct (b64_val c) as [z|] eqn:Ez; [|discriminate]. destruct (b64_val d) as [w|] eqn:Ew; [|discriminate].
    destruct (binary_value (e :: r)) as [o'|] eqn:Er; [|discriminate]. injection H as <-.
    destruct (IH o' eq_refl) as (I1 & I2 & I3 & I4 & I5).
    destruct (b64_val_spec a x Ea) as (Hx & _ & Aa & Ca). destruct (b64_val_spec b y Eb) as (Hy & _ & Ab & Cb).
    destruct (b64_val_spec c z Ez) as (Hz & _ & Ac & Cc). destruct (b64_val_spec d w Ew) as (Hw & _ & Ad & Cd).
    destruct (quad3_fields x y z w Hx Hy Hz Hw) as (B1 & B2 & B3 & F1 & F2 & F3 & F4).
    split; [rewrite (a2b_quad4 a b c d x y z w _ Ea Eb Ez Ew), I1; reflexivity|].
    split; [unfold all_ascii in *; cbn [forallb]; now rewrite Aa, Ab, Ac, Ad|].
    split; [cbn [quad3 app]; repeat (constructor; [assumption|]); exact I3|].
    split; [rewrite binary_grammar_cons; unfold is_b64_chr; now rewrite Ea, Eb, Ez, Ew|].
    rewrite binary_canonical_cons, <- I5. cbn [quad3 app b64_enc]. rewrite F1, F2, F3, F4, Ca, Cb, Cc, Cd.
    split; [intros E; now injection E | intros ->; reflexivity].
Qed.

Lemma binary_grammar_value t : binary_grammar t = match binary_value t with Some _ => true | None => false end.
Proof.
  induction t as [|a|a b|a b c|a b c d r IH] using list_ind4; try reflexivity.
  destruct r as [|e r].
  - cbn [binary_grammar binary_value]. unfold is_b64_chr.
    destruct (b64_val a); [|reflexivity]. destruct (b64_val b); [|reflexivity]. cbn [andb].
    destruct (c =? 61) eqn:Ec.
    + apply N.eqb_eq in Ec. subst c. cbn [b64_val N.leb N.compare Pos.compare Pos.compare_cont andb N.eqb Pos.eqb orb].
      destruct (d =? 61); reflexivity.
    + destruct (b64_val c); [|reflexivity]. cbn [andb orb]. destruct (d =? 61) eqn:Ed.
      * now rewrite orb_true_r.
      * destruct (b64_val d); reflexivity.
  - rewrite binary_grammar_cons, binary_value_cons, IH. unfold is_b64_chr.
    destruct (b64_val a); [|reflexivity]. destruct (b64_val b); [|reflexivity].
    destruct (b64_val c); [|reflexivity]. destruct (b64_val d); [|reflexivity].
    destruct (binary_value (e :: r)); reflexivity.
Qed.

(* through vBinary.from_ical *)
Lemma binary_grammar_dec t o : binary_value t = Some o ->
  dec_binary t = Ok o /\ octets o /\ (b64_enc o = t <-> binary_canonical t = true).
Proof.
  intros H. destruct (binary_value_spec t o H) as (H1 & H2 & H3 & _ & H5).
  unfold dec_binary. rewrite H2. cbn [negb]. auto.
Qed.

(* re-encoding the decoded octets of any "binary" text gives the canonical text of the same octets *)
Lemma b64_enc_canonical l : octets l -> binary_value (b64_enc l) = Some l /\ binary_canonical (b64_enc l) = true.
Proof.
  intros Ho. destruct (b64_rt l Ho) as (Hd & Hg). rewrite binary_grammar_value in Hg.
  destruct (binary_value (b64_enc l)) as [o|] eqn:E; [|discriminate].
  destruct (binary_value_spec _ _ E) as (H1 & _ & _ & _ & H5). rewrite Hd in H1. injection H1 as <-.
  split; [reflexivity|]. now apply H5.
Qed.

Lemma binary_reencode t o : binary_value t = Some o ->
  binary_value (b64_enc o) = Some o /\ binary_canonical (b64_enc o) = true.
Proof. intros H. destruct (binary_value_spec t o H) as (_ & _ & Ho & _). exact (b64_enc_canonical o Ho). Qed.

(* missing padding: alphabet characters only, their number not a multiple of 4 -> binascii.Error *)
Lemma a2b_unpadded t : forall qp left pads, forallb is_b64_chr t = true -> qp < 4 ->
  (qp + N.of_nat (List.length t)) mod 4 <> 0 -> a2b t qp left pads = ValueErr.
Proof.
  induction t as [|c r IH]; intros qp left pads Hc Hq Hm.
  - cbn [a2b]. cbn [List.length N.of_nat] in Hm. rewrite N.add_0_r, N.mod_small in Hm by assumption.
    now replace (qp =? 0) with false by lia.
  - cbn [forallb] in Hc. apply andb_true_iff in Hc as [Hc Hr]. unfold is_b64_chr in Hc.
    destruct (b64_val c) as [v|] eqn:Ev; [|discriminate]. rewrite (a2b_chr _ _ _ _ _ _ Ev).
    assert (Hlen : N.of_nat (List.length (c :: r)) = 1 + N.of_nat (List.length r)) by (cbn [List.length]; lia).
    rewrite Hlen in Hm.
    set (n := N.of_nat (List.length r)) in *. clearbody n.
    destruct (qp =? 0) eqn:E0.
    { apply N.eqb_eq in E0. subst qp. apply IH; [exact Hr|lia|lia]. }
    destruct (qp =? 1) eqn:E1.
    { apply N.eqb_eq in E1. subst qp. rewrite (IH 2 (v mod 16) 0 Hr); [reflexivity|lia|lia]. }
    destruct (qp =? 2) eqn:E2.
    { apply N.eqb_eq in E2. subst qp. rewrite (IH 3 (v mod 4) 0 Hr); [reflexivity|lia|lia]. }
    assert (qp = 3) by lia. subst qp. rewrite (IH 0 0 0 Hr); [reflexivity|lia|lia].
Qed.
Ltac Zify.zify_post_hook ::= idtac.

Lemma binary_unpadded t : forallb is_b64_chr t = true -> N.of_nat (List.length t) mod 4 <> 0 -> dec_binary t = ValueErr.
Proof.
  intros Hc Hm. unfold dec_binary.
  assert (Ha : all_ascii t = true).
  { unfold all_ascii. clear Hm. induction t as [|c r IH]; [reflexivity|]. cbn [forallb] in *.
    apply andb_true_iff in Hc as [Hc Hr]. unfold is_b64_chr in Hc. destruct (b64_val c) as [v|] eqn:Ev; [|discriminate].
    destruct (b64_val_spec c v Ev) as (_ & _ & -> & _). now rewrite IH. }
  rewrite Ha. cbn [negb]. apply a2b_unpadded; auto; lia.
Qed.

(* ================================================================ the forms stated in Props/C03.v *)
Lemma period_grammar_dec_full' t v : period_value t = Some v -> (List.length t <= 4300)%nat ->
  dec_period t = ddd_expected v /\ ddd_from_ical t = ddd_expected v.
Proof.
  intros H Hl. rewrite (ddd_dispatch_period t v H), (period_grammar_dec_full t v H Hl). now split.
Qed.

(* a grammar-valid duration of more than 4300 characters whose value is small: leading zeros *)
Definition long_zero_dur : str := 80%N :: repeat 48%N 4300 ++ [49%N; 68%N].

Local Open Scope Z_scope.
Lemma dur_digit_limit : dur_value long_zero_dur = Some 86400 /\ td_ok 86400 = true
  /\ List.length long_zero_dur = 4303%nat /\ dec_dur long_zero_dur = ValueErr /\ ddd_from_ical long_zero_dur = ValueErr.
Proof. vm_compute. repeat split; reflexivity. Qed.

Lemma ddd_disjoint_reading t :
  (List.length (ddd_readings t) <= 1)%nat /\ (forall v, ddd_value t = Some v <-> In v (ddd_readings t)).
Proof. split; [apply ddd_readings_unique | intros v; apply ddd_value_iff]. Qed.

Lemma ddd_grammar_dec_full' t v : ddd_value t = Some v -> (List.length t <= 4300)%nat ->
  ddd_from_ical t = ddd_expected v /\ (ddd_from_ical t = Ok v <-> ddd_guard v = true).
Proof. intros H Hl. split; [exact (ddd_grammar_dec_full t v H Hl) | exact (ddd_grammar_dec_exact t v H Hl)]. Qed.

Lemma binary_grammar_dec' t o : binary_value t = Some o ->
  dec_binary t = Ok o /\ Forall (fun x => (x < 256)%N) o
  /\ binary_value (b64_enc o) = Some o /\ binary_canonical (b64_enc o) = true
  /\ (b64_enc o = t <-> binary_canonical t = true).
Proof.
  intros H. destruct (binary_grammar_dec t o H) as (H1 & H2 & H3). destruct (binary_reencode t o H) as (H4 & H5).
  repeat split; try assumption; apply H3.
Qed.
