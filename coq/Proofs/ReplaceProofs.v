(* The streaming replace stage of Lib/Chain.v computes exactly Python's str.replace
   (left-to-right, non-overlapping), for every non-empty pattern.

   Invariant: from a pending proper prefix [q] of the pattern, feeding [w] and flushing
   produces [py_replace_aux pat rep 0 (q ++ w)]. *)
Require Import Lib.Base Lib.Chain Proofs.ChainProofs.
From Coq Require Import Lia Arith.
Local Open Scope nat_scope.

(* ------------------------------------------------------------------ prefix facts *)
Lemma is_prefix_app_self (p y : list N) : is_prefix p (p ++ y) = true.
Proof. apply is_prefix_spec. exists y. reflexivity. Qed.

Lemma is_prefix_length (p l : list N) : is_prefix p l = true -> length p <= length l.
Proof.
  intros H. apply is_prefix_spec in H. destruct H as [y ->]. rewrite app_length. lia.
Qed.

(* a pattern occurring at the start of x ++ y, with x no longer than it, has x as a prefix *)
Lemma is_prefix_cut : forall (x pat y : list N),
  is_prefix pat (x ++ y) = true -> length x <= length pat -> is_prefix x pat = true.
Proof.
  induction x as [|a x IH]; intros pat y Hp Hl; [reflexivity|].
  destruct pat as [|b pat]; [cbn [length] in Hl; lia|].
  cbn [app is_prefix] in Hp |- *. apply andb_true_iff in Hp. destruct Hp as [Hab Hp].
  apply N.eqb_eq in Hab. subst b. rewrite N.eqb_refl. cbn [andb].
  apply (IH pat y Hp). cbn [length] in Hl. lia.
Qed.

Lemma proper_prefix_length (q pat : list N) :
  is_prefix q pat = true -> str_eqb q pat = false -> length q < length pat.
Proof.
  intros Hp Hne. apply is_prefix_spec in Hp. destruct Hp as [y Hy].
  destruct y as [|c y].
  - rewrite app_nil_r in Hy. subst pat.
    assert (str_eqb q q = true) as Ht by (apply str_eqb_eq; reflexivity). congruence.
  - subst pat. rewrite app_length. cbn [length]. lia.
Qed.

(* ------------------------------------------------------------------ py_replace_aux facts *)
Lemma aux_skip (pat rep : list N) : forall (x y : list N) (k : nat), length x = k ->
  py_replace_aux pat rep k (x ++ y) = py_replace_aux pat rep 0 y.
Proof.
  induction x as [|c x IH]; intros y k Hk; cbn [length] in Hk; subst k.
  - reflexivity.
  - cbn [app py_replace_aux]. apply IH. reflexivity.
Qed.

(* a match at the head: emit the replacement and continue after the pattern *)
Lemma aux_match (pat rep t : list N) : pat <> [] ->
  py_replace_aux pat rep 0 (pat ++ t) = rep ++ py_replace_aux pat rep 0 t.
Proof.
  intros Hne. destruct pat as [|c p]; [congruence|].
  change ((c :: p) ++ t) with (c :: (p ++ t)).
  cbn [py_replace_aux].
  change (c :: p ++ t) with ((c :: p) ++ t).
  rewrite is_prefix_app_self.
  f_equal. apply aux_skip. cbn [length]. lia.
Qed.

(* no match starting inside e: e is copied unchanged *)
Lemma aux_copy (pat rep : list N) : forall (e t : list N),
  (forall e1 e2, e = e1 ++ e2 -> e2 <> [] -> is_prefix pat (e2 ++ t) = false) ->
  py_replace_aux pat rep 0 (e ++ t) = e ++ py_replace_aux pat rep 0 t.
Proof.
  induction e as [|c e IH]; intros t Hno; [reflexivity|].
  pose proof (Hno [] (c :: e) eq_refl ltac:(discriminate)) as H0.
  change ((c :: e) ++ t) with (c :: (e ++ t)) in H0 |- *.
  cbn [py_replace_aux]. rewrite H0.
  change ((c :: e) ++ py_replace_aux pat rep 0 t) with (c :: (e ++ py_replace_aux pat rep 0 t)).
  f_equal. apply IH. intros e1 e2 He Hne.
  apply (Hno (c :: e1) e2); [rewrite He; reflexivity|exact Hne].
Qed.

(* ------------------------------------------------------------------ lsp *)
Lemma lsp_spec (pat : list N) : forall (l e p : list N), lsp pat l = (e, p) ->
  l = e ++ p /\ is_prefix p pat = true /\ (l <> [] -> e <> []) /\
  (forall e1 e2, e = e1 ++ e2 -> e1 <> [] -> e2 <> [] -> is_prefix (e2 ++ p) pat = false).
Proof.
  induction l as [|x l IH]; intros e p H; cbn [lsp] in H.
  - inversion H; subst e p. repeat split; try reflexivity; try congruence.
    intros e1 e2 He Hn1 _. destruct e1; [congruence|discriminate].
  - destruct (is_prefix l pat) eqn:El.
    + inversion H; subst e p. repeat split; try assumption; try discriminate.
      intros e1 e2 He Hn1 Hn2. destruct e1 as [|a e1]; [congruence|].
      inversion He as [[Ha He']]. destruct e1; [|discriminate]. cbn [app] in He'. congruence.
    + destruct (lsp pat l) as [e' p'] eqn:Er. inversion H; subst e p.
      destruct (IH e' p' eq_refl) as (Hl & Hp & _ & Hno).
      repeat split; try assumption; try discriminate.
      * rewrite Hl at 1. reflexivity.
      * intros e1 e2 He Hn1 Hn2. destruct e1 as [|a e1]; [congruence|].
        inversion He as [[Ha He']]. destruct e1 as [|b e1].
        -- cbn [app] in He'. subst e2. rewrite <- Hl. exact El.
        -- apply (Hno (b :: e1) e2); [exact He'|discriminate|exact Hn2].
Qed.

(* ------------------------------------------------------------------ the invariant *)
Lemma stage_feed_inv (pat rep : list N) : pat <> [] ->
  forall (w q : list N), is_prefix q pat = true -> length q < length pat ->
  (let '(p, o) := stage_feed (pat, rep) q w in o ++ p) = py_replace_aux pat rep 0 (q ++ w).
Proof.
  intros Hne. induction w as [|a w IH]; intros q Hq Hlq.
  - cbn [stage_feed app].
    rewrite aux_copy; [cbn [py_replace_aux]; rewrite app_nil_r; reflexivity|].
    intros e1 e2 He _. destruct (is_prefix pat (e2 ++ [])) eqn:E; [|reflexivity].
    apply is_prefix_length in E. rewrite app_nil_r in E.
    assert (length q = length e1 + length e2) by (rewrite He, app_length; reflexivity). lia.
  - cbn [stage_feed]. unfold stage_step.
    assert ([] <> pat) as Hne' by congruence.
    assert (0 < length pat) as Hl0 by (destruct pat; [congruence|cbn [length]; lia]).
    replace (q ++ a :: w) with ((q ++ [a]) ++ w) by (rewrite <- app_assoc; reflexivity).
    destruct (str_eqb (q ++ [a]) pat) eqn:Eeq.
    + (* the pattern completes *)
      apply str_eqb_eq in Eeq.
      specialize (IH [] eq_refl Hl0). cbn [app] in IH.
      destruct (stage_feed (pat, rep) [] w) as [p2 o2].
      rewrite Eeq, aux_match by exact Hne. rewrite <- app_assoc, IH. reflexivity.
    + destruct (is_prefix (q ++ [a]) pat) eqn:Epre.
      * (* still a proper prefix: nothing emitted *)
        specialize (IH (q ++ [a]) Epre (proper_prefix_length _ _ Epre Eeq)).
        destruct (stage_feed (pat, rep) (q ++ [a]) w) as [p2 o2].
        cbn [app]. exact IH.
      * (* mismatch: shift *)
        destruct (lsp pat (q ++ [a])) as [e p] eqn:El.
        destruct (lsp_spec pat _ _ _ El) as (Hsplit & Hp & Hene & Hno).
        assert (e <> []) as He by (apply Hene; destruct q; discriminate).
        assert (length (q ++ [a]) = length e + length p) as Hlen
          by (rewrite Hsplit, app_length; reflexivity).
        rewrite app_length in Hlen. cbn [length] in Hlen.
        assert (length p < length pat) as Hlp.
        { destruct e; [congruence|]. cbn [length] in Hlen. lia. }
        specialize (IH p Hp Hlp).
        destruct (stage_feed (pat, rep) p w) as [p2 o2].
        rewrite <- app_assoc, IH, Hsplit, <- app_assoc.
        symmetry. apply aux_copy.
        intros e1 e2 He12 Hn2.
        destruct (is_prefix pat (e2 ++ p ++ w)) eqn:Em; [|reflexivity]. exfalso.
        rewrite app_assoc in Em.
        assert (length e = length e1 + length e2) as Hle
          by (rewrite He12, app_length; reflexivity).
        apply is_prefix_cut in Em; [|rewrite app_length; lia].
        destruct e1 as [|b e1].
        -- cbn [app] in He12. subst e2. rewrite <- Hsplit in Em. congruence.
        -- rewrite (Hno (b :: e1) e2 He12 ltac:(discriminate) Hn2) in Em. discriminate.
Qed.

(* ------------------------------------------------------------------ the theorems *)
Theorem stage_run_py_replace : forall pat rep s, pat <> [] ->
  stage_run (pat, rep) s = py_replace pat rep s.
Proof.
  intros pat rep s Hne. unfold stage_run, py_replace.
  apply (stage_feed_inv pat rep Hne s [] eq_refl).
  destruct pat; [congruence|cbn [length]; lia].
Qed.

Corollary seq_run_py_replace : forall ch s, Forall (fun st : stage => fst st <> []) ch ->
  seq_run ch s = fold_left (fun acc (st : stage) => py_replace (fst st) (snd st) acc) ch s.
Proof.
  unfold seq_run. induction ch as [|[pat rep] ch IH]; intros s Hall; [reflexivity|].
  inversion Hall as [|st ch' Hst Hch]; subst. cbn [fst] in Hst.
  cbn [fold_left fst snd]. rewrite (stage_run_py_replace pat rep s Hst). apply IH. exact Hch.
Qed.
