(* Proofs for Model/TzGen.v (C13). *)
Require Import Lib.Base Model.Params Model.TzRules Model.TzGen Gen.Gen_tz Proofs.TzRulesProofs.
From Coq Require Import ZArith List Bool Lia ZifyBool Arith.
Import ListNotations.
Open Scope Z_scope.

Section GenProofs.
  Variable off : Z -> Z.
  Variable dstv : Z -> Z.
  Variable name : Z -> list N.
  Variable wall_of : Z -> Z.
  Variable H : Z.

  Notation walk := (walk off H).
  Notation search := (search off H).
  Notation search_cap := (search_cap off H).
  Notation loop := (loop off dstv name wall_of H).

  (* one level: the offset is a on [e, c), differs from a on [c, c+M), the step is at most M *)
  Lemma walk_finds : forall fuel a skip e c M,
    0 < skip <= M -> e < c -> c + M <= H + 1 ->
    (forall x, e < x < c -> off x = a) -> (forall x, c <= x < c + M -> off x <> a) ->
    c - e <= Z.of_nat fuel * skip ->
    exists e', walk fuel a skip e = Some (e', false) /\ e <= e' < c /\ c <= e' + skip.
  Proof.
    induction fuel as [|n IH]; intros a skip e c M Hs Hec HcH Ha Hb Hf; [simpl in Hf; lia|].
    simpl. destruct (H <? e + skip) eqn:EH.
    - (* e + skip > H >= c + M - 1: impossible unless e + skip >= c + M, but skip <= M and e < c *)
      exfalso. lia.
    - destruct (Z_lt_ge_dec (e + skip) c) as [Hlt|Hge].
      + rewrite (Ha (e + skip)) by lia. rewrite Z.eqb_refl.
        destruct (IH a skip (e + skip) c M) as (e' & Hw & Hr1 & Hr2); auto; try lia.
        * intros x Hx. apply Ha. lia.
        * exists e'. split; auto. lia.
      + assert (off (e + skip) <> a) as Hne by (apply Hb; lia).
        apply Z.eqb_neq in Hne. rewrite Hne. exists e. split; auto. lia.
  Qed.

  (* one level on a zone that stays at a up to the horizon: OverflowError *)
  Lemma walk_const : forall fuel a skip e,
    0 < skip -> e <= H -> (forall x, e < x <= H -> off x = a) ->
    H - e < Z.of_nat fuel * skip ->
    exists e', walk fuel a skip e = Some (e', true) /\ e <= e' <= H /\ H < e' + skip.
  Proof.
    induction fuel as [|n IH]; intros a skip e Hs HeH Ha Hf; [simpl in Hf; lia|].
    simpl. destruct (H <? e + skip) eqn:EH.
    - exists e. split; auto. lia.
    - rewrite (Ha (e + skip)) by lia. rewrite Z.eqb_refl.
      destruct (IH a skip (e + skip)) as (e' & Hw & Hr1 & Hr2); auto; try lia.
      + intros x Hx. apply Ha. lia.
      + exists e'. split; auto. lia.
  Qed.

  Lemma walk_fuel_enough : forall cap skip e d, 0 < cap -> 0 < skip -> e <= H ->
    d <= H - e + 1 -> d <= cap * skip ->
    d <= Z.of_nat (walk_fuel H cap skip e) * skip.
  Proof.
    intros cap skip e d Hc Hs He Hd Hcap. unfold walk_fuel.
    pose proof (Z.div_mod (H - e) skip ltac:(lia)) as Hdm.
    pose proof (Z.mod_pos_bound (H - e) skip Hs) as Hmb.
    assert (0 <= (H - e) / skip) as Hq by (apply Z.div_pos; lia).
    rewrite Z2Nat.id by lia.
    destruct (Z.min_spec ((H - e) / skip + 2) cap) as [[_ E]|[_ E]]; rewrite E; nia.
  Qed.

  (* consecutive skips shrink by at most the cap factor *)
  Fixpoint chain (l : list Z) : Prop :=
    match l with
    | k :: ((k2 :: _) as r) => k <= fine_cap * k2 /\ chain r
    | _ => True
    end.

  (* the coarse-to-fine search returns the last point before the next change of the offset *)
  Lemma search_cap_finds : forall skips cap a e c M, 0 < cap ->
    skips <> [] -> Forall (fun k => 0 < k <= M) skips -> chain skips ->
    c - e <= cap * hd 1 skips ->
    e < c -> c + M <= H + 1 ->
    (forall x, e < x < c -> off x = a) -> (forall x, c <= x < c + M -> off x <> a) ->
    exists r, search_cap cap skips a e = Some r /\ e <= r < c /\ c <= r + last skips 1.
  Proof.
    induction skips as [|k r IH]; intros cap a e c M Hc0 Hne Hall Hch Hcap Hec HcH Ha Hb; [congruence|].
    inversion Hall as [|? ? Hk Hall']; subst. cbn [hd] in Hcap.
    destruct (walk_finds (walk_fuel H cap k e) a k e c M Hk Hec HcH Ha Hb) as (e' & Hw & Hr1 & Hr2).
    { apply walk_fuel_enough; lia. }
    cbn [TzGen.search_cap]. rewrite Hw.
    destruct r as [|k2 r2].
    - exists e'. simpl. split; auto.
    - destruct Hch as [Hk2 Hch'].
      destruct (IH fine_cap a e' c M) as (x & Hx & Hx1 & Hx2); auto; try lia; try discriminate; try reflexivity.
      + cbn [hd]. lia.
      + intros y Hy. apply Ha. lia.
      + exists x. split; auto. split; [lia|]. exact Hx2.
  Qed.

  Lemma search_finds : forall skips a e c M,
    skips <> [] -> Forall (fun k => 0 < k <= M) skips -> chain skips ->
    c - e <= fuel_cap * hd 1 skips ->
    e < c -> c + M <= H + 1 ->
    (forall x, e < x < c -> off x = a) -> (forall x, c <= x < c + M -> off x <> a) ->
    exists r, search skips a e = Some r /\ e <= r < c /\ c <= r + last skips 1.
  Proof. intros. apply search_cap_finds with (M := M); auto. reflexivity. Qed.

  Lemma search_const : forall k r a e,
    0 < k -> e <= H -> H - e + 1 <= fuel_cap * k -> (forall x, e < x <= H -> off x = a) ->
    exists x, search (k :: r) a e = Some x /\ H - k < x.
  Proof.
    intros k r a e Hk He Hcap Ha.
    destruct (walk_const (walk_fuel H fuel_cap k e) a k e Hk He Ha) as (e' & Hw & Hr1 & Hr2).
    { pose proof (walk_fuel_enough fuel_cap k e (H - e + 1) ltac:(reflexivity) Hk He ltac:(lia) Hcap). lia. }
    unfold TzGen.search. cbn [TzGen.search_cap]. rewrite Hw. exists e'. split; auto. lia.
  Qed.

  (* the zone as the search sees it: change points c1 < c2 < ... of the offset after s; for M seconds
     after a change the offset does not return to the value before it; after the last change point
     the offset stays to the horizon *)
  Fixpoint pieces (M K s : Z) (cps : list Z) : Prop :=
    H - s + 1 <= fuel_cap * K /\
    match cps with
    | [] => s <= H /\ forall x, s <= x <= H -> off x = off s
    | c :: r => s < c /\ c + M <= H + 1 /\ (forall x, s <= x < c -> off x = off s)
                /\ (forall x, c <= x < c + M -> off x <> off s) /\ pieces M K c r
    end.

  (* what the loop must record: one entry per interval that starts before [last] *)
  Fixpoint expected (lst s : Z) (prev : option Z) (cps : list Z) : list grec :=
    if s <? lst then
      mkRec prev (off s) (name s) (dstv s =? 0) (wall_of s) ::
      match cps with [] => [] | c :: r => expected lst c (Some (off s)) r end
    else [].

  Lemma loop_correct : forall skips M lst,
    skips <> [] -> Forall (fun k => 0 < k <= M) skips -> chain skips -> last skips 1 = 1 -> lst <= H - M ->
    forall cps s prev fuel, pieces M (hd 1 skips) s cps -> (length cps + 2 <= fuel)%nat ->
    loop fuel skips lst s prev = Some (expected lst s prev cps).
  Proof.
    intros skips M lst Hne Hall Hch Hlast HlastH.
    induction cps as [|c r IH]; intros s prev fuel Hp Hf.
    - destruct fuel as [|[|n]]; simpl in Hf; try lia.
      destruct Hp as (Hcap & HsH & Hconst). cbn [TzGen.loop expected].
      destruct (s <? lst) eqn:Es; auto.
      destruct skips as [|k rs]; [congruence|]. inversion Hall as [|? ? Hk _]; subst.
      destruct (search_const k rs (off s) s ltac:(lia) HsH) as (x & Hx & Hxk).
      { cbn [hd] in Hcap. exact Hcap. } { intros y Hy. apply Hconst. lia. }
      rewrite Hx. rewrite Hlast.
      assert (x + 1 <? lst = false) as E2 by lia. cbn [TzGen.loop]. rewrite E2. reflexivity.
    - destruct fuel as [|n]; simpl in Hf; try lia.
      destruct Hp as (Hcap & Hsc & HcH & Ha & Hb & Hrest). cbn [TzGen.loop expected].
      destruct (s <? lst) eqn:Es.
      + destruct (search_finds skips (off s) s c M Hne Hall Hch) as (x & Hx & Hx1 & Hx2); auto.
        { assert (0 <= M) by (destruct skips as [|k0 ?]; [congruence|inversion Hall; lia]). lia. }
        { intros y Hy. apply Ha. lia. }
        rewrite Hx. rewrite Hlast in *. assert (x + 1 = c) as -> by lia.
        rewrite (IH c (Some (off s)) n Hrest ltac:(lia)). reflexivity.
      + reflexivity.
  Qed.
End GenProofs.

(* the generated skip list: ends with one second, every step positive and at most 64 days *)
Lemma skips_facts :
  from_tzinfo_skips <> [] /\ Forall (fun k => 0 < k <= 5529600) from_tzinfo_skips /\ last from_tzinfo_skips 1 = 1
  /\ chain from_tzinfo_skips /\ hd 1 from_tzinfo_skips = 5529600.
Proof.
  split; [discriminate|]. split; [|split; [reflexivity|split; [unfold fine_cap; simpl; lia|reflexivity]]].
  apply Forall_forall. intros k Hk.
  assert (forallb (fun k => (0 <? k) && (k <=? 5529600)) from_tzinfo_skips = true) as E by (vm_compute; reflexivity).
  rewrite forallb_forall in E. specialize (E k Hk). lia.
Qed.

(* ------------------------------------------------------------------ statements over the generated skip list *)
Lemma search_finds_gen : forall (off : Z -> Z) (H a e c : Z),
  e < c -> c - e <= fuel_cap * 5529600 -> c + 5529600 <= H + 1 ->
  (forall x, e < x < c -> off x = a) -> (forall x, c <= x < c + 5529600 -> off x <> a) ->
  search off H from_tzinfo_skips a e = Some (c - 1).
Proof.
  intros off H a e c Hec Hcap HcH Ha Hb.
  destruct skips_facts as (Hne & Hall & Hlast & Hch & Hhd).
  destruct (search_finds off H from_tzinfo_skips a e c 5529600 Hne Hall Hch) as (r & Hr & Hr1 & Hr2); auto.
  rewrite Hlast in Hr2. rewrite Hr. f_equal. lia.
Qed.

Lemma loop_correct_gen : forall off dstv name wall_of H lst cps s prev fuel,
  lst <= H - 5529600 -> pieces off H 5529600 5529600 s cps -> (length cps + 2 <= fuel)%nat ->
  loop off dstv name wall_of H fuel from_tzinfo_skips lst s prev =
  Some (expected off dstv name wall_of lst s prev cps).
Proof.
  intros. destruct skips_facts as (Hne & Hall & Hlast & Hch & Hhd).
  apply loop_correct with (M := 5529600); auto.
Qed.

(* ------------------------------------------------------------------ abstract witnesses of the three defects *)
Definition dS : Z * Z * list N := (3600, 0, s2l "S").
(* one transition +1h -> +2h at instant 10^7 *)
Definition shift_tab : ztab := [(10000000, (7200, 3600, s2l "D"))].
Definition shift_gen_pytz := from_tzinfo_tab shift_tab dS true 1000000000 50 0 20000000 20044800.
(* the same zone on the wall axis of zoneinfo (fold=0): the wall offset changes after the gap *)
Definition shift_wtab : ztab := [(10007200, (7200, 3600, s2l "D"))].
Definition shift_gen_zoneinfo := from_tzinfo_tab shift_wtab dS false 1000000000 50 3600 20044800 20044800.

Lemma shift_refutes :
  shift_gen_pytz = Ok [mkGobs true 3600 3600 (s2l "S") 3600 []; mkGobs false 3600 7200 (s2l "D") 10007200 []] /\
  shift_gen_zoneinfo = Ok [mkGobs true 3600 3600 (s2l "S") 3600 []; mkGobs false 3600 7200 (s2l "D") 10007200 []] /\
  tab_off shift_tab dS 10000000 = 7200 /\
  rfc_offset (to_vtz [mkGobs true 3600 3600 (s2l "S") 3600 []; mkGobs false 3600 7200 (s2l "D") 10007200 []]) 10000000
    = Some (3600, Some (s2l "S"), false) /\
  rfc_offset (to_vtz [mkGobs true 3600 3600 (s2l "S") 3600 []; mkGobs false 3600 7200 (s2l "D") 10007200 []]) 10003600
    = Some (7200, Some (s2l "D"), true).
Proof. vm_compute. repeat split; reflexivity. Qed.

(* a 30-day excursion to +1h, 10 days after the start: no sampled point of the 64-day level sees it *)
Definition d0 : Z * Z * list N := (0, 0, s2l "S").
Definition short_tab : ztab := [(864000, (3600, 3600, s2l "D")); (3456000, (0, 0, s2l "S"))].
Definition short_gen := from_tzinfo_tab short_tab d0 false 1000000000 50 0 17280000 17280000.
Lemma short_refutes :
  short_gen = Ok [mkGobs true 0 0 (s2l "S") 0 []] /\
  tab_off short_tab d0 1728000 = 3600 /\
  rfc_offset (to_vtz [mkGobs true 0 0 (s2l "S") 0 []]) 1728000 = Some (0, Some (s2l "S"), false).
Proof. vm_compute. repeat split; reflexivity. Qed.

(* abbreviation and DST flag change at constant offset: the search compares utcoffset() only *)
Definition name_tab : ztab := [(10000000, (3600, 3600, s2l "X"))].
Definition name_gen := from_tzinfo_tab name_tab dS false 1000000000 50 0 20044800 20044800.
Lemma name_refutes :
  name_gen = Ok [mkGobs true 3600 3600 (s2l "S") 0 []] /\
  tab_name name_tab dS 15000000 = s2l "X" /\ tab_dst name_tab dS 15000000 = 3600 /\
  rfc_offset (to_vtz [mkGobs true 3600 3600 (s2l "S") 0 []]) 15000000 = Some (3600, Some (s2l "S"), false).
Proof. vm_compute. repeat split; reflexivity. Qed.

(* a well-behaved zone: two transitions a year apart -- the hypotheses of the loop theorem hold and
   all three intervals are recorded *)
Definition good_tab : ztab := [(10000000, (7200, 3600, s2l "D")); (40000000, (3600, 0, s2l "S"))].
Lemma good_gen :
  from_tzinfo_tab good_tab dS true 1000000000 50 0 60000000 60048000 =
  Ok [mkGobs true 3600 3600 (s2l "S") 3600 []; mkGobs false 3600 7200 (s2l "D") 10007200 [];
      mkGobs true 7200 3600 (s2l "S") 40003600 []].
Proof. vm_compute. reflexivity. Qed.
