(* vInt, vBoolean, vWeekday, vFrequency, vMonth, vUri/vCalAddress: round trips and RFC readings. *)
Require Import Lib.Base Model.Params Model.CodecBase Model.CodecMisc Gen.Gen_prop
        Proofs.CodecBaseProofs.
From Coq Require Import ZArith List Bool Lia ZifyBool.
Local Open Scope Z_scope.

Lemma str_eqb_true a : forall b, str_eqb a b = true -> a = b.
Proof.
  induction a as [|x a IH]; destruct b as [|y b]; simpl; intros H; try discriminate; auto.
  apply andb_true_iff in H as [H1 H2]. apply N.eqb_eq in H1. subst. f_equal. auto.
Qed.

Lemma all_ascii_app' a b : all_ascii (a ++ b) = all_ascii a && all_ascii b.
Proof. unfold all_ascii. apply forallb_app. Qed.

(* ---------------------------------------------------------------- INTEGER *)
Lemma ndigits_signed ds : forallb is_digit ds = true -> ndigits (45%N :: ds) = Z.of_nat (List.length ds).
Proof. intros H. unfold ndigits. cbn [filter is_digit N.leb N.compare Pos.compare Pos.compare_cont andb]. now apply ndigits_digits. Qed.

(* every integer whose decimal expansion CPython agrees to print survives vInt(z).to_ical() /
   from_ical, and what is written is an RFC integer denoting it *)
Lemma int_rt z t : enc_int z = Ok t -> dec_int t = Ok z /\ int_value t = Some z.
Proof.
  unfold enc_int, py_str_int, dec_int. destruct (int_max_str_digits <? ndigits (str_of_Z z)) eqn:El; [discriminate|].
  intros H. injection H as <-. unfold int_max_str_digits in El.
  destruct (Z_lt_ge_dec z 0) as [Hneg|Hpos].
  - rewrite (str_of_Z_neg z Hneg) in *. destruct (str_of_Z_nonneg (- z) ltac:(lia)) as (Hne & Hd & Hv).
    rewrite (ndigits_signed _ Hd) in El. split.
    + rewrite py_int_signed by (auto; lia). cbn [N.eqb Pos.eqb]. f_equal. lia.
    + unfold int_value. cbn [N.eqb Pos.eqb]. rewrite Hd. destruct (str_of_Z (- z)); [congruence|]. f_equal. lia.
  - destruct (str_of_Z_nonneg z ltac:(lia)) as (Hne & Hd & Hv).
    rewrite (ndigits_digits _ Hd) in El. split.
    + rewrite py_int_digits by (auto; lia). now rewrite Hv.
    + unfold int_value. destruct (str_of_Z z) as [|c r] eqn:E; [congruence|].
      pose proof Hd as Hd'. cbn [forallb] in Hd'. apply andb_true_iff in Hd' as [Hc _]. apply is_digit_range in Hc.
      replace (c =? 45)%N with false by lia. replace (c =? 43)%N with false by lia. rewrite Hd. now rewrite Hv.
Qed.

(* ... and CPython does agree for every |z| < 10^4300, in particular for all 32- and 64-bit integers *)
Lemma int_enc_total z : Z.abs z < 10 ^ 4300 -> exists t, enc_int z = Ok t.
Proof.
  intros Hz. unfold enc_int, py_str_int. eexists.
  replace (int_max_str_digits <? ndigits (str_of_Z z)) with false; [reflexivity|]. symmetry. apply Z.ltb_ge.
  unfold int_max_str_digits.
  destruct (Z_lt_ge_dec z 0) as [Hneg|Hpos].
  - rewrite (str_of_Z_neg z Hneg). assert (Hnz : 0 <= - z) by (clear Hz; lia).
    destruct (str_of_Z_nonneg (- z) Hnz) as (_ & Hd & _).
    rewrite (ndigits_signed _ Hd). apply str_of_Z_len; [|lia]. set (B := 10 ^ 4300) in *. clearbody B. lia.
  - assert (Hnz : 0 <= z) by (clear Hz; lia).
    destruct (str_of_Z_nonneg z Hnz) as (_ & Hd & _). rewrite (ndigits_digits _ Hd).
    apply str_of_Z_len; [|lia]. set (B := 10 ^ 4300) in *. clearbody B. lia.
Qed.

(* every grammar-valid INTEGER text of at most 4300 characters is decoded to its value *)
Lemma int_grammar_dec t v : int_value t = Some v -> (List.length t <=? 4300)%nat = true -> dec_int t = Ok v.
Proof.
  unfold int_value, dec_int. intros H Hl. apply Nat.leb_le in Hl.
  destruct t as [|c r]; [discriminate|].
  destruct (c =? 45)%N eqn:E45; [|destruct (c =? 43)%N eqn:E43].
  - apply N.eqb_eq in E45. subst c. destruct r as [|d r']; [discriminate|].
    destruct (forallb is_digit (d :: r')) eqn:Hd; [|discriminate]. injection H as <-.
    rewrite py_int_signed; auto; try discriminate. cbn [List.length] in *. lia.
  - apply N.eqb_eq in E43. subst c. destruct r as [|d r']; [discriminate|].
    destruct (forallb is_digit (d :: r')) eqn:Hd; [|discriminate]. injection H as <-.
    rewrite py_int_signed; auto; try discriminate. cbn [List.length] in *. lia.
  - destruct (forallb is_digit (c :: r)) eqn:Hd; [|discriminate]. injection H as <-.
    rewrite py_int_digits; auto; try discriminate. lia.
Qed.

(* ---------------------------------------------------------------- BOOLEAN *)
Lemma bool_rt b : dec_bool (enc_bool b) = Ok b /\ bool_value (enc_bool b) = Some b.
Proof. destruct b; vm_compute; split; reflexivity. Qed.

Lemma bool_grammar_dec t b : bool_value t = Some b -> all_ascii t = true -> dec_bool t = Ok b.
Proof.
  unfold bool_value, dec_bool. intros H Ha. rewrite Ha. cbn [negb].
  destruct (str_eqb (upper t) (s2l "TRUE")) eqn:E1.
  - apply str_eqb_true in E1. rewrite E1. injection H as <-. reflexivity.
  - destruct (str_eqb (upper t) (s2l "FALSE")) eqn:E2; [|discriminate].
    apply str_eqb_true in E2. rewrite E2. injection H as <-. reflexivity.
Qed.

(* ---------------------------------------------------------------- weekdaynum (finite domain) *)
(* the RFC weekdaynum texts: no number; or [+/-] and a number 1..53 written without leading zero *)
Definition wk_sign (sg : option bool) : str :=
  match sg with None => [] | Some false => [43%N] | Some true => [45%N] end.
Definition wk_text (sg : option bool) (n : option Z) (wd : str) : str :=
  wk_sign sg ++ match n with Some k => str_of_Z k | None => [] end ++ wd.
Definition wk_rel (sg : option bool) (n : option Z) : option Z :=
  match n with Some k => Some (match sg with Some true => - k | _ => k end) | None => None end.

Definition chk_wk (sg : option bool) (n : option Z) (wd : str) : bool :=
  let v := wk_text sg n wd in
  match dec_weekday (enc_weekday v), weekday_value v with
  | Ok (v', r', wd'), Some (r2, wd2) =>
      str_eqb v' v && str_eqb wd' wd && str_eqb wd2 wd
      && match r', r2, wk_rel sg n with
         | Some a, Some b, Some c => (a =? c) && (b =? c)
         | None, None, None => true
         | _, _, _ => false
         end
  | _, _ => false
  end.

Definition wk_signs : list (option bool) := [None; Some false; Some true].

Lemma chk_wk_all :
  forallb (fun wd => chk_wk None None wd
                     && forallb (fun sg => forallb (fun k => chk_wk sg (Some (Z.of_nat k + 1)) wd) (seq 0 53)) wk_signs)
          rfc_weekdays = true.
Proof. vm_compute. reflexivity. Qed.

Lemma weekday_rt sg n wd :
  In wd rfc_weekdays -> In sg wk_signs ->
  match n with Some k => 1 <= k <= 53 | None => sg = None end ->
  dec_weekday (enc_weekday (wk_text sg n wd)) = Ok (wk_text sg n wd, wk_rel sg n, wd)
  /\ weekday_value (wk_text sg n wd) = Some (wk_rel sg n, wd).
Proof.
  intros Hwd Hsg Hn. pose proof chk_wk_all as H. rewrite forallb_forall in H. specialize (H wd Hwd).
  apply andb_true_iff in H as [H0 H1].
  assert (Hc : chk_wk sg n wd = true).
  { destruct n as [k|].
    - rewrite forallb_forall in H1. specialize (H1 sg Hsg).
      pose proof (forall_Z_below (fun z => chk_wk sg (Some (z + 1)) wd) 53 H1 (k - 1) ltac:(lia)) as Hk.
      cbn beta in Hk. now replace (k - 1 + 1) with k in Hk by lia.
    - subst sg. exact H0. }
  unfold chk_wk in Hc.
  destruct (dec_weekday (enc_weekday (wk_text sg n wd))) as [[[v' r'] wd']| | |]; try discriminate.
  destruct (weekday_value (wk_text sg n wd)) as [[r2 wd2]|]; try discriminate.
  apply andb_true_iff in Hc as [Hc Hr]. apply andb_true_iff in Hc as [Hc E3].
  apply andb_true_iff in Hc as [E1 E2].
  apply str_eqb_true in E1, E2, E3. subst.
  destruct r' as [a|], r2 as [b|], (wk_rel sg n) as [c|]; try discriminate.
  - apply andb_true_iff in Hr as [Ha Hb]. apply Z.eqb_eq in Ha, Hb. subst. auto.
  - auto.
Qed.

(* ---------------------------------------------------------------- freq (finite domain) *)
Lemma frequency_rt f : In f rfc_freqs ->
  dec_freq (enc_freq f) = Ok f /\ freq_grammar (enc_freq f) = true.
Proof.
  intros H. cbn in H.
  repeat (destruct H as [<-|H]; [vm_compute; split; reflexivity|]). destruct H.
Qed.

(* the generated table is exactly the RFC's seven names *)
Lemma frequencies_table : map fst frequencies = rfc_freqs /\ map snd frequencies = rfc_freqs.
Proof. vm_compute. split; reflexivity. Qed.

Lemma week_days_table : map fst week_days = rfc_weekdays.
Proof. vm_compute. reflexivity. Qed.

Lemma freq_grammar_dec t : freq_grammar t = true -> all_ascii t = true -> dec_freq t = Ok (upper t).
Proof.
  unfold freq_grammar, dec_freq. intros H Ha. rewrite Ha. cbn [negb].
  apply existsb_exists in H as (f & Hin & He). apply str_eqb_true in He. rewrite He.
  cbn in Hin. repeat (destruct Hin as [<-|Hin]; [vm_compute; reflexivity|]). destruct Hin.
Qed.

(* ---------------------------------------------------------------- monthnum [L] *)
Local Opaque py_int.

Lemma isdigit_str_digits ds : ds <> [] -> forallb is_digit ds = true -> isdigit_str ds = true.
Proof. intros Hne Hd. unfold isdigit_str. destruct ds; [congruence|exact Hd]. Qed.

Lemma isdigit_str_L ds : isdigit_str (ds ++ [76%N]) = false.
Proof.
  unfold isdigit_str. destruct (ds ++ [76%N]) eqn:E; [reflexivity|]. rewrite <- E.
  rewrite forallb_app. cbn. apply andb_false_r.
Qed.

Lemma dec_month_digits ds (leap : bool) :
  ds <> [] -> forallb is_digit ds = true -> Z.of_nat (List.length ds) <= 4300 ->
  dec_month (ds ++ (if leap then [76%N] else [])) = Ok (digs_val ds 0, leap).
Proof.
  intros Hne Hd Hl. unfold dec_month.
  assert (Ha : all_ascii (ds ++ (if leap then [76%N] else [])) = true).
  { rewrite all_ascii_app', (digits_ascii _ Hd). destruct leap; reflexivity. }
  rewrite Ha. cbn [negb]. destruct leap.
  - rewrite isdigit_str_L. rewrite rev_app_distr. cbn [rev app]. rewrite rev_involutive.
    cbn [N.eqb Pos.eqb negb andb]. rewrite py_int_digits by auto. reflexivity.
  - rewrite app_nil_r. rewrite (isdigit_str_digits _ Hne Hd). rewrite py_int_digits by auto. reflexivity.
Qed.

Lemma month_rt n leap t : 0 <= n -> enc_month n leap = Ok t -> dec_month t = Ok (n, leap).
Proof.
  intros Hn. unfold enc_month, py_str_int.
  destruct (int_max_str_digits <? ndigits (str_of_Z n)) eqn:El; [discriminate|]. cbn [bind].
  intros H. injection H as <-. destruct (str_of_Z_nonneg n Hn) as (Hne & Hd & Hv).
  rewrite (ndigits_digits _ Hd) in El. unfold int_max_str_digits in El.
  rewrite dec_month_digits by (auto; lia). now rewrite Hv.
Qed.

(* for the RFC's months 1..12 the text is monthnum [L] denoting the value *)
Lemma month_enc_grammar n leap : 1 <= n <= 12 ->
  exists t, enc_month n leap = Ok t /\ month_value t = Some (n, leap).
Proof.
  intros Hn.
  assert (H : forallb (fun k => let n := Z.of_nat k + 1 in
                 forallb (fun leap => match enc_month n leap with
                                      | Ok t => match month_value t with
                                                | Some (m, l) => (m =? n) && Bool.eqb l leap
                                                | None => false end
                                      | _ => false end) [false; true]) (seq 0 12) = true)
    by (vm_compute; reflexivity).
  pose proof (forall_Z_below (fun z => forallb (fun leap => match enc_month (z + 1) leap with
                                      | Ok t => match month_value t with
                                                | Some (m, l) => (m =? z + 1) && Bool.eqb l leap
                                                | None => false end
                                      | _ => false end) [false; true]) 12 H (n - 1) ltac:(lia)) as Hk.
  cbn beta in Hk. replace (n - 1 + 1) with n in Hk by lia. rewrite forallb_forall in Hk.
  specialize (Hk leap ltac:(destruct leap; cbn; auto)).
  destruct (enc_month n leap) as [t| | |]; try discriminate. exists t. split; [reflexivity|].
  destruct (month_value t) as [[m l]|]; try discriminate.
  apply andb_true_iff in Hk as [Hm Hl]. apply Z.eqb_eq in Hm. apply Bool.eqb_prop in Hl. now subst.
Qed.

Lemma month_grammar_dec t v : month_value t = Some v -> dec_month t = Ok v.
Proof.
  unfold month_value. destruct (span_digits t) as [ds r] eqn:E. intros H.
  destruct (span_digits_spec _ _ _ E) as (-> & Hd & _).
  destruct ((1 <=? List.length ds)%nat && (List.length ds <=? 2)%nat && (1 <=? digs_val ds 0) && (digs_val ds 0 <=? 12)) eqn:G;
    [|discriminate].
  assert (Hne : ds <> []) by (destruct ds; [discriminate|congruence]).
  assert (Hl : Z.of_nat (List.length ds) <= 4300) by lia.
  destruct r as [|c [|]]; try discriminate.
  - injection H as <-. exact (dec_month_digits ds false Hne Hd Hl).
  - destruct (c =? 76)%N eqn:Ec; [|discriminate]. apply N.eqb_eq in Ec. subst c. injection H as <-.
    exact (dec_month_digits ds true Hne Hd Hl).
Qed.

(* ---------------------------------------------------------------- URI / CAL-ADDRESS *)
Lemma uri_rt s : dec_uri (enc_uri s) = s /\ (uri_grammar s = true -> uri_grammar (enc_uri s) = true).
Proof. split; auto. Qed.
