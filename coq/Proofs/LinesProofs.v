(* Contentlines.from_ical inverts Contentlines.to_ical on every list of content lines that do not
   contain LF, are not empty and do not begin with SPACE, TAB, CR or LF (every line the
   serialiser emits begins with a property name).  Used by C01, C06, C09. *)
Require Import Lib.Base Gen.Gen_parser Model.Fold Model.Params Model.Text Model.Contentline.
Require Import Proofs.FoldProofs Proofs.ParamsProofs.
From Coq Require Import Lia Arith.

Local Notation sep := ([13; 10; 32]%N : str).

Definition good_first (c : N) : bool := negb ((c =? 32) || (c =? 9) || (c =? 10) || (c =? 13)).
Definition good_line (l : list N) : bool :=
  no_lf l && match l with c :: _ => good_first c | [] => false end.

(* ---- unfolding with a continuation *)
Lemma unfold_fold_gen_tail lim tail : hd_not_lf tail -> forall l bc, no_lf l = true ->
  unfold_aux 0 (fold_gen lim sep bc l ++ tail) = l ++ unfold_aux 0 tail.
Proof.
  intros Ht. induction l as [|c r IH]; intros bc Hl; [reflexivity|].
  apply no_lf_cons in Hl. destruct Hl as [Hc Hr].
  assert (hd_not_lf (fold_gen lim sep (ulen c) r ++ tail) /\ hd_not_lf (fold_gen lim sep (bc + ulen c) r ++ tail)) as [H1 H2].
  { split.
    - pose proof (fold_gen_hd lim r (ulen c) Hr) as H. destruct (fold_gen lim sep (ulen c) r); [exact Ht|exact H].
    - pose proof (fold_gen_hd lim r (bc + ulen c) Hr) as H. destruct (fold_gen lim sep (bc + ulen c) r); [exact Ht|exact H]. }
  cbn [fold_gen]. cbv zeta. destruct (lim <=? bc + ulen c)%nat.
  - rewrite <- app_assoc. rewrite unfold_sep. cbn [app]. rewrite unfold_keep; [|exact Hc|exact H1].
    f_equal. apply IH. exact Hr.
  - cbn [app]. rewrite unfold_keep; [|exact Hc|exact H2]. f_equal. apply IH. exact Hr.
Qed.

Lemma unfold_fold_ascii_tail lim tail : hd_not_lf tail -> forall l k, no_lf l = true ->
  unfold_aux 0 (fold_ascii lim sep k l ++ tail) = l ++ unfold_aux 0 tail.
Proof.
  intros Ht. induction l as [|c r IH]; intros k Hl; [reflexivity|].
  apply no_lf_cons in Hl. destruct Hl as [Hc Hr].
  assert (hd_not_lf (fold_ascii lim sep 1 r ++ tail) /\ hd_not_lf (fold_ascii lim sep (S k) r ++ tail)) as [H1 H2].
  { split.
    - pose proof (fold_ascii_hd lim r 1 Hr) as H. destruct (fold_ascii lim sep 1 r); [exact Ht|exact H].
    - pose proof (fold_ascii_hd lim r (S k) Hr) as H. destruct (fold_ascii lim sep (S k) r); [exact Ht|exact H]. }
  cbn [fold_ascii]. destruct (k =? lim)%nat.
  - rewrite <- app_assoc. rewrite unfold_sep. cbn [app]. rewrite unfold_keep; [|exact Hc|exact H1].
    f_equal. apply IH. exact Hr.
  - cbn [app]. rewrite unfold_keep; [|exact Hc|exact H2]. f_equal. apply IH. exact Hr.
Qed.

Lemma unfold_foldline_tail l tail : no_lf l = true -> hd_not_lf tail ->
  unfold_aux 0 (foldline l ++ tail) = l ++ unfold_aux 0 tail.
Proof.
  intros Hl Ht. unfold foldline, foldline_with. change fold_sep with sep.
  destruct (is_ascii l); [apply unfold_fold_ascii_tail|apply unfold_fold_gen_tail]; assumption.
Qed.

Lemma foldline_hd l : good_line l = true -> exists c r, foldline l = c :: r /\ good_first c = true.
Proof.
  unfold good_line. intros H. apply andb_true_iff in H. destruct H as [_ H].
  destruct l as [|c l]; [discriminate|]. unfold foldline, foldline_with.
  destruct (is_ascii (c :: l)).
  - exists c. eexists. split; [|exact H]. cbn [fold_ascii]. change (fold_limit - 1)%nat with 74%nat. reflexivity.
  - exists c. eexists. split; [|exact H]. cbn [fold_gen]. cbv zeta.
    assert ((fold_limit <=? 0 + ulen c)%nat = false) as E.
    { apply Nat.leb_gt. pose proof (ulen_bounds c). change fold_limit with 75%nat. lia. }
    rewrite E. reflexivity.
Qed.

Lemma unfold_crlf_good c r : good_first c = true ->
  unfold_aux 0 (13 :: 10 :: c :: r) = 13 :: 10 :: unfold_aux 0 (c :: r).
Proof.
  unfold good_first. rewrite negb_true_iff, !orb_false_iff. intros [[[H32 H9] H10] H13].
  cbn [unfold_aux fold_match_len N.eqb Pos.eqb after_nl]. rewrite H32, H9, H10, H13. cbn [orb].
  reflexivity.
Qed.

Fixpoint join_lines (ls : list (list N)) : list N :=
  match ls with [] => [] | l :: r => l ++ 13 :: 10 :: join_lines r end.

Lemma join_strs_crlf : forall ls, ls <> [] -> join_strs [13; 10] ls ++ [13; 10] = join_lines ls.
Proof.
  induction ls as [|l ls IH]; intros H; [congruence|]. destruct ls as [|l2 ls].
  - cbn. reflexivity.
  - change (join_strs [13; 10] (l :: l2 :: ls)) with (l ++ [13; 10] ++ join_strs [13; 10] (l2 :: ls)).
    rewrite <- !app_assoc. cbn [join_lines]. f_equal. cbn [app]. f_equal. f_equal.
    apply IH. discriminate.
Qed.

Lemma unfold_join_lines : forall ls, forallb good_line ls = true ->
  unfold_aux 0 (join_lines (map foldline ls)) = join_lines ls.
Proof.
  induction ls as [|l ls IH]; intros H; [reflexivity|].
  cbn [forallb] in H. apply andb_true_iff in H. destruct H as [Hl Hls].
  cbn [map join_lines]. pose proof Hl as Hl'. unfold good_line in Hl'. apply andb_true_iff in Hl'. destruct Hl' as [Hnl _].
  rewrite unfold_foldline_tail; [|exact Hnl|cbn; discriminate]. f_equal.
  destruct ls as [|l2 ls].
  - reflexivity.
  - cbn [forallb] in Hls. pose proof Hls as Hls'. apply andb_true_iff in Hls'. destruct Hls' as [Hl2 _].
    destruct (foldline_hd l2 Hl2) as (c & r & Ef & Hc).
    specialize (IH Hls). cbn [map join_lines] in *. rewrite Ef in *. cbn [app] in *.
    rewrite (unfold_crlf_good c _ Hc). rewrite IH. reflexivity.
Qed.

(* ---- splitting *)
Lemma split_line : forall l cur rest, no_lf l = true ->
  split_lines_aux cur (l ++ 13 :: 10 :: rest) = (rev cur ++ l) :: split_lines_aux [] rest.
Proof.
  induction l as [|c l IH]; intros cur rest H.
  - cbn. rewrite app_nil_r. reflexivity.
  - apply no_lf_cons in H. destruct H as [Hc Hl]. cbn [app split_lines_aux].
    apply N.eqb_neq in Hc. rewrite Hc.
    assert (Hnext : split_lines_aux (c :: cur) (l ++ 13 :: 10 :: rest) = (rev cur ++ c :: l) :: split_lines_aux [] rest).
    { rewrite (IH (c :: cur) rest Hl). cbn [rev]. rewrite <- app_assoc. reflexivity. }
    destruct (c =? 13); [|exact Hnext].
    destruct l as [|d l]; cbn [app].
    + cbn [app] in Hnext. exact Hnext.
    + apply no_lf_cons in Hl. destruct Hl as [Hd _]. apply N.eqb_neq in Hd. rewrite Hd. exact Hnext.
Qed.

Lemma split_join_lines : forall ls, forallb good_line ls = true ->
  filter nonempty (split_lines_aux [] (join_lines ls)) = ls.
Proof.
  induction ls as [|l ls IH]; intros H; [reflexivity|].
  cbn [forallb] in H. apply andb_true_iff in H. destruct H as [Hl Hls].
  unfold good_line in Hl. apply andb_true_iff in Hl. destruct Hl as [Hnl Hne].
  cbn [join_lines]. rewrite (split_line l [] _ Hnl). cbn [rev app filter].
  destruct l; [discriminate|]. cbn [nonempty]. f_equal. apply IH. exact Hls.
Qed.

Theorem lines_roundtrip ls : forallb good_line ls = true ->
  contentlines_from_ical (contentlines_to_ical ls) = ls.
Proof.
  intros H. unfold contentlines_from_ical, contentlines_to_ical.
  assert (filter nonempty ls = ls) as Ef.
  { clear -H. induction ls as [|l ls IH]; [reflexivity|]. cbn [forallb] in H. apply andb_true_iff in H.
    destruct H as [Hl Hls]. unfold good_line in Hl. apply andb_true_iff in Hl. destruct Hl as [_ Hne].
    cbn [filter]. destruct l; [discriminate|]. cbn [nonempty]. f_equal. apply IH. exact Hls. }
  rewrite Ef. destruct ls as [|l ls]; [reflexivity|].
  rewrite join_strs_crlf by discriminate. unfold unfold. rewrite (unfold_join_lines _ H).
  apply split_join_lines. exact H.
Qed.

(* ------------------------------------------------------------------ every physical line of a serialised component *)
Lemma phys_lines_nonempty x : phys_lines x <> [].
Proof.
  destruct x as [|c x]; [discriminate|]. cbn [phys_lines]. destruct x as [|d x].
  - cbn. discriminate.
  - destruct ((c =? 13) && (d =? 10)); [discriminate|]. unfold cons_head. destruct (phys_lines (d :: x)); discriminate.
Qed.

Lemma cons_head_app c a b : a <> [] -> cons_head c (a ++ b) = cons_head c a ++ b.
Proof. destruct a; [congruence|reflexivity]. Qed.

Lemma phys_lines_app_crlf_n : forall n x y, (length x <= n)%nat ->
  phys_lines (x ++ 13 :: 10 :: y) = phys_lines x ++ phys_lines y.
Proof.
  induction n as [|n IH]; intros [|c x] y Hl; try reflexivity; [cbn [length] in Hl; lia|].
  cbn [length] in Hl. destruct x as [|d x].
  - cbn [app]. change (phys_lines (c :: 13 :: 10 :: y)) with
      (if (c =? 13) && (13 =? 10) then [] :: phys_lines (10 :: y) else cons_head c (phys_lines (13 :: 10 :: y))).
    rewrite andb_false_r. reflexivity.
  - change ((c :: d :: x) ++ 13 :: 10 :: y) with (c :: d :: (x ++ 13 :: 10 :: y)).
    change (phys_lines (c :: d :: (x ++ 13 :: 10 :: y))) with
      (if (c =? 13) && (d =? 10) then [] :: phys_lines (x ++ 13 :: 10 :: y)
       else cons_head c (phys_lines (d :: (x ++ 13 :: 10 :: y)))).
    change (phys_lines (c :: d :: x)) with
      (if (c =? 13) && (d =? 10) then [] :: phys_lines x else cons_head c (phys_lines (d :: x))).
    cbn [length] in Hl. destruct ((c =? 13) && (d =? 10)).
    + rewrite (IH x y) by lia. reflexivity.
    + change (d :: (x ++ 13 :: 10 :: y)) with ((d :: x) ++ 13 :: 10 :: y). rewrite (IH (d :: x) y) by (cbn [length]; lia).
      apply cons_head_app. apply phys_lines_nonempty.
Qed.

Lemma phys_lines_app_crlf x y : phys_lines (x ++ 13 :: 10 :: y) = phys_lines x ++ phys_lines y.
Proof. apply (phys_lines_app_crlf_n (length x)). lia. Qed.

Lemma phys_join_lines : forall ls, phys_lines (join_lines ls) = flat_map phys_lines ls ++ [[]].
Proof.
  induction ls as [|l ls IH]; [reflexivity|]. cbn [join_lines flat_map]. rewrite phys_lines_app_crlf, IH, app_assoc. reflexivity.
Qed.

Theorem lines_width ls : forallb no_lf ls = true ->
  Forall (fun ln => (bytes ln <= 75)%nat) (phys_lines (contentlines_to_ical ls)).
Proof.
  intros H. unfold contentlines_to_ical.
  assert (forallb no_lf (filter nonempty ls) = true) as Hf.
  { clear -H. induction ls as [|l ls IH]; [reflexivity|]. cbn [forallb] in H. apply andb_true_iff in H. destruct H as [H1 H2].
    cbn [filter]. destruct (nonempty l); [cbn [forallb]; rewrite H1|]; apply IH; exact H2. }
  destruct (filter nonempty ls) as [|l0 r] eqn:E.
  - cbn. constructor; [cbn; lia|constructor; [cbn; lia|constructor]].
  - rewrite <- E in *. assert (map foldline (filter nonempty ls) <> []) as Hne by (rewrite E; discriminate).
    rewrite (join_strs_crlf _ Hne), phys_join_lines. apply Forall_app. split; [|constructor; [cbn; lia|constructor]].
    apply Forall_forall. intros ln Hin. apply in_flat_map in Hin. destruct Hin as (fl & Hfl & Hln).
    apply in_map_iff in Hfl. destruct Hfl as (l & <- & Hl). rewrite forallb_forall in Hf.
    pose proof (fold_width l (Hf l Hl)) as W. rewrite Forall_forall in W. apply W. exact Hln.
Qed.
