(* Proofs for C09: every physical layout of the same logical lines gives the same content lines. *)
Require Import Lib.Base Gen.Gen_parser Model.Fold Model.Params Model.Text Model.Contentline Model.Rewrite.
Require Import Proofs.ChainProofs Proofs.FoldProofs Proofs.ParamsProofs Proofs.ContentlineProofs.
From Coq Require Import Lia Arith.

Lemma plain_cons c s : plain (c :: s) = true <-> c <> 10 /\ c <> 13 /\ plain s = true.
Proof.
  unfold plain. cbn [forallb]. unfold plain_chr at 1. rewrite andb_true_iff, negb_true_iff, orb_false_iff, !N.eqb_neq. tauto.
Qed.

Lemma fml_plain c x : c <> 10 -> c <> 13 -> fold_match_len (c :: x) = O.
Proof. intros H1 H2. unfold fold_match_len. apply N.eqb_neq in H1, H2. rewrite H1, H2. reflexivity. Qed.

Lemma unfold_plain : forall s rest, plain s = true -> unfold_aux 0 (s ++ rest) = s ++ unfold_aux 0 rest.
Proof.
  induction s as [|c s IH]; intros rest H; [reflexivity|]. apply plain_cons in H. destruct H as (H1 & H2 & Hs).
  cbn [app unfold_aux]. rewrite (fml_plain c _ H1 H2). f_equal. apply IH. exact Hs.
Qed.

Lemma fml_crlf rest : fold_match_len (13 :: 10 :: rest) = match after_nl rest with Some n => S (S n) | None => O end.
Proof. reflexivity. Qed.
Lemma fml_lf rest : fold_match_len (10 :: rest) = match after_nl rest with Some n => S n | None => O end.
Proof. reflexivity. Qed.
Lemma unfold_aux_step c r : unfold_aux 0 (c :: r) =
  match fold_match_len (c :: r) with O => c :: unfold_aux 0 r | S k => unfold_aux k r end.
Proof. reflexivity. Qed.

Section Layout.
  Variables (nl : list N) (ws : N).
  Hypothesis Hnl : is_nl nl = true.
  Hypothesis Hws : is_ws ws = true.

  Lemma nl_cases : nl = [13; 10] \/ nl = [10].
  Proof. unfold is_nl in Hnl. apply orb_true_iff in Hnl. destruct Hnl as [H|H]; apply str_eqb_eq in H; auto. Qed.
  Lemma ws_cases : ws = 32 \/ ws = 9.
  Proof. unfold is_ws in Hws. apply orb_true_iff in Hws. destruct Hws as [H|H]; apply N.eqb_eq in H; auto. Qed.

  (* a fold disappears *)
  Lemma unfold_at_fold rest : unfold_aux 0 (nl ++ ws :: rest) = unfold_aux 0 rest.
  Proof. destruct nl_cases as [-> | ->]; destruct ws_cases as [-> | ->]; reflexivity. Qed.

  (* a line break followed by a name character, by the end of the text, or by further line breaks stays *)
  Definition stays (rest : list N) : Prop := after_nl rest = None.

  Lemma unfold_at_break rest : stays rest -> unfold_aux 0 (nl ++ rest) = nl ++ unfold_aux 0 rest.
  Proof.
    unfold stays. intros H. destruct nl_cases as [-> | ->]; cbn [app].
    - rewrite unfold_aux_step, fml_crlf, H. rewrite unfold_aux_step, fml_lf, H. reflexivity.
    - rewrite unfold_aux_step, fml_lf, H. reflexivity.
  Qed.

  Lemma stays_good c r : negb ((c =? 32) || (c =? 9)) = true -> c <> 10 -> c <> 13 -> stays (c :: r).
  Proof.
    intros H H10 H13. unfold stays. cbn [after_nl]. apply negb_true_iff in H. rewrite H.
    apply N.eqb_neq in H10, H13. rewrite H10, H13. reflexivity.
  Qed.

  Lemma stays_nl rest : stays rest -> stays (nl ++ rest).
  Proof.
    unfold stays. intros H. destruct nl_cases as [-> | ->]; cbn [app after_nl N.eqb Pos.eqb orb]; rewrite H; reflexivity.
  Qed.

  Lemma stays_blank k : stays (blank_lines nl k).
  Proof. induction k as [|k IH]; [reflexivity|]. cbn [blank_lines]. apply stays_nl. exact IH. Qed.

  Lemma unfold_phys_line : forall segs rest, forallb plain segs = true ->
    unfold_aux 0 (phys_line nl ws segs ++ rest) = concat segs ++ unfold_aux 0 rest.
  Proof.
    induction segs as [|s segs IH]; intros rest H; [reflexivity|].
    cbn [forallb] in H. apply andb_true_iff in H. destruct H as [Hs Hr].
    destruct segs as [|s2 segs].
    - cbn [phys_line concat]. rewrite app_nil_r. apply unfold_plain. exact Hs.
    - change (phys_line nl ws (s :: s2 :: segs)) with (s ++ nl ++ ws :: phys_line nl ws (s2 :: segs)).
      rewrite <- !app_assoc. rewrite (unfold_plain s _ Hs). cbn [concat]. rewrite <- app_assoc. f_equal.
      change ((ws :: phys_line nl ws (s2 :: segs)) ++ rest) with (ws :: (phys_line nl ws (s2 :: segs) ++ rest)).
      rewrite unfold_at_fold. apply IH. exact Hr.
  Qed.

  Lemma phys_line_hd segs : segs_ok segs = true ->
    exists c r, phys_line nl ws segs = c :: r /\ negb ((c =? 32) || (c =? 9)) = true /\ c <> 10 /\ c <> 13.
  Proof.
    unfold segs_ok. destruct segs as [|s segs]; [discriminate|]. destruct s as [|c s]; [discriminate|].
    rewrite !andb_true_iff. intros [[Hc Hp] _]. cbn [forallb] in Hp. apply andb_true_iff in Hp. destruct Hp as [Hp _].
    apply plain_cons in Hp. destruct Hp as (H10 & H13 & _).
    exists c. destruct segs; cbn [phys_line app]; eexists; (split; [reflexivity|]); repeat split; assumption.
  Qed.

  Lemma segs_ok_plain segs : segs_ok segs = true -> forallb plain segs = true.
  Proof. unfold segs_ok. destruct segs as [|s r]; [discriminate|]. rewrite !andb_true_iff. tauto. Qed.

  Lemma stays_phys_text ls k : forallb segs_ok ls = true -> stays (phys_text nl ws ls ++ blank_lines nl k).
  Proof.
    destruct ls as [|segs ls]; intros H; [apply stays_blank|].
    cbn [forallb] in H. apply andb_true_iff in H. destruct H as [H1 _].
    destruct (phys_line_hd segs H1) as (c & r & E & Hc & H10 & H13).
    cbn [phys_text]. rewrite E. cbn [app]. apply stays_good; assumption.
  Qed.

  Fixpoint logical (ls : list (list (list N))) : list N :=
    match ls with [] => [] | segs :: r => concat segs ++ nl ++ logical r end.

  (* unfolding a physical text gives the logical lines, each followed by its line break *)
  Lemma unfold_phys_text : forall ls k, forallb segs_ok ls = true ->
    unfold_aux 0 (phys_text nl ws ls ++ blank_lines nl k) = logical ls ++ unfold_aux 0 (blank_lines nl k).
  Proof.
    induction ls as [|segs ls IH]; intros k H; [reflexivity|].
    cbn [forallb] in H. apply andb_true_iff in H. destruct H as [H1 H2].
    cbn [phys_text logical]. rewrite <- !app_assoc.
    rewrite (unfold_phys_line segs _ (segs_ok_plain segs H1)). f_equal.
    rewrite unfold_at_break by (apply stays_phys_text; exact H2). f_equal. apply IH. exact H2.
  Qed.

  Lemma unfold_blank k : unfold_aux 0 (blank_lines nl k) = blank_lines nl k.
  Proof.
    induction k as [|k IH]; [reflexivity|]. cbn [blank_lines]. rewrite unfold_at_break by apply stays_blank.
    rewrite IH. reflexivity.
  Qed.

  (* ---- splitting *)
  Lemma split_plain : forall l cur rest, plain l = true ->
    split_lines_aux cur (l ++ nl ++ rest) = (rev cur ++ l) :: split_lines_aux [] rest.
  Proof.
    induction l as [|c l IH]; intros cur rest H.
    - cbn [app]. rewrite app_nil_r. destruct nl_cases as [-> | ->]; reflexivity.
    - apply plain_cons in H. destruct H as (H10 & H13 & Hl). cbn [app split_lines_aux].
      apply N.eqb_neq in H10, H13. rewrite H10, H13. rewrite (IH (c :: cur) rest Hl). cbn [rev]. rewrite <- app_assoc. reflexivity.
  Qed.

  Lemma concat_plain segs : forallb plain segs = true -> plain (concat segs) = true.
  Proof.
    induction segs as [|s segs IH]; intros H; [reflexivity|]. cbn [forallb] in H. apply andb_true_iff in H.
    destruct H as [H1 H2]. cbn [concat]. unfold plain in *. rewrite forallb_app, H1, (IH H2). reflexivity.
  Qed.

  Lemma split_blank k : filter nonempty (split_lines_aux [] (blank_lines nl k)) = [].
  Proof.
    induction k as [|k IH]; [reflexivity|]. cbn [blank_lines].
    pose proof (split_plain [] [] (blank_lines nl k) eq_refl) as E. cbn [app rev] in E. rewrite E. cbn [filter nonempty]. exact IH.
  Qed.

  Lemma split_logical : forall ls k, forallb segs_ok ls = true ->
    filter nonempty (split_lines_aux [] (logical ls ++ blank_lines nl k)) = map (@concat N) ls.
  Proof.
    induction ls as [|segs ls IH]; intros k H; [apply split_blank|].
    cbn [forallb] in H. apply andb_true_iff in H. destruct H as [H1 H2].
    cbn [logical map]. rewrite <- !app_assoc.
    rewrite (split_plain (concat segs) [] _ (concat_plain segs (segs_ok_plain segs H1))). cbn [rev app filter].
    assert (nonempty (concat segs) = true) as Hne.
    { unfold segs_ok in H1. destruct segs as [|s r]; [discriminate|]. destruct s; [discriminate|reflexivity]. }
    rewrite Hne. f_equal. apply IH. exact H2.
  Qed.

  (* C09: whatever the line ending, the fold positions, the fold character and the number of trailing
     blank lines, the content lines are the logical lines *)
  Theorem layout_invariant ls k : forallb segs_ok ls = true ->
    contentlines_from_ical (phys_text nl ws ls ++ blank_lines nl k) = map (@concat N) ls.
  Proof.
    intros H. unfold contentlines_from_ical, unfold. rewrite (unfold_phys_text ls k H), unfold_blank.
    apply split_logical. exact H.
  Qed.
End Layout.

(* ---- names: only the upper-cased spelling matters to parse_param *)
Lemma parse_param_case k k' v : is_token k = true -> is_token k' = true -> upper k = upper k' ->
  parse_param (k ++ 61 :: v) = parse_param (k' ++ 61 :: v).
Proof.
  intros Hk Hk' Hu. unfold parse_param, q_split.
  destruct (is_token_facts k Hk) as (Ha & _ & _ & H34 & _ & _).
  destruct (is_token_facts k' Hk') as (Ha' & _ & _ & H34' & _ & _).
  assert (no_chr 61 k = true /\ no_chr 61 k' = true) as [H61 H61'].
  { split.
    - destruct (forallb_token k Hk) as [_ Hall]. clear -Hall. induction Hall as [|c r Hc Hr IH]; [reflexivity|].
      destruct (token_chr_facts c Hc) as (_ & _ & F & _). apply no_chr_cons. split; assumption.
    - destruct (forallb_token k' Hk') as [_ Hall]. clear -Hall. induction Hall as [|c r Hc Hr IH]; [reflexivity|].
      destruct (token_chr_facts c Hc) as (_ & _ & F & _). apply no_chr_cons. split; assumption. }
  rewrite (q_split_key k [] v H61 H34), (q_split_key k' [] v H61' H34'). cbn [rev app].
  rewrite (validate_token_ok k Hk Ha), (validate_token_ok k' Hk' Ha'), Hu. reflexivity.
Qed.

(* ---- names: the line loop looks at a property name only through its upper-cased spelling, and at the
   value of a BEGIN/END line only through its upper-cased spelling *)
Require Import Gen.Gen_cal Model.Tree.
Lemma all_ascii_upper v : all_ascii (upper v) = all_ascii v.
Proof.
  unfold all_ascii, upper. induction v as [|c v IH]; [reflexivity|]. cbn [map forallb]. rewrite IH. f_equal.
  unfold upper_chr, is_lower. destruct (97 <=? c) eqn:E1; destruct (c <=? 122) eqn:E2; cbn [andb]; try reflexivity.
  apply N.leb_le in E1, E2. destruct (c <? 128) eqn:E3; destruct (c - 32 <? 128) eqn:E4; try reflexivity.
  - apply N.ltb_lt in E3. apply N.ltb_ge in E4. lia.
  - apply N.ltb_ge in E3. lia.
Qed.

Theorem step_name_case dec s name name' ps vals : upper name = upper name' ->
  step_parts dec s (Ok (name, ps, vals)) = step_parts dec s (Ok (name', ps, vals)).
Proof.
  intros Hu. unfold step_parts, decode_line, type_key, add_vals, comp_add. rewrite Hu. reflexivity.
Qed.

Theorem step_begin_end_case dec s name ps vals vals' : upper vals = upper vals' ->
  (str_is (upper name) "BEGIN" = true \/ str_is (upper name) "END" = true) ->
  step_parts dec s (Ok (name, ps, vals)) = step_parts dec s (Ok (name, ps, vals')).
Proof.
  intros Hu Hbe. unfold step_parts.
  assert (all_ascii vals = all_ascii vals') as Ha by (rewrite <- (all_ascii_upper vals), <- (all_ascii_upper vals'), Hu; reflexivity).
  destruct (str_is (upper name) "BEGIN") eqn:Eb.
  - rewrite Ha, Hu. reflexivity.
  - destruct Hbe as [H|H]; [discriminate|]. rewrite H. reflexivity.
Qed.
