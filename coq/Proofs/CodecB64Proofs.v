(* base64: binascii.a2b_base64 (non-strict) inverts b2a_base64 on every octet list, the output
   is RFC 5545 "binary"; vBinary(text) decodes to the UTF-8 octets of the text. *)
Require Import Lib.Base Model.Params Model.CodecBase Model.CodecMisc Proofs.CodecBaseProofs.
From Coq Require Import ZArith NArith List Bool Lia ZifyBool.
Local Open Scope N_scope.

Ltac Zify.zify_post_hook ::= Z.to_euclidean_division_equations.

Lemma b64_val_chr i : i < 64 -> b64_val (b64_chr i) = Some i.
Proof.
  intros Hi. unfold b64_chr, b64_val.
  destruct (i <? 26) eqn:E1.
  - replace ((65 <=? 65 + i) && (65 + i <=? 90)) with true by lia. f_equal. lia.
  - destruct (i <? 52) eqn:E2.
    + replace ((65 <=? 71 + i) && (71 + i <=? 90)) with false by lia.
      replace ((97 <=? 71 + i) && (71 + i <=? 122)) with true by lia. f_equal. lia.
    + destruct (i <? 62) eqn:E3.
      * replace ((65 <=? i - 4) && (i - 4 <=? 90)) with false by lia.
        replace ((97 <=? i - 4) && (i - 4 <=? 122)) with false by lia.
        replace ((48 <=? i - 4) && (i - 4 <=? 57)) with true by lia. f_equal. lia.
      * destruct (i =? 62) eqn:E4.
        -- assert (i = 62) by lia. subst. reflexivity.
        -- assert (i = 63) by lia. subst. reflexivity.
Qed.

Lemma b64_chr_not_pad i : (b64_chr i =? 61) = false.
Proof. unfold b64_chr. repeat match goal with |- context [if ?b then _ else _] => destruct b eqn:? end; lia. Qed.

Lemma b64_chr_ascii i : (b64_chr i <? 128) = true.
Proof. unfold b64_chr. repeat match goal with |- context [if ?b then _ else _] => destruct b eqn:? end; lia. Qed.

Lemma is_b64_chr_chr i : i < 64 -> is_b64_chr (b64_chr i) = true.
Proof. intros Hi. unfold is_b64_chr. now rewrite b64_val_chr. Qed.

(* one data character *)
Lemma a2b_data i r qp left pads : i < 64 ->
  a2b (b64_chr i :: r) qp left pads =
    if qp =? 0 then a2b r 1 i 0
    else if qp =? 1 then bind (a2b r 2 (i mod 16) 0) (fun o => Ok (left * 4 + i / 16 :: o))
    else if qp =? 2 then bind (a2b r 3 (i mod 4) 0) (fun o => Ok (left * 16 + i / 4 :: o))
    else bind (a2b r 0 0 0) (fun o => Ok (left * 64 + i :: o)).
Proof. intros Hi. cbn [a2b]. now rewrite b64_chr_not_pad, b64_val_chr. Qed.

Lemma quad_fields a b c : a < 256 -> b < 256 -> c < 256 ->
  a / 4 < 64 /\ (a mod 4) * 16 + b / 16 < 64 /\ (b mod 16) * 4 + c / 64 < 64 /\ c mod 64 < 64
  /\ (a / 4) * 4 + ((a mod 4) * 16 + b / 16) / 16 = a
  /\ (((a mod 4) * 16 + b / 16) mod 16) * 16 + ((b mod 16) * 4 + c / 64) / 4 = b
  /\ (((b mod 16) * 4 + c / 64) mod 4) * 64 + c mod 64 = c.
Proof. lia. Qed.

Lemma a2b_quad a b c r : a < 256 -> b < 256 -> c < 256 ->
  a2b (b64_chr (a / 4) :: b64_chr ((a mod 4) * 16 + b / 16) :: b64_chr ((b mod 16) * 4 + c / 64)
         :: b64_chr (c mod 64) :: r) 0 0 0
  = bind (a2b r 0 0 0) (fun o => Ok (a :: b :: c :: o)).
Proof.
  intros Ha Hb Hc. destruct (quad_fields a b c Ha Hb Hc) as (H1 & H2 & H3 & H4 & E1 & E2 & E3).
  rewrite a2b_data by assumption. cbn [N.eqb].
  rewrite a2b_data by assumption. cbn [N.eqb Pos.eqb].
  rewrite a2b_data by assumption. cbn [N.eqb Pos.eqb].
  rewrite a2b_data by assumption. cbn [N.eqb Pos.eqb].
  rewrite E1, E2, E3. destruct (a2b r 0 0 0); reflexivity.
Qed.

Lemma a2b_tail1 a : a < 256 -> a2b [b64_chr (a / 4); b64_chr ((a mod 4) * 16); 61; 61] 0 0 0 = Ok [a].
Proof.
  intros Ha. assert (H1 : a / 4 < 64) by lia. assert (H2 : (a mod 4) * 16 < 64) by lia.
  assert (E : (a / 4) * 4 + ((a mod 4) * 16) / 16 = a) by lia.
  rewrite a2b_data by assumption. cbn [N.eqb].
  rewrite a2b_data by assumption. cbn [N.eqb Pos.eqb]. rewrite E. reflexivity.
Qed.

Lemma a2b_tail2 a b : a < 256 -> b < 256 ->
  a2b [b64_chr (a / 4); b64_chr ((a mod 4) * 16 + b / 16); b64_chr ((b mod 16) * 4); 61] 0 0 0 = Ok [a; b].
Proof.
  intros Ha Hb. assert (H1 : a / 4 < 64) by lia. assert (H2 : (a mod 4) * 16 + b / 16 < 64) by lia.
  assert (H3 : (b mod 16) * 4 < 64) by lia.
  assert (E1 : (a / 4) * 4 + ((a mod 4) * 16 + b / 16) / 16 = a) by lia.
  assert (E2 : (((a mod 4) * 16 + b / 16) mod 16) * 16 + ((b mod 16) * 4) / 4 = b) by lia.
  rewrite a2b_data by assumption. cbn [N.eqb].
  rewrite a2b_data by assumption. cbn [N.eqb Pos.eqb].
  rewrite a2b_data by assumption. cbn [N.eqb Pos.eqb]. rewrite E1, E2. reflexivity.
Qed.

Ltac Zify.zify_post_hook ::= idtac.

Definition octets (l : list N) : Prop := Forall (fun x => x < 256) l.

Fixpoint list_ind3 {A} (P : list A -> Prop) (H0 : P []) (H1 : forall a, P [a]) (H2 : forall a b, P [a; b])
         (H3 : forall a b c r, P r -> P (a :: b :: c :: r)) (l : list A) : P l :=
  match l with
  | [] => H0
  | [a] => H1 a
  | [a; b] => H2 a b
  | a :: b :: c :: r => H3 a b c r (list_ind3 P H0 H1 H2 H3 r)
  end.

(* the base64 layer, over all octet lists *)
Lemma b64_rt l : octets l -> a2b (b64_enc l) 0 0 0 = Ok l /\ binary_grammar (b64_enc l) = true.
Proof.
  induction l as [|a|a b|a b c r IH] using list_ind3; intros Ho.
  - split; reflexivity.
  - inversion Ho; subst. split; [now apply a2b_tail1|].
    cbn [b64_enc binary_grammar]. Ltac Zify.zify_post_hook ::= Z.to_euclidean_division_equations.
    rewrite !is_b64_chr_chr by lia. reflexivity.
  - inversion Ho as [|? ? Ha Ho']; subst. inversion Ho'; subst. split; [now apply a2b_tail2|].
    cbn [b64_enc binary_grammar]. rewrite !is_b64_chr_chr by lia. reflexivity.
  - inversion Ho as [|? ? Ha Ho1]; subst. inversion Ho1 as [|? ? Hb Ho2]; subst. inversion Ho2 as [|? ? Hc Ho3]; subst.
    destruct (IH Ho3) as (IH1 & IH2). split.
    + cbn [b64_enc]. rewrite a2b_quad by assumption. now rewrite IH1.
    + cbn [b64_enc]. destruct (quad_fields a b c Ha Hb Hc) as (H1 & H2 & H3 & H4 & _).
      destruct (b64_enc r) as [|x r'] eqn:E.
      * cbn [binary_grammar]. rewrite !is_b64_chr_chr by assumption. reflexivity.
      * cbn [binary_grammar]. rewrite !is_b64_chr_chr by assumption. cbn [andb]. exact IH2.
Qed.
Ltac Zify.zify_post_hook ::= idtac.

Lemma b64_enc_ascii l : all_ascii (b64_enc l) = true.
Proof.
  induction l as [|a|a b|a b c r IH] using list_ind3; unfold all_ascii in *; cbn [b64_enc forallb];
    rewrite ?b64_chr_ascii; auto.
Qed.

Ltac Zify.zify_post_hook ::= Z.to_euclidean_division_equations.
Local Opaque N.add N.div N.modulo N.mul.
Lemma utf8_octets s : forall o, utf8_encode s = Ok o -> octets o.
Proof.
  induction s as [|c r IH]; intros o H.
  - injection H as <-. constructor.
  - cbn [utf8_encode] in H.
    destruct (utf8_encode r) as [t| | |] eqn:Er.
    2-4: (repeat match type of H with context [if ?b then _ else _] => destruct b end; discriminate).
    specialize (IH t eq_refl).
    destruct (c <? 128) eqn:E1.
    { cbn [bind] in H. injection H as <-. constructor; [lia|exact IH]. }
    destruct (c <? 2048) eqn:E2.
    { cbn [bind] in H. injection H as <-. repeat constructor; try lia. exact IH. }
    destruct ((55296 <=? c) && (c <=? 57343)) eqn:E3; [discriminate|].
    destruct (c <? 65536) eqn:E4.
    { cbn [bind] in H. injection H as <-. repeat constructor; try lia. exact IH. }
    destruct (c <? 1114112) eqn:E5; [|discriminate].
    cbn [bind] in H. injection H as <-. repeat constructor; try lia. exact IH.
Qed.
Local Transparent N.add N.div N.modulo N.mul.
Ltac Zify.zify_post_hook ::= idtac.

(* vBinary: for every string of scalar values, what from_ical returns for to_ical's output is the
   UTF-8 encoding of the string, and that output is RFC 5545 "binary" *)
Lemma binary_rt s t : enc_binary s = Ok t ->
  exists o, utf8_encode s = Ok o /\ dec_binary t = Ok o /\ binary_grammar t = true.
Proof.
  unfold enc_binary. destruct (utf8_encode s) as [o| | |] eqn:E; try discriminate.
  cbn [bind]. intros H. injection H as <-. exists o. split; [reflexivity|].
  destruct (b64_rt o (utf8_octets s o E)) as (H1 & H2). split; [|exact H2].
  unfold dec_binary. now rewrite b64_enc_ascii.
Qed.

(* every string of Unicode scalar values can be encoded *)
Lemma binary_enc_total s : forallb (fun c => (c <? 1114112) && negb ((55296 <=? c) && (c <=? 57343))) s = true ->
  exists t, enc_binary s = Ok t.
Proof.
  intros H. unfold enc_binary.
  assert (exists o, utf8_encode s = Ok o) as (o & ->).
  { induction s as [|c r IH]; [eexists; reflexivity|].
    cbn [forallb] in H. apply andb_true_iff in H as [Hc Hr]. destruct (IH Hr) as (o & Ho).
    apply andb_true_iff in Hc as [H1 H2]. apply negb_true_iff in H2.
    cbn [utf8_encode]. rewrite Ho, H2, H1.
    repeat match goal with |- context [if ?b then _ else _] => destruct b end; eexists; reflexivity. }
  eexists. reflexivity.
Qed.
