(* Proofs for C02: what Component.add accumulates, that API-built trees are inside the guard of the
   C01 round-trip theorem, the VALUE / TZID parameters derived by the constructors, the RFC type table. *)
Require Import Lib.Base Lib.Chain Gen.Gen_parser Gen.Gen_cal Model.Text Model.Params Model.Fold Model.Contentline Model.Sort Model.Tree Model.Api.
Require Import Proofs.ChainProofs Proofs.ParamsProofs Proofs.TreeProofs Proofs.WalkEqProofs.
From Coq Require Import Lia Arith String.

Lemma str_eqb_refl'' a : str_eqb a a = true.
Proof. apply str_eqb_eq. reflexivity. Qed.

Lemma dict_get_set_same {V} (k : list N) (v : V) : forall d, dict_get k (dict_set k v d) = Some v.
Proof.
  induction d as [|[k' v'] d IH]; cbn [dict_set dict_get]; [rewrite str_eqb_refl''; reflexivity|].
  destruct (str_eqb k k') eqn:E; cbn [dict_get]; [rewrite str_eqb_refl''; reflexivity|rewrite E; exact IH].
Qed.

Lemma dict_get_set_other {V} (k k2 : list N) (v : V) : str_eqb k2 k = false -> forall d,
  dict_get k2 (dict_set k v d) = dict_get k2 d.
Proof.
  intros Hne. induction d as [|[k' v'] d IH]; cbn [dict_set dict_get]; [rewrite Hne; reflexivity|].
  destruct (str_eqb k k') eqn:E; cbn [dict_get].
  - apply str_eqb_eq in E. subst k'. rewrite Hne. reflexivity.
  - destruct (str_eqb k2 k'); [reflexivity|exact IH].
Qed.

(* ------------------------------------------------------------------ what add accumulates *)
Lemma api_add_values props name nv k :
  props_values (api_add props name nv) k =
  if str_eqb (upper name) k then (props_values props k ++ newval_values nv)%list else props_values props k.
Proof.
  unfold api_add, props_values. destruct (str_eqb (upper name) k) eqn:E.
  - apply str_eqb_eq in E. subst k. destruct (dict_get (upper name) props) as [[o|old]|]; rewrite dict_get_set_same;
      destruct nv; reflexivity.
  - rewrite str_eqb_sym in E. destruct (dict_get (upper name) props) as [[o|old]|]; rewrite (dict_get_set_other _ _ _ E); reflexivity.
Qed.

Lemma api_set_values props name nv k :
  props_values (api_set props name nv) k =
  if str_eqb (upper name) k then newval_values nv else props_values props k.
Proof.
  unfold api_set, props_values. destruct (str_eqb (upper name) k) eqn:E.
  - apply str_eqb_eq in E. subst k. rewrite dict_get_set_same. destruct nv; reflexivity.
  - rewrite str_eqb_sym in E. rewrite (dict_get_set_other _ _ _ E). reflexivity.
Qed.

(* for every sequence of add / assignment calls: per name, exactly the supplied values in supply order *)
Theorem build_values k : forall ops props,
  props_values (fold_left api_step ops props) k = supplied k ops (props_values props k).
Proof.
  induction ops as [|op ops IH]; intros props; [reflexivity|]. cbn [fold_left supplied]. rewrite IH.
  destruct op as [n nv|n nv]; cbn [api_step]; [rewrite api_add_values|rewrite api_set_values];
    destruct (str_eqb (upper n) k); reflexivity.
Qed.

Corollary api_build_values k ops : props_values (api_build ops) k = supplied k ops [].
Proof. apply build_values. Qed.

(* ------------------------------------------------------------------ API-built properties are inside the C01 guard *)
Definition op_name (op : api_op) : list N := match op with OpAdd n _ | OpSet n _ => n end.
Definition op_vals (op : api_op) : list value := match op with OpAdd _ nv | OpSet _ nv => newval_values nv end.
Definition op_ok (dec : decoder) (sorted : bool) (op : api_op) : bool :=
  key_ok (upper (op_name op)) && nonempty_l (op_vals op)
  && forallb (value_ok dec sorted (upper (op_name op))) (op_vals op).

Definition props_inv (dec : decoder) (sorted : bool) (props : list (list N * pentry)) : Prop :=
  forallb (entry_ok dec sorted) props = true /\ NoDup (map fst props).

Lemma dict_set_inv {V} (P : list N * V -> Prop) k v : forall d, Forall P d -> NoDup (map fst d) -> P (k, v) ->
  Forall P (dict_set k v d) /\ NoDup (map fst (dict_set k v d)).
Proof.
  induction d as [|[k' v'] d IH]; intros HF Hnd Hp; cbn [dict_set].
  - split; [constructor; [exact Hp|constructor]|]. cbn. constructor; [intros []|constructor].
  - inversion HF as [|x xs Hx HF']; subst. cbn [map fst] in Hnd. inversion Hnd as [|y ys Hy Hnd']; subst.
    destruct (str_eqb k k') eqn:E.
    + apply str_eqb_eq in E. subst k'. split; [constructor; assumption|]. cbn [map fst]. constructor; assumption.
    + destruct (IH HF' Hnd' Hp) as [IH1 IH2]. split; [constructor; assumption|]. cbn [map fst]. constructor; [|exact IH2].
      intros Hin. apply Hy.
      (* keys of dict_set are the old keys plus possibly k *)
      clear -Hin E. induction d as [|[k2 v2] d IHd]; cbn [dict_set map fst] in *.
      * destruct Hin as [H|[]]. subst k'. rewrite str_eqb_refl'' in E. discriminate.
      * destruct (str_eqb k k2) eqn:E2; cbn [map fst] in Hin.
        -- destruct Hin as [H|H]; [apply str_eqb_eq in E2; subst; left; reflexivity|right; exact H].
        -- destruct Hin as [H|H]; [left; exact H|right; apply IHd; exact H].
Qed.

Lemma entry_ok_of dec sorted k vs e : key_ok k = true -> vs <> [] -> forallb (value_ok dec sorted k) vs = true ->
  entry_values e = vs -> entry_ok dec sorted (k, e) = true.
Proof.
  intros Hk Hne Hv He. unfold entry_ok. cbn [fst snd]. rewrite He, Hk, Hv. destruct vs; [congruence|reflexivity].
Qed.

Lemma api_step_inv dec sorted props op : op_ok dec sorted op = true -> props_inv dec sorted props ->
  props_inv dec sorted (api_step props op).
Proof.
  unfold op_ok, props_inv. rewrite !andb_true_iff. intros [[Hk Hne] Hv] [Hall Hnd].
  assert (Hne' : op_vals op <> []) by (destruct (op_vals op); [discriminate|discriminate]).
  assert (HF : Forall (fun kv => entry_ok dec sorted kv = true) props) by (apply Forall_forall; rewrite forallb_forall in Hall; exact Hall).
  assert (G : forall e, entry_values e <> [] -> forallb (value_ok dec sorted (upper (op_name op))) (entry_values e) = true ->
              props_inv dec sorted (dict_set (upper (op_name op)) e props)).
  { intros e He1 He2. destruct (dict_set_inv (fun kv => entry_ok dec sorted kv = true) (upper (op_name op)) e props HF Hnd) as [G1 G2].
    - apply (entry_ok_of dec sorted _ (entry_values e) e Hk He1 He2 eq_refl).
    - split; [|exact G2]. apply forallb_forall. rewrite Forall_forall in G1. exact G1. }
  destruct op as [n nv|n nv]; cbn [api_step op_name op_vals] in *.
  - unfold api_add. destruct (dict_get (upper n) props) as [[o|old]|] eqn:Eg.
    + apply G; cbn [entry_values]; [discriminate|]. cbn [forallb]. rewrite Hv, andb_true_r.
      rewrite forallb_forall in Hall. specialize (Hall _ (dict_get_In _ _ _ Eg)). unfold entry_ok in Hall. cbn [fst snd entry_values forallb] in Hall.
      rewrite !andb_true_iff in Hall. apply Hall.
    + apply G; cbn [entry_values]; [destruct old; [exact Hne'|discriminate]|]. rewrite forallb_app, Hv, andb_true_r.
      rewrite forallb_forall in Hall. specialize (Hall _ (dict_get_In _ _ _ Eg)). unfold entry_ok in Hall. cbn [fst snd entry_values] in Hall.
      rewrite !andb_true_iff in Hall. apply Hall.
    + apply G; destruct nv; cbn [entry_values newval_values] in *; assumption.
  - unfold api_set. apply G; destruct nv; cbn [entry_values newval_values] in *; assumption.
Qed.

Theorem api_build_inv dec sorted ops : forallb (op_ok dec sorted) ops = true -> props_inv dec sorted (api_build ops).
Proof.
  unfold api_build. assert (props_inv dec sorted []) as H0 by (split; [reflexivity|constructor]).
  revert H0. generalize (@nil (list N * pentry)). induction ops as [|op ops IH]; intros props Hp Hall; [exact Hp|].
  cbn [forallb] in Hall. apply andb_true_iff in Hall. destruct Hall as [Ho Hall]. cbn [fold_left].
  apply IH; [apply api_step_inv; assumption|exact Hall].
Qed.

(* C02 round trip: a component built by ANY sequence of add / assignment calls whose values are each
   individually round-trippable, over subcomponents that are, parses back from its serialisation as its
   normal form: same nesting, names, per-name value order, parameters, typed values *)
Theorem api_roundtrip dec sorted multiple n ops subs text :
  name_ok n = true -> forallb (op_ok dec sorted) ops = true -> forallb (tree_ok dec sorted) subs = true ->
  ser sorted (Comp n (api_build ops) subs []) = Ok text ->
  parse dec [] multiple text = Ok [norm sorted (Comp n (api_build ops) subs [])].
Proof.
  intros Hn Hops Hsubs Hser. apply (reparse dec sorted multiple _ text); [|exact Hser].
  destruct (api_build_inv dec sorted ops Hops) as [H1 H2]. cbn [tree_ok]. rewrite Hn, H1, Hsubs.
  apply nodup_strs_spec in H2. rewrite H2. reflexivity.
Qed.

(* ------------------------------------------------------------------ the RFC 5545 table *)
Lemma types_rfc :
  forallb (fun p : string * string =>
             implements (type_key (s2l (fst p))) (s2l (snd p))
             && match class_name_of_key (type_key (s2l (fst p))) with Some _ => true | None => false end) rfc5545_types = true.
Proof. vm_compute. reflexivity. Qed.

(* ------------------------------------------------------------------ VALUE and TZID parameters *)
Definition is_dt_kind (k : pykind) : bool := match k with KDate | KNaive | KUtc | KZoned _ => true | _ => false end.

Lemma value_tag_single name k : type_key name = s2l "date-time" -> is_dt_kind k = true ->
  value_param_ok name (rendered_type k) (ddd_params k) = true.
Proof. intros Hk Hd. unfold value_param_ok. rewrite Hk. destruct k; try discriminate; reflexivity. Qed.

Lemma value_tag_duration name : type_key name = s2l "duration" ->
  value_param_ok name (rendered_type KTimedelta) (ddd_params KTimedelta) = true.
Proof. intros Hk. unfold value_param_ok. rewrite Hk. reflexivity. Qed.

Lemma tzid_tag_single z : dict_get (s2l "TZID") (ddd_params (KZoned z)) = Some (PStr z).
Proof. reflexivity. Qed.

Lemma tzid_list_same z : forall ks, ks <> [] -> Forall (fun k => k = KZoned z) ks -> dddlist_params ks = [(s2l "TZID", PStr z)].
Proof.
  intros ks Hne HF. unfold dddlist_params.
  assert (forall acc, acc = None \/ acc = Some (PStr z) ->
            fold_left (fun acc k => match dict_get (s2l "TZID") (ddd_params k) with Some t => Some t | None => acc end) ks acc
            = match ks with [] => acc | _ => Some (PStr z) end) as G.
  { clear Hne. induction HF as [|k ks Hk HF IH]; intros acc Ha; [reflexivity|]. subst k. cbn [fold_left ddd_params dict_get].
    change (str_eqb (s2l "TZID") (s2l "TZID")) with true. cbv iota. rewrite (IH (Some (PStr z)) (or_intror eq_refl)).
    destruct ks; reflexivity. }
  rewrite (G None (or_introl eq_refl)). destruct ks; [congruence|reflexivity].
Qed.

(* known findings: a DATE-TIME TRIGGER, and DATE / PERIOD entries of RDATE / EXDATE, carry no VALUE parameter;
   a list with two zones is labelled with the last one only *)
Lemma value_tag_trigger_refuted : value_param_ok (s2l "TRIGGER") (rendered_type KUtc) (ddd_params KUtc) = false.
Proof. vm_compute. reflexivity. Qed.
Lemma value_tag_rdate_refuted :
  value_param_ok (s2l "RDATE") (rendered_type KDate) (dddlist_params [KDate; KDate]) = false /\
  value_param_ok (s2l "RDATE") (rendered_type KPeriod) (dddlist_params [KPeriod]) = false.
Proof. vm_compute. split; reflexivity. Qed.
Lemma tzid_list_mixed_refuted : dddlist_params [KZoned (s2l "A/a"); KZoned (s2l "B/b")] = [(s2l "TZID", PStr (s2l "B/b"))].
Proof. vm_compute. reflexivity. Qed.
