(* Proofs for the first-parse clause of C01: for every syntax tree of the RFC 5545 content-line
   grammar (Model/RfcLine.v) inside [first_parse_guard], Contentline.parts applied to the text
   the grammar generates returns exactly the name, parameters and value the text denotes
   ([first_parse_rfc]); without the placeholder clause it returns the denotation un-escaped once
   more ([first_parse_form]).  The scan of parts() and the three q_split passes are taken through
   the printed text with the quote-aware walks of Proofs/ParamsProofs.v (qwalk / q_split_join) and
   the scan lemmas of Proofs/ContentlineProofs.v.  Then: the refutation witnesses of every guard
   clause, a bounded exhaustive cross-check, and the lift to the line loop and to whole texts in
   any physical layout.  That the guard is also NECESSARY is Proofs/RfcExactProofs.v (on top of the
   decomposition of parts() on arbitrary lines from Proofs/RecaseProofs.v). *)
Require Import Lib.Base Lib.Chain Gen.Gen_parser Gen.Gen_cal Model.Text Model.Params Model.Fold Model.Contentline Model.Tree Model.Rewrite Model.RfcLine.
Require Import Proofs.ChainProofs Proofs.ReplaceProofs Proofs.ParamsProofs Proofs.ContentlineProofs Proofs.LinesProofs Proofs.RewriteProofs.
From Coq Require Import Lia Arith.

(* ------------------------------------------------------------------ character classes of the grammar vs the tables of the code *)
Ltac b2p := repeat rewrite ?orb_true_iff, ?andb_true_iff, ?negb_true_iff, ?orb_false_iff, ?andb_false_iff,
                          ?N.leb_le, ?N.leb_gt, ?N.eqb_eq, ?N.eqb_neq in *.

Lemma name_char_token c : name_char c = true -> is_token_chr c = true.
Proof.
  unfold name_char, rfc_alpha, rfc_digit, is_token_chr, is_lower, is_upper, is_digit. intros H. b2p. lia.
Qed.

Lemma rfc_name_token s : rfc_name_ok s = true -> is_token s = true.
Proof.
  unfold rfc_name_ok, is_token. destruct s as [|c s]; [discriminate|]. intros H. cbn [nonempty_b andb].
  rewrite forallb_forall in *. intros x Hx. apply name_char_token. apply H. exact Hx.
Qed.

Lemma name_facts k : rfc_name_ok k = true ->
  is_token k = true /\ all_ascii k = true /\ no_chr 58 k = true /\ no_chr 59 k = true /\ no_chr 34 k = true
  /\ no_chr 37 k = true /\ k <> [] /\ no_chr 61 k = true /\ no_chr 92 k = true.
Proof.
  intros H. pose proof (rfc_name_token k H) as Ht.
  destruct (is_token_facts k Ht) as (F1 & F2 & F3 & F4 & F5 & F6).
  repeat split; try assumption.
  all: destruct (forallb_token k Ht) as [_ Hall]; clear - Hall; induction Hall as [|c k Hc _ IH]; [reflexivity|].
  all: apply no_chr_cons; split; [|exact IH]; destruct (token_chr_facts c Hc) as (_ & _ & G3 & _ & _ & _ & _ & G8 & _); assumption.
Qed.

Lemma qsafe_facts c : qsafe_char c = true -> in_ranges QUNSAFE_CHAR_ranges c = false /\ c <> 34.
Proof.
  unfold qsafe_char, rfc_control, in_ranges, QUNSAFE_CHAR_ranges. cbn [existsb fst snd]. intros H. b2p.
  repeat split; try reflexivity; lia.
Qed.

Lemma safe_facts c : safe_char c = true ->
  in_ranges UNSAFE_CHAR_ranges c = false /\ c <> 34 /\ c <> 44 /\ c <> 58 /\ c <> 59.
Proof.
  unfold safe_char, qsafe_char, rfc_control, in_ranges, UNSAFE_CHAR_ranges. cbn [existsb fst snd]. intros H. b2p.
  repeat split; try reflexivity; lia.
Qed.

Lemma forallb_no_chr (p : N -> bool) b s : (forall c, p c = true -> c <> b) -> forallb p s = true -> no_chr b s = true.
Proof.
  intros Hp. induction s as [|c s IH]; intros H; [reflexivity|].
  cbn [forallb] in H. apply andb_true_iff in H. destruct H as [Hc Hs].
  apply no_chr_cons. split; [apply Hp; exact Hc|apply IH; exact Hs].
Qed.

Lemma forallb_existsb_false (p q : N -> bool) s : (forall c, p c = true -> q c = false) -> forallb p s = true -> existsb q s = false.
Proof.
  intros Hp. induction s as [|c s IH]; intros H; [reflexivity|].
  cbn [forallb] in H. apply andb_true_iff in H. destruct H as [Hc Hs].
  cbn [existsb]. rewrite (Hp c Hc), (IH Hs). reflexivity.
Qed.

(* ------------------------------------------------------------------ the printer in terms of join_with *)
Lemma print_pvalues_join vs : print_pvalues vs = join_with 44 (map print_pvalue vs).
Proof.
  induction vs as [|v vs IH]; [reflexivity|]. destruct vs as [|w vs]; [reflexivity|].
  change (print_pvalues (v :: w :: vs)) with (print_pvalue v ++ 44 :: print_pvalues (w :: vs)).
  rewrite IH. reflexivity.
Qed.

Lemma print_params_join ps :
  flat_map (fun p => 59 :: print_param p) ps =
  match ps with [] => [] | _ => 59 :: join_with 59 (map print_param ps) end.
Proof.
  induction ps as [|p ps IH]; [reflexivity|]. cbn [flat_map]. rewrite IH.
  destruct ps as [|q ps]; [cbn [map join_with]; rewrite app_nil_r; reflexivity|].
  cbn [map join_with app]. reflexivity.
Qed.

Lemma print_param_nonempty p : print_param p <> [].
Proof. unfold print_param. destruct (fst p); discriminate. Qed.

(* ------------------------------------------------------------------ quote-aware walks over printed pieces *)
(* [b] is one of the three separators; a paramtext contains none of them, a quoted string hides them *)
Lemma pvalue_walk v b : pvalue_ok v = true -> b = 44 \/ b = 58 \/ b = 59 ->
  qwalk (fun c => c =? b) false (print_pvalue v) = Some false.
Proof.
  intros Hv Hb. destruct v as [s|s]; cbn [pvalue_ok print_pvalue] in *.
  - apply qwalk_outside.
    + apply (forallb_no_chr safe_char); [|exact Hv]. intros c Hc. apply (safe_facts c Hc).
    + apply (forallb_existsb_false safe_char); [|exact Hv]. intros c Hc.
      destruct (safe_facts c Hc) as (_ & _ & A & B & C). apply N.eqb_neq. destruct Hb as [->|[->| ->]]; assumption.
  - cbn [qwalk]. rewrite N.eqb_refl. cbn [negb andb].
    rewrite qwalk_app, qwalk_inside.
    + cbn [qwalk]. rewrite N.eqb_refl. cbn [negb andb].
      assert ((34 =? b) = false) as E by (destruct Hb as [->|[->| ->]]; reflexivity). rewrite E. reflexivity.
    + apply (forallb_no_chr qsafe_char); [|exact Hv]. intros c Hc. apply (qsafe_facts c Hc).
Qed.

Lemma pvalues_walk vs b : forallb pvalue_ok vs = true -> b = 58 \/ b = 59 ->
  qwalk (fun c => c =? b) false (print_pvalues vs) = Some false.
Proof.
  intros Hvs Hb. induction vs as [|v vs IH]; [reflexivity|].
  cbn [forallb] in Hvs. apply andb_true_iff in Hvs. destruct Hvs as [Hv Hvs].
  assert (qwalk (fun c => c =? b) false (print_pvalue v) = Some false) as W
    by (apply pvalue_walk; [exact Hv|right; exact Hb]).
  destruct vs as [|w vs]; [exact W|].
  change (print_pvalues (v :: w :: vs)) with (print_pvalue v ++ 44 :: print_pvalues (w :: vs)).
  rewrite qwalk_app, W. cbn [qwalk].
  assert ((44 =? b) = false) as E by (destruct Hb as [->| ->]; reflexivity). rewrite E.
  cbn [N.eqb Pos.eqb negb andb]. apply IH. exact Hvs.
Qed.

Lemma param_ok_inv p : param_ok p = true -> rfc_name_ok (fst p) = true /\ snd p <> [] /\ forallb pvalue_ok (snd p) = true.
Proof.
  unfold param_ok. intros H. apply andb_true_iff in H. destruct H as [Hk Hv].
  destruct (snd p) as [|v vs]; [discriminate|]. repeat split; [exact Hk|discriminate|exact Hv].
Qed.

Lemma param_walk p b : param_ok p = true -> b = 58 \/ b = 59 ->
  qwalk (fun c => c =? b) false (print_param p) = Some false.
Proof.
  intros Hp Hb. destruct (param_ok_inv p Hp) as (Hk & _ & Hvs).
  destruct (name_facts _ Hk) as (_ & _ & N58 & N59 & N34 & _).
  unfold print_param. rewrite walk_noq_nobad; [|exact N34|apply no_chr_existsb; destruct Hb; subst b; assumption].
  cbn [qwalk]. assert ((61 =? b) = false) as E by (destruct Hb; subst b; reflexivity). rewrite E.
  cbn [N.eqb Pos.eqb negb andb]. apply pvalues_walk; assumption.
Qed.

Lemma params_text_walk58 ps : forallb param_ok ps = true ->
  qwalk (fun c => c =? 58) false (join_with 59 (map print_param ps)) = Some false.
Proof.
  induction ps as [|p ps IH]; intros H; [reflexivity|].
  cbn [forallb] in H. apply andb_true_iff in H. destruct H as [Hp H].
  pose proof (param_walk p 58 Hp (or_introl eq_refl)) as W.
  destruct ps as [|q ps]; [exact W|].
  change (join_with 59 (map print_param (p :: q :: ps))) with (print_param p ++ 59 :: join_with 59 (map print_param (q :: ps))).
  rewrite qwalk_app, W. cbn [qwalk N.eqb Pos.eqb negb andb]. apply IH. exact H.
Qed.

(* ------------------------------------------------------------------ Parameters.from_ical on the printed parameter section *)
Lemma ends_q_quoted s : ends_q (34 :: s ++ [34]) = true.
Proof. unfold ends_q. rewrite rev_cons_quote. reflexivity. Qed.

Lemma parse_vals_printed : forall vs, forallb pvalue_ok vs = true ->
  parse_vals (map print_pvalue vs) = Ok (map pvalue_text vs).
Proof.
  induction vs as [|v vs IH]; intros H; [reflexivity|].
  cbn [forallb] in H. apply andb_true_iff in H. destruct H as [Hv Hvs].
  cbn [map parse_vals]. cbv zeta. rewrite (IH Hvs).
  destruct v as [s|s]; cbn [pvalue_ok print_pvalue pvalue_text] in *.
  - rewrite starts_q_noq by (apply (forallb_no_chr safe_char); [|exact Hv]; intros c Hc; apply (safe_facts c Hc)).
    cbn [andb]. unfold validate_param_value.
    rewrite (forallb_existsb_false safe_char (in_ranges UNSAFE_CHAR_ranges) s) by (try exact Hv; intros c Hc; apply (safe_facts c Hc)).
    reflexivity.
  - assert (no_chr 34 s = true) as Hq by (apply (forallb_no_chr qsafe_char); [|exact Hv]; intros c Hc; apply (qsafe_facts c Hc)).
    rewrite ends_q_quoted. cbn [starts_q N.eqb Pos.eqb andb]. rewrite (strip_q_quoted s Hq).
    unfold validate_param_value.
    rewrite (forallb_existsb_false qsafe_char (in_ranges QUNSAFE_CHAR_ranges) s) by (try exact Hv; intros c Hc; apply (qsafe_facts c Hc)).
    reflexivity.
Qed.

Lemma map_pvalue_text_length vs : length (map pvalue_text vs) = length vs.
Proof. apply map_length. Qed.

(* the comma split of the printed values, decoded as Parameters.from_ical does *)
Lemma split_printed_values vs : vs <> [] -> forallb pvalue_ok vs = true ->
  bind (parse_vals (q_split (print_pvalues vs) 44 None))
       (fun vals => match vals with
                    | [] => Ok (PStr (print_pvalues vs))
                    | [v] => Ok (PStr v)
                    | _ => Ok (PList vals)
                    end) = Ok (denote_values vs).
Proof.
  intros Hne Hvs. rewrite q_split_none, print_pvalues_join.
  rewrite (q_split_join 44 ltac:(discriminate) (map print_pvalue vs) 0).
  - destruct vs as [|v [|w vs]]; [congruence| |].
    + (* one value *)
      cbn [map]. destruct (print_pvalue v) as [|c r] eqn:E.
      * destruct v as [s|s]; cbn [print_pvalue] in E; [subst s|discriminate]. reflexivity.
      * unfold qs_norm. rewrite <- E. pose proof (parse_vals_printed [v] Hvs) as P. cbn [map] in P. rewrite P. reflexivity.
    + cbn [map]. rewrite qs_norm_two.
      pose proof (parse_vals_printed (v :: w :: vs) Hvs) as P. cbn [map] in P. rewrite P. reflexivity.
  - destruct vs; [congruence|discriminate].
  - apply Forall_forall. intros x Hx. apply in_map_iff in Hx. destruct Hx as (v & <- & Hin).
    rewrite forallb_forall in Hvs. apply pvalue_walk; [apply Hvs; exact Hin|left; reflexivity].
Qed.

Lemma parse_param_printed p : param_ok p = true ->
  parse_param (print_param p) = Ok (upper (fst p), denote_values (snd p)).
Proof.
  intros Hp. destruct (param_ok_inv p Hp) as (Hk & Hne & Hvs). destruct p as [k vs]. cbn [fst snd] in *.
  destruct (name_facts k Hk) as (Ht & Ha & _ & _ & N34 & _ & _ & N61 & _).
  unfold parse_param, print_param. cbn [fst snd]. unfold q_split at 1.
  rewrite (q_split_key k [] (print_pvalues vs) N61 N34). cbn [rev app].
  rewrite (validate_token_ok _ Ht Ha). cbn [bind].
  pose proof (split_printed_values vs Hne Hvs) as S.
  destruct (parse_vals (q_split (print_pvalues vs) 44 None)) as [vals| | |]; cbn [bind] in *; try discriminate.
  destruct vals as [|v1 [|v2 vr]]; inversion S; reflexivity.
Qed.

Definition denote_params (ps : list (str * list pvalue)) : params :=
  map (fun p : str * list pvalue => (upper (fst p), denote_values (snd p))) ps.

Lemma parse_params_list_printed : forall ps acc, forallb param_ok ps = true ->
  nodup_strs (map (fun p : str * list pvalue => upper (fst p)) ps) = true ->
  (forall p, In p ps -> existsb (str_eqb (upper (fst p))) (map fst acc) = false) ->
  parse_params_list (map print_param ps) acc = Ok (acc ++ denote_params ps).
Proof.
  induction ps as [|p ps IH]; intros acc Hok Hnd Hfresh.
  - cbn. rewrite app_nil_r. reflexivity.
  - cbn [forallb] in Hok. apply andb_true_iff in Hok. destruct Hok as [Hp Hok].
    cbn [map nodup_strs] in Hnd. apply andb_true_iff in Hnd. destruct Hnd as [Hn1 Hnd]. apply negb_true_iff in Hn1.
    cbn [map parse_params_list]. rewrite (parse_param_printed p Hp). cbn [bind fst snd].
    rewrite dict_set_fresh by (apply Hfresh; left; reflexivity).
    rewrite IH; [| exact Hok | exact Hnd |].
    + cbn [denote_params map]. rewrite <- app_assoc. reflexivity.
    + intros p' Hin. rewrite map_app. apply existsb_app_false. split.
      * apply Hfresh. right. exact Hin.
      * cbn [map fst existsb]. rewrite orb_false_r. rewrite str_eqb_sym.
        apply (existsb_false_In _ _ Hn1). apply in_map_iff. exists p'. split; [reflexivity|exact Hin].
Qed.

Lemma params_from_ical_printed ps : forallb param_ok ps = true ->
  nodup_strs (map (fun p : str * list pvalue => upper (fst p)) ps) = true ->
  params_from_ical (join_with 59 (map print_param ps)) = Ok (denote_params ps).
Proof.
  intros Hok Hnd. unfold params_from_ical. rewrite q_split_none.
  destruct ps as [|p ps]; [reflexivity|].
  rewrite (q_split_join 59 ltac:(discriminate) (map print_param (p :: ps)) 0 ltac:(discriminate)).
  - assert (qs_norm (map print_param (p :: ps)) = map print_param (p :: ps)) as En.
    { cbn [map]. unfold qs_norm. destruct (print_param p) eqn:E; [exfalso; exact (print_param_nonempty p E)|reflexivity]. }
    rewrite En. rewrite (parse_params_list_printed (p :: ps) [] Hok Hnd); [reflexivity|]. intros; reflexivity.
  - apply Forall_forall. intros x Hx. apply in_map_iff in Hx. destruct Hx as (p' & <- & Hin).
    rewrite forallb_forall in Hok. apply param_walk; [apply Hok; exact Hin|right; reflexivity].
Qed.

(* ------------------------------------------------------------------ substrings of the printed line *)
Definition sub (w t : str) : Prop := exists x y, t = x ++ w ++ y.

Lemma sub_refl w : sub w w.
Proof. exists [], []. rewrite app_nil_r. reflexivity. Qed.

Lemma sub_trans a b c : sub a b -> sub b c -> sub a c.
Proof.
  intros (x & y & ->) (x' & y' & ->). exists (x' ++ x), (y ++ y'). rewrite <- !app_assoc. reflexivity.
Qed.

Lemma sub_mid x w y : sub w (x ++ w ++ y).
Proof. exists x, y. reflexivity. Qed.

Lemma avoids_sub forb w t : sub w t -> avoids forb t = true -> avoids forb w = true.
Proof.
  intros (x & y & ->). unfold avoids. rewrite !forallb_forall. intros H f Hf. specialize (H f Hf).
  apply negb_true_iff in H. apply negb_true_iff.
  destruct (has_sub f w) eqn:E; [|reflexivity].
  apply has_sub_spec in E. destruct E as (a & b & ->).
  assert (has_sub f (x ++ (a ++ f ++ b) ++ y) = true) as T.
  { apply has_sub_spec. exists (x ++ a), (b ++ y). rewrite <- !app_assoc. reflexivity. }
  congruence.
Qed.

Lemma sub_join sep : forall l x, In x l -> sub x (join_with sep l).
Proof.
  induction l as [|a l IH]; intros x Hin; [destruct Hin|].
  destruct l as [|b l].
  - destruct Hin as [<-|[]]. apply sub_refl.
  - change (join_with sep (a :: b :: l)) with (a ++ sep :: join_with sep (b :: l)).
    destruct Hin as [<-|Hin].
    + exists [], (sep :: join_with sep (b :: l)). reflexivity.
    + destruct (IH x Hin) as (u & v & E). rewrite E. exists (a ++ sep :: u), v. rewrite <- app_assoc. reflexivity.
Qed.

Lemma sub_pvalue_text v : sub (pvalue_text v) (print_pvalue v).
Proof.
  destruct v as [s|s]; cbn [pvalue_text print_pvalue]; [apply sub_refl|].
  exists [34], [34]. reflexivity.
Qed.

Lemma sub_param_value p v : In v (snd p) -> sub (pvalue_text v) (print_param p).
Proof.
  intros Hin. apply (sub_trans _ (print_pvalue v)); [apply sub_pvalue_text|].
  apply (sub_trans _ (print_pvalues (snd p))).
  - rewrite print_pvalues_join. apply sub_join. apply in_map. exact Hin.
  - unfold print_param. exists (fst p ++ [61]), []. rewrite app_nil_r, <- app_assoc. reflexivity.
Qed.

(* ------------------------------------------------------------------ Parameters(...) rebuilt: the names stay, the values are un-escaped *)
Definition unescape_params (ps : params) : params := map (fun kv : list N * pval => (fst kv, unescape_pval (snd kv))) ps.

Lemma rebuild_keys_id : forall ps acc,
  (forall kv, In kv ps -> unescape_string (fst kv) = fst kv /\ upper (fst kv) = fst kv) ->
  nodup_strs (map fst ps) = true ->
  (forall kv, In kv ps -> existsb (str_eqb (fst kv)) (map fst acc) = false) ->
  rebuild_params ps acc = acc ++ unescape_params ps.
Proof.
  induction ps as [|[k v] ps IH]; intros acc Hid Hnd Hfresh.
  - cbn. rewrite app_nil_r. reflexivity.
  - cbn [map fst nodup_strs] in Hnd. apply andb_true_iff in Hnd. destruct Hnd as [Hn1 Hnd]. apply negb_true_iff in Hn1.
    destruct (Hid (k, v) (or_introl eq_refl)) as (E1 & E2). cbn [fst snd] in *.
    cbn [rebuild_params]. rewrite E1, E2.
    rewrite dict_set_fresh by (apply (Hfresh (k, v)); left; reflexivity).
    rewrite IH; [| | exact Hnd |].
    + cbn [unescape_params map fst snd]. rewrite <- app_assoc. reflexivity.
    + intros kv Hin. apply Hid. right. exact Hin.
    + intros kv Hin. rewrite map_app. apply existsb_app_false. split.
      * apply Hfresh. right. exact Hin.
      * cbn [map fst existsb]. rewrite orb_false_r. rewrite str_eqb_sym.
        apply (existsb_false_In _ _ Hn1). apply in_map. exact Hin.
Qed.

Lemma denote_params_keys ps : map fst (denote_params ps) = map (fun p : str * list pvalue => upper (fst p)) ps.
Proof. unfold denote_params. rewrite map_map. reflexivity. Qed.

Lemma rebuild_denoted ps : forallb param_ok ps = true ->
  nodup_strs (map (fun p : str * list pvalue => upper (fst p)) ps) = true ->
  rebuild_params (denote_params ps) [] = unescape_params (denote_params ps).
Proof.
  intros Hok Hnd.
  rewrite rebuild_keys_id; [reflexivity| |rewrite denote_params_keys; exact Hnd|intros; reflexivity].
  intros kv Hin. unfold denote_params in Hin. apply in_map_iff in Hin. destruct Hin as (p & <- & Hp). cbn [fst snd].
  rewrite forallb_forall in Hok. destruct (param_ok_inv p (Hok p Hp)) as (Hk & _ & _).
  destruct (upper_token (fst p) (rfc_name_token _ Hk)) as (_ & _ & _ & _ & _ & _ & T7 & _ & T9 & _).
  split; [apply unescape_string_nopct; exact T7|exact T9].
Qed.

Lemma unescape_denote_values vs : (forall v, In v vs -> unescape_string (pvalue_text v) = pvalue_text v) ->
  unescape_pval (denote_values vs) = denote_values vs.
Proof.
  intros H.
  assert (map unescape_string (map pvalue_text vs) = map pvalue_text vs) as M.
  { rewrite map_map. apply map_ext_in. intros v Hv. apply H. exact Hv. }
  destruct vs as [|v [|w vs]]; cbn [denote_values unescape_pval].
  - reflexivity.
  - rewrite H by (left; reflexivity). reflexivity.
  - rewrite M. reflexivity.
Qed.

(* ------------------------------------------------------------------ the theorem *)
Lemma escape_string_id w : avoids forb_esc w = true -> escape_string w = w.
Proof. intros H. apply seq_run_id; [exact esc_chain_nonempty|exact H]. Qed.

(* without the placeholder clause: what parts() returns is the denotation with every parameter
   value and the value passed through unescape_string once more *)
Definition unescaped_denotation (l : rfc_line) : str * params * str :=
  (rl_name l, unescape_params (denote_params (rl_params l)), unescape_string (rl_value l)).

Theorem first_parse_form l : rfc_line_ok l = true -> guard_no_escape l = true -> guard_names_distinct l = true ->
  parts (rfc_print l) = Ok (unescaped_denotation l).
Proof.
  unfold rfc_line_ok, guard_no_escape, guard_names_distinct, unescaped_denotation.
  intros Hok Hesc Hnd. apply andb_true_iff in Hok. destruct Hok as [Hok Hval]. apply andb_true_iff in Hok. destruct Hok as [Hname Hps].
  destruct l as [name ps v]. cbn [rl_name rl_params rl_value] in *.
  destruct (name_facts name Hname) as (Ht & Na & N58 & N59 & N34 & N37 & Nne & _).
  pose proof (validate_token_ok name Ht Na) as Hvt.
  unfold parts. rewrite (escape_string_id _ Hesc). clear Hesc.
  unfold rfc_print. cbn [rl_name rl_params rl_value].
  rewrite print_params_join.
  destruct ps as [|p0 ps0].
  - (* no parameters *)
    cbn [app]. rewrite (scan_name name 0 _ N58 N59 N34). cbn [Nat.add scan].
    cbn [N.eqb Pos.eqb orb andb negb falsy].
    destruct (length name) as [|n] eqn:El; [destruct name; [congruence|discriminate]|].
    rewrite scan_tail by reflexivity.
    rewrite <- El, firstn_app_exact, (unescape_string_nopct _ N37).
    destruct name as [|c0 name0] eqn:En; [congruence|]. rewrite <- En in *. rewrite Hvt. cbn [bind falsy].
    rewrite El. cbn [falsy].
    assert ((S (S n) =? S n)%nat = false) as Hneq by (apply Nat.eqb_neq; lia). rewrite Hneq.
    unfold slice. replace (S n - S (S n))%nat with 0%nat by lia. cbn [firstn].
    change (params_from_ical []) with (@Ok params []). cbn [bind rebuild_params denote_params unescape_params map].
    replace (skipn (S (S n)) (name ++ 58 :: v)) with v; [reflexivity|].
    replace (name ++ 58 :: v) with ((name ++ [58]) ++ v) by (rewrite <- app_assoc; reflexivity).
    replace (S (S n)) with (length (name ++ [58])) by (rewrite app_length; cbn [length]; lia).
    rewrite skipn_app_exact. reflexivity.
  - (* parameters present *)
    set (its := p0 :: ps0) in *.
    set (p := join_with 59 (map print_param its)) in *.
    assert (Hpne : p <> []).
    { unfold p, its. cbn [map]. destruct (map print_param ps0); cbn [join_with].
      - apply print_param_nonempty.
      - destruct (print_param p0) eqn:E; [exfalso; exact (print_param_nonempty p0 E)|discriminate]. }
    assert (Hnorm : name ++ (59 :: p) ++ 58 :: v = name ++ 59 :: p ++ 58 :: v) by reflexivity.
    rewrite Hnorm in *.
    rewrite (scan_name name 0 _ N58 N59 N34). cbn [Nat.add scan].
    cbn [N.eqb Pos.eqb orb andb negb falsy].
    destruct (length name) as [|n] eqn:El; [destruct name; [congruence|discriminate]|].
    rewrite (scan_params p (S (S n)) false false (Some (S n)) _ eq_refl) by (apply params_text_walk58; exact Hps).
    cbn [scan N.eqb Pos.eqb orb andb negb falsy].
    rewrite scan_tail by reflexivity.
    rewrite <- El, firstn_app_exact, (unescape_string_nopct _ N37).
    destruct name as [|c0 name0] eqn:En; [congruence|]. rewrite <- En in *. rewrite Hvt. cbn [bind].
    rewrite El. cbn [falsy].
    destruct (length p) as [|lp] eqn:Elp; [destruct p; [congruence|discriminate]|].
    replace (S (S n) + S lp)%nat with (S (S (S (n + lp)))) by lia. cbv iota.
    assert ((S (S n) =? S (S (S (n + lp))))%nat = false) as Hneq by (apply Nat.eqb_neq; lia). rewrite Hneq.
    assert (Hslice : slice (S (S n)) (S (S (S (n + lp)))) (name ++ 59 :: p ++ 58 :: v) = p).
    { unfold slice. replace (S (S (S (n + lp))) - S (S n))%nat with (length p) by lia.
      replace (name ++ 59 :: p ++ 58 :: v) with ((name ++ [59]) ++ p ++ 58 :: v) by (rewrite <- app_assoc; reflexivity).
      replace (S (S n)) with (length (name ++ [59])) by (rewrite app_length; cbn [length]; lia).
      rewrite skipn_app_exact, firstn_app_exact. reflexivity. }
    rewrite Hslice. unfold p at 1. rewrite (params_from_ical_printed its Hps Hnd). cbn [bind].
    rewrite (rebuild_denoted its Hps Hnd).
    replace (skipn (S (S (S (S (n + lp))))) (name ++ 59 :: p ++ 58 :: v)) with v; [reflexivity|].
    replace (name ++ 59 :: p ++ 58 :: v) with ((name ++ 59 :: p ++ [58]) ++ v)
      by (rewrite <- app_assoc; cbn [app]; rewrite <- app_assoc; reflexivity).
    replace (S (S (S (S (n + lp))))) with (length (name ++ 59 :: p ++ [58]))
      by (rewrite app_length; cbn [length]; rewrite app_length; cbn [length]; lia).
    rewrite skipn_app_exact. reflexivity.
Qed.

Lemma sub_print_param l p : In p (rl_params l) -> sub (print_param p) (rfc_print l).
Proof.
  intros Hin. unfold rfc_print. destruct (in_split _ _ Hin) as (l1 & l2 & E). rewrite E, flat_map_app. cbn [flat_map].
  exists (rl_name l ++ flat_map (fun p0 => 59 :: print_param p0) l1 ++ [59]),
         (flat_map (fun p0 => 59 :: print_param p0) l2 ++ 58 :: rl_value l).
  rewrite <- ?app_assoc. cbn [app]. rewrite <- ?app_assoc. reflexivity.
Qed.

Lemma sub_print_value l : sub (rl_value l) (rfc_print l).
Proof.
  unfold rfc_print. exists (rl_name l ++ flat_map (fun p => 59 :: print_param p) (rl_params l) ++ [58]), [].
  rewrite app_nil_r, <- !app_assoc. reflexivity.
Qed.

(* with the placeholder clause nothing is left to un-escape *)
Lemma unescaped_denotation_id l : guard_no_placeholder l = true -> unescaped_denotation l = rfc_denote l.
Proof.
  unfold guard_no_placeholder, unescaped_denotation, rfc_denote. intros Hun. fold (denote_params (rl_params l)).
  rewrite (unescape_string_id (rl_value l)) by (apply (avoids_sub _ _ _ (sub_print_value l) Hun)).
  f_equal. f_equal. unfold unescape_params, denote_params. rewrite map_map.
  apply map_ext_in. intros p Hp. cbn [fst snd]. f_equal.
  apply unescape_denote_values. intros v Hv. apply unescape_string_id.
  apply (avoids_sub _ _ (rfc_print l)); [|exact Hun].
  apply (sub_trans _ (print_param p)); [apply sub_param_value; exact Hv|apply sub_print_param; exact Hp].
Qed.

Theorem first_parse_rfc l : rfc_line_ok l = true -> first_parse_guard l = true ->
  parts (rfc_print l) = Ok (rfc_denote l).
Proof.
  unfold first_parse_guard. intros Hok Hg. apply andb_true_iff in Hg. destruct Hg as [Hg Hnd]. apply andb_true_iff in Hg. destruct Hg as [Hesc Hun].
  rewrite (first_parse_form l Hok Hesc Hnd), (unescaped_denotation_id l Hun). reflexivity.
Qed.

(* ------------------------------------------------------------------ what the guard excludes: every clause is needed *)
(* Each witness is a well-formed syntax tree that violates exactly one clause; parts() returns
   something else than the denotation.  (The implementation returns the same on each: run by
   tools/harness/c01.py, corpus [RFC_WITNESSES].) *)
Definition mk (n : str) (ps : list (str * list pvalue)) (v : str) : rfc_line := {| rl_name := n; rl_params := ps; rl_value := v |}.
Definition guard_bits (l : rfc_line) : bool * bool * bool := (guard_no_escape l, guard_no_placeholder l, guard_names_distinct l).

(* (1) backslash before , ; : or backslash -- in the value *)
Definition w_value_comma := mk (s2l "N") [] (s2l "a\,b").
Lemma value_escape_refuted :
  rfc_line_ok w_value_comma = true /\ guard_bits w_value_comma = (false, true, true) /\
  rfc_print w_value_comma = s2l "N:a\,b" /\
  parts (rfc_print w_value_comma) = Ok (s2l "N", [], s2l "a,b") /\
  rfc_denote w_value_comma = (s2l "N", [], s2l "a\,b").
Proof. vm_compute. repeat split; reflexivity. Qed.

Definition w_value_bsbs := mk (s2l "N") [] (s2l "a\\nb").
Lemma value_backslash_refuted :
  rfc_line_ok w_value_bsbs = true /\ guard_bits w_value_bsbs = (false, true, true) /\
  parts (rfc_print w_value_bsbs) = Ok (s2l "N", [], s2l "a\nb") /\
  rfc_denote w_value_bsbs = (s2l "N", [], s2l "a\\nb").
Proof. vm_compute. repeat split; reflexivity. Qed.

(* ... in a paramtext: RFC reads two values, a\ and b; parts() reads one value a,b *)
Definition w_param_comma := mk (s2l "N") [(s2l "P", [Plain (s2l "a\"); Plain (s2l "b")])] (s2l "v").
Lemma param_escape_refuted :
  rfc_line_ok w_param_comma = true /\ guard_bits w_param_comma = (false, true, true) /\
  rfc_print w_param_comma = s2l "N;P=a\,b:v" /\
  parts (rfc_print w_param_comma) = Ok (s2l "N", [(s2l "P", PStr (s2l "a,b"))], s2l "v") /\
  rfc_denote w_param_comma = (s2l "N", [(s2l "P", PList [s2l "a\"; s2l "b"])], s2l "v").
Proof. vm_compute. repeat split; reflexivity. Qed.

(* ... in a quoted string *)
Definition w_quoted_semi := mk (s2l "N") [(s2l "P", [Quoted (s2l "a\;b")])] (s2l "v").
Lemma quoted_escape_refuted :
  rfc_line_ok w_quoted_semi = true /\ guard_bits w_quoted_semi = (false, true, true) /\
  parts (rfc_print w_quoted_semi) = Ok (s2l "N", [(s2l "P", PStr (s2l "a;b"))], s2l "v") /\
  rfc_denote w_quoted_semi = (s2l "N", [(s2l "P", PStr (s2l "a\;b"))], s2l "v").
Proof. vm_compute. repeat split; reflexivity. Qed.

(* ... straddling a delimiter: a paramtext ending in a backslash swallows the next parameter *)
Definition w_straddle_semi := mk (s2l "N") [(s2l "P", [Plain (s2l "a\")]); (s2l "Q", [Plain (s2l "b")])] (s2l "v").
Lemma straddle_semi_refuted :
  rfc_line_ok w_straddle_semi = true /\ guard_bits w_straddle_semi = (false, true, true) /\
  rfc_print w_straddle_semi = s2l "N;P=a\;Q=b:v" /\
  parts (rfc_print w_straddle_semi) = Ok (s2l "N", [(s2l "P", PStr (s2l "a;Q=b"))], s2l "v") /\
  rfc_denote w_straddle_semi = (s2l "N", [(s2l "P", PStr (s2l "a\")); (s2l "Q", PStr (s2l "b"))], s2l "v").
Proof. vm_compute. repeat split; reflexivity. Qed.

(* ... or the colon that starts the value: the value is read as part of the parameter *)
Definition w_straddle_colon := mk (s2l "N") [(s2l "P", [Plain (s2l "a\")])] (s2l "v").
Lemma straddle_colon_refuted :
  rfc_line_ok w_straddle_colon = true /\ guard_bits w_straddle_colon = (false, true, true) /\
  rfc_print w_straddle_colon = s2l "N;P=a\:v" /\
  parts (rfc_print w_straddle_colon) = Ok (s2l "N", [(s2l "P", PStr (s2l "a:v"))], []) /\
  rfc_denote w_straddle_colon = (s2l "N", [(s2l "P", PStr (s2l "a\"))], s2l "v").
Proof. vm_compute. repeat split; reflexivity. Qed.

(* (2) placeholder text written in the input *)
Definition w_value_pct := mk (s2l "N") [] (s2l "100%2Cx").
Lemma value_placeholder_refuted :
  rfc_line_ok w_value_pct = true /\ guard_bits w_value_pct = (true, false, true) /\
  parts (rfc_print w_value_pct) = Ok (s2l "N", [], s2l "100,x") /\
  rfc_denote w_value_pct = (s2l "N", [], s2l "100%2Cx").
Proof. vm_compute. repeat split; reflexivity. Qed.

Definition w_param_pct := mk (s2l "N") [(s2l "P", [Plain (s2l "a%3Ab"); Quoted (s2l "%5C")])] (s2l "v").
Lemma param_placeholder_refuted :
  rfc_line_ok w_param_pct = true /\ guard_bits w_param_pct = (true, false, true) /\
  parts (rfc_print w_param_pct) = Ok (s2l "N", [(s2l "P", PList [s2l "a:b"; s2l "\"])], s2l "v") /\
  rfc_denote w_param_pct = (s2l "N", [(s2l "P", PList [s2l "a%3Ab"; s2l "%5C"])], s2l "v").
Proof. vm_compute. repeat split; reflexivity. Qed.

(* (3) a parameter name written twice (in any letter case): the last occurrence wins *)
Definition w_dup := mk (s2l "N") [(s2l "P", [Plain (s2l "a")]); (s2l "p", [Plain (s2l "b")])] (s2l "v").
Lemma duplicate_name_refuted :
  rfc_line_ok w_dup = true /\ guard_bits w_dup = (true, true, false) /\
  rfc_print w_dup = s2l "N;P=a;p=b:v" /\
  parts (rfc_print w_dup) = Ok (s2l "N", [(s2l "P", PStr (s2l "b"))], s2l "v") /\
  rfc_denote w_dup = (s2l "N", [(s2l "P", PStr (s2l "a")); (s2l "P", PStr (s2l "b"))], s2l "v").
Proof. vm_compute. repeat split; reflexivity. Qed.

(* NOT excluded, although of the same family: backslash before n / N, before DQUOTE, a lone
   percent sign, DQUOTEs in the value -- parts() leaves them alone (the theorem covers them) *)
Definition w_inside := mk (s2l "N") [(s2l "P", [Quoted (s2l "a\"); Plain (s2l "\n%2c%")])] (s2l "x\ny\N""q:r"";%2%3a\").
Lemma backslash_n_inside_guard : rfc_line_ok w_inside = true /\ first_parse_guard w_inside = true.
Proof. vm_compute. split; reflexivity. Qed.

(* the guard is exact on a bounded domain: on every syntax tree below, parts() returns the
   denotation IF AND ONLY IF the guard holds (so no clause can be weakened there) *)
Definition crit_q : str := [97; 92; 37; 50; 67; 44; 59; 58].          (* a \ % 2 C , ; : *)
Definition crit_s : str := [97; 92; 37; 50; 67].
Definition small_a : list rfc_line := small_lines [[78]] [] [] [] (strs_upto crit_q 3) 0 0.
Definition small_b : list rfc_line :=
  small_lines [[78]] [[112]] (strs_upto [92; 37; 50; 67] 2) (strs_upto [92; 44; 37; 50; 67] 1) [[]; [44]; [67]; [50; 67]] 2 1.
Definition small_c : list rfc_line :=
  small_lines [[78]] [[112]; [80]; [81]] [[]; [92]; [97]] [[]; [92]; [59]] [[]; [44]; [58]] 1 2.
Definition guard_exact_on (t : list rfc_line) : bool :=
  forallb (fun l => rfc_line_ok l && Bool.eqb (first_parse_guard l) (first_parse_agrees l)) t.
Lemma guard_exact_small :
  guard_exact_on small_a && guard_exact_on small_b && guard_exact_on small_c = true /\
  (length small_a, length small_b, length small_c) = (585, 3028, 1029)%nat.
Proof. vm_compute. split; reflexivity. Qed.

Lemma parts_is_spec r d : parts_is r d = true <-> r = Ok d.
Proof.
  assert (PV : forall a b, pval_beq a b = true <-> a = b).
  { intros [x|x] [y|y]; cbn [pval_beq]; try (split; [discriminate|congruence]).
    - rewrite str_eqb_eq. split; congruence.
    - rewrite strs_eqb_eq. split; congruence. }
  assert (PS : forall a b, params_beq a b = true <-> a = b).
  { induction a as [|[k v] a IH]; intros [|[k' v'] b]; cbn [params_beq]; try (split; [discriminate|congruence]).
    - split; reflexivity.
    - rewrite !andb_true_iff, str_eqb_eq, PV, IH. split; [intros [[-> ->] ->]; reflexivity|intros E; inversion E; auto]. }
  destruct r as [[[n ps] v]| | |]; cbn [parts_is]; try (split; [discriminate|congruence]).
  destruct d as [[n' ps'] v']. rewrite !andb_true_iff, !str_eqb_eq, PS.
  split; [intros [[-> ->] ->]; reflexivity|intros E; inversion E; auto].
Qed.

(* ------------------------------------------------------------------ the line loop and whole texts *)
Lemma run_lines_parts dec : forall ls s, run_lines dec s ls = run_parts dec s (map parts ls).
Proof. induction ls as [|l ls IH]; intros s; [reflexivity|]. cbn [run_lines map run_parts]. unfold step. destruct (step_parts dec s (parts l)); try reflexivity. apply IH. Qed.

Lemma parts_printed ls : forallb line_in_guard ls = true -> map parts (map rfc_print ls) = denoted ls.
Proof.
  intros H. unfold denoted. rewrite map_map. apply map_ext_in. intros l Hl.
  rewrite forallb_forall in H. specialize (H l Hl). unfold line_in_guard in H. apply andb_true_iff in H.
  apply first_parse_rfc; apply H.
Qed.

Theorem run_lines_rfc dec ls s : forallb line_in_guard ls = true ->
  run_lines dec s (map rfc_print ls) = run_parts dec s (denoted ls).
Proof. intros H. rewrite run_lines_parts, (parts_printed ls H). reflexivity. Qed.

(* any physical layout of the printed lines (fold placement, CRLF or LF, SPACE or TAB, blank lines at the end) *)
Theorem parse_rfc_layout dec cache multiple nl ws segs k ls :
  is_nl nl = true -> is_ws ws = true -> forallb segs_ok segs = true -> map (@concat N) segs = map rfc_print ls ->
  forallb line_in_guard ls = true ->
  parse dec cache multiple (phys_text nl ws segs ++ blank_lines nl k) = parse_parts dec cache multiple (denoted ls).
Proof.
  intros H1 H2 H3 E H. unfold parse, parse_parts.
  rewrite (layout_invariant nl ws H1 H2 segs k H3), E, (run_lines_rfc dec ls _ H). reflexivity.
Qed.

(* no printed line contains a control character, so each is one physical line *)
Lemma forallb_impl {A} (p q : A -> bool) s : (forall c, p c = true -> q c = true) -> forallb p s = true -> forallb q s = true.
Proof. intros Hpq. rewrite !forallb_forall. intros H x Hx. apply Hpq, H, Hx. Qed.

Lemma name_char_value c : name_char c = true -> value_char c = true.
Proof. unfold name_char, rfc_alpha, rfc_digit, value_char, rfc_control. intros H. b2p. lia. Qed.
Lemma qsafe_char_value c : qsafe_char c = true -> value_char c = true.
Proof. unfold qsafe_char, value_char. intros H. apply andb_true_iff in H. apply H. Qed.
Lemma safe_char_value c : safe_char c = true -> value_char c = true.
Proof. unfold safe_char. intros H. apply qsafe_char_value. rewrite !andb_true_iff in H. apply H. Qed.

Lemma name_value_chars k : rfc_name_ok k = true -> forallb value_char k = true.
Proof. unfold rfc_name_ok. destruct k; [discriminate|]. apply forallb_impl. exact name_char_value. Qed.

Lemma pvalue_value_chars v : pvalue_ok v = true -> forallb value_char (print_pvalue v) = true.
Proof.
  destruct v as [s|s]; cbn [pvalue_ok print_pvalue]; intros H.
  - exact (forallb_impl _ _ _ safe_char_value H).
  - cbn [forallb]. rewrite forallb_app, (forallb_impl _ _ _ qsafe_char_value H). reflexivity.
Qed.

Lemma pvalues_value_chars vs : forallb pvalue_ok vs = true -> forallb value_char (print_pvalues vs) = true.
Proof.
  induction vs as [|v vs IH]; intros H; [reflexivity|]. cbn [forallb] in H. apply andb_true_iff in H. destruct H as [Hv Hvs].
  destruct vs as [|w vs]; [exact (pvalue_value_chars v Hv)|].
  change (print_pvalues (v :: w :: vs)) with (print_pvalue v ++ 44 :: print_pvalues (w :: vs)).
  rewrite forallb_app, (pvalue_value_chars v Hv). cbn [forallb andb]. rewrite (IH Hvs). reflexivity.
Qed.

Lemma print_value_chars l : rfc_line_ok l = true -> forallb value_char (rfc_print l) = true.
Proof.
  unfold rfc_line_ok, rfc_print. intros H. rewrite !andb_true_iff in H. destruct H as [[Hn Hps] Hv].
  rewrite !forallb_app, (name_value_chars _ Hn). cbn [forallb andb]. rewrite Hv, andb_true_r.
  induction (rl_params l) as [|p ps IH]; [reflexivity|]. cbn [forallb] in Hps. apply andb_true_iff in Hps. destruct Hps as [Hp Hps].
  cbn [flat_map]. rewrite forallb_app, (IH Hps), andb_true_r. cbn [forallb]. change (value_char 59) with true. cbn [andb].
  destruct (param_ok_inv p Hp) as (Hk & _ & Hvs). unfold print_param.
  rewrite forallb_app, (name_value_chars _ Hk). cbn [forallb]. change (value_char 61) with true. cbn [andb].
  apply pvalues_value_chars. exact Hvs.
Qed.

Lemma print_good_line l : rfc_line_ok l = true -> good_line (rfc_print l) = true.
Proof.
  intros H. pose proof (print_value_chars l H) as Hc. unfold good_line. apply andb_true_iff. split.
  - unfold no_lf. change (negb (mem_chr 10 (rfc_print l))) with (no_chr 10 (rfc_print l)).
    apply (forallb_no_chr value_char); [|exact Hc]. intros c Hv E. subst c. discriminate.
  - unfold rfc_line_ok in H. rewrite !andb_true_iff in H. destruct H as [[Hn _] _]. unfold rfc_print.
    destruct (rl_name l) as [|c k]; [discriminate|]. cbn [app].
    cbn [rfc_name_ok forallb] in Hn. apply andb_true_iff in Hn. destruct Hn as [Hn _].
    unfold good_first, name_char, rfc_alpha, rfc_digit in *. apply negb_true_iff. b2p. lia.
Qed.

(* the text Contentlines.to_ical makes of the printed lines (folded at 75 octets, CRLF) *)
Theorem parse_rfc_text dec cache multiple ls : forallb line_in_guard ls = true ->
  parse dec cache multiple (contentlines_to_ical (map rfc_print ls)) = parse_parts dec cache multiple (denoted ls).
Proof.
  intros H. unfold parse, parse_parts. rewrite lines_roundtrip.
  - rewrite (run_lines_rfc dec ls _ H). reflexivity.
  - rewrite forallb_forall. intros x Hx. apply in_map_iff in Hx. destruct Hx as (l & <- & Hl).
    rewrite forallb_forall in H. specialize (H l Hl). unfold line_in_guard in H. apply andb_true_iff in H.
    apply print_good_line. apply H.
Qed.
