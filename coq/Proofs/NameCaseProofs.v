(* C20-F8 in the model: a component whose name is not upper-case is written as spelled, the
   parser upper-cases the name, so the serialise-and-parse copy is equal to the original (==
   ignores names, C20-F3) but serialises to other BEGIN/END lines.  Proofs only. *)
Require Import Lib.Base Gen.Gen_parser Gen.Gen_cal Model.Params Model.Contentline Model.Tree Model.TreeOps Proofs.WalkEqProofs.

Definition ex_mixed : comp := Comp (s2l "X-Wrap") [] [Comp (s2l "x-bar") [] [] []] [].
Definition ex_mixed_text := Eval vm_compute in ser true ex_mixed.
Definition ex_mixed_back := Eval vm_compute in
  match ex_mixed_text with Ok text => parse dec_basic [] false text | _ => ValueErr end.

Lemma name_case_refuted :
  exists t text t' text',
    ser true t = Ok text /\ parse dec_basic [] false text = Ok [t'] /\
    comp_eq veq_text t t' = true /\ comp_eq veq_text t' t = true /\
    ser true t' = Ok text' /\ text' <> text.
Proof.
  exists ex_mixed.
  destruct ex_mixed_text as [text| | |] eqn:E1; try (vm_compute in E1; discriminate E1).
  exists text.
  destruct ex_mixed_back as [[|t' [|]]| | |] eqn:E2; try (vm_compute in E2; discriminate E2).
  exists t'.
  destruct (ser true t') as [text'| | |] eqn:E3.
  - exists text'. vm_compute in E1, E2. injection E1 as <-. injection E2 as <-.
    vm_compute in E3. injection E3 as <-.
    repeat split; try (vm_compute; reflexivity). intros H. discriminate H.
  - exfalso. vm_compute in E2. injection E2 as <-. vm_compute in E3. discriminate E3.
  - exfalso. vm_compute in E2. injection E2 as <-. vm_compute in E3. discriminate E3.
  - exfalso. vm_compute in E2. injection E2 as <-. vm_compute in E3. discriminate E3.
Qed.
