(* Proofs about Model/Alarm.v: C14 (alarm times = anchor + TRIGGER + k * DURATION). *)
Require Import Lib.Base Model.Params Gen.Gen_sched Model.StartEnd Model.Alarm Proofs.StartEndProofs.
From Coq Require Import ZArith List Bool Lia ZifyBool.
Local Open Scope Z_scope.

Lemma seqb_eq : forall a b, str_eqb a b = true -> a = b.
Proof.
  induction a as [|x a IH]; destruct b as [|y b]; simpl; intros H; try discriminate; auto.
  apply andb_true_iff in H as [H1 H2]. apply N.eqb_eq in H1. subst. f_equal. auto.
Qed.

(* ------------------------------------------------------------------ no escapes from start/end *)
Lemma start_end_documented : forall k c, dur_typed c = true ->
  doc_err (get_start k c) = true /\ doc_err (get_end k c) = true.
Proof.
  intros k c Ht. destruct (forbidden c) eqn:Hf.
  - destruct (forbidden_invalid {| off_wall := fun _ _ => 0; off_utc := fun _ _ => 0 |} k c Ht Hf) as (A & B & _).
    rewrite A, B. auto.
  - destruct (allowed_getters {| off_wall := fun _ _ => 0; off_utc := fun _ _ => 0 |} k c Ht Hf) as (A & B & _).
    rewrite A, B. unfold spec_start, spec_end.
    destruct (st_time (c_start c)), (st_time (c_end c)), (st_delta (c_dur c)); auto.
Qed.

(* ------------------------------------------------------------------ classification *)
Definition rel_pair (a : alarm) : list (alarm * Z) :=
  match a_trigger a with One (VDelta td) => [(a, td)] | _ => [] end.
Definition abs_pair (a : alarm) : list (alarm * time) :=
  match a_trigger a with One (VTime t) => [(a, t)] | _ => [] end.

Definition expected_lists (als : list alarm) : alarm_lists :=
  {| l_end := flat_map rel_pair (filter (is_class SEnd) als);
     l_start := flat_map rel_pair (filter (is_class SStart) als);
     l_abs := flat_map abs_pair (filter (is_class SAbs) als) |}.

Lemma related_start : forall a, related_ok a = true ->
  str_eqb (trigger_related a) related_start_literal = negb (spec_related_end a).
Proof.
  intros a H. unfold related_ok, trigger_related, spec_related_end in *.
  destruct (a_related a) as [r|]; [|reflexivity].
  destruct (str_eqb r related_start_literal) eqn:E1.
  - apply seqb_eq in E1. subst r. reflexivity.
  - destruct (str_eqb (upper r) (s2l "END")) eqn:E2; [reflexivity|].
    simpl in H. congruence.
Qed.

Lemma classify_char : forall a, related_ok a = true ->
  classify a =
  match a_trigger a with
  | Absent => SOk CNone
  | One (VDelta td) => if spec_related_end a then SOk (CEnd td) else SOk (CStart td)
  | One (VTime (Date _)) => SVal InvalidCal
  | One (VTime t) => SOk (CAbs t)
  | _ => SVal InvalidCal
  end.
Proof.
  intros a H. unfold classify. pose proof (related_start a H) as R.
  destruct (a_trigger a) as [|[[]| |]|]; simpl; try reflexivity.
  rewrite R. destruct (spec_related_end a); reflexivity.
Qed.

Lemma add_alarms_ok : forall als,
  forallb related_ok als = true -> existsb (is_class SInvalid) als = false ->
  add_alarms als = SOk (expected_lists als).
Proof.
  induction als as [|a r IH]; intros Hr Hi; [reflexivity|].
  simpl in Hr, Hi. apply andb_true_iff in Hr as [Ha Hr]. apply orb_false_iff in Hi as [Hia Hi].
  simpl. rewrite (classify_char a Ha), (IH Hr Hi). clear IH.
  unfold expected_lists, is_class, spec_class, rel_pair, abs_pair in *. simpl.
  destruct (a_trigger a) as [|[[]| |]|] eqn:Et; simpl in *; try discriminate Hia; try reflexivity;
    unfold is_class, spec_class, rel_pair, abs_pair; rewrite ?Et;
    destruct (spec_related_end a); simpl; rewrite ?Et; reflexivity.
Qed.

Lemma add_alarms_invalid : forall als,
  forallb related_ok als = true -> existsb (is_class SInvalid) als = true ->
  add_alarms als = SVal InvalidCal.
Proof.
  induction als as [|a r IH]; intros Hr Hi; [discriminate|].
  change (forallb related_ok (a :: r)) with (related_ok a && forallb related_ok r) in Hr.
  change (existsb (is_class SInvalid) (a :: r)) with (is_class SInvalid a || existsb (is_class SInvalid) r) in Hi.
  apply andb_true_iff in Hr as [Ha Hr].
  simpl. rewrite (classify_char a Ha).
  destruct (is_class SInvalid a) eqn:Ea.
  - unfold is_class, spec_class in Ea.
    destruct (a_trigger a) as [|[[]| |]|]; simpl in *; try reflexivity; try discriminate Ea;
      destruct (spec_related_end a); discriminate Ea.
  - simpl in Hi. rewrite (IH Hr Hi).
    destruct (a_trigger a) as [|[[]| |]|]; simpl; try reflexivity.
    destruct (spec_related_end a); reflexivity.
Qed.

(* ------------------------------------------------------------------ repeats *)
Lemma repeat_times_spec : forall o first a, repeat_ok a = true ->
  repeat_times o first a = first :: spec_repeats o first a.
Proof.
  intros o first a H. unfold repeat_times, spec_repeats, repeat_ok, get_REPEAT, truthy_dur in *.
  destruct (a_repeat a) as [n|]; destruct (a_duration a) as [d|]; simpl; try reflexivity.
  - destruct (n =? 0) eqn:En; simpl.
    + apply Z.eqb_eq in En. subst n. reflexivity.
    + destruct (d =? 0) eqn:Ed; simpl; [|reflexivity].
      rewrite andb_true_r in H. destruct (0 <? n) eqn:Ep; [discriminate H|].
      replace (Z.to_nat n) with O by lia. reflexivity.
  - destruct (n =? 0); reflexivity.
Qed.

Local Opaque repeat_times spec_repeats alarm_add.

(* ------------------------------------------------------------------ concat_sres *)
Lemma concat_sres_app : forall A (l1 l2 : list (sres (list A))),
  concat_sres (l1 ++ l2) =
  sbind (concat_sres l1) (fun a => sbind (concat_sres l2) (fun b => SOk (a ++ b))).
Proof.
  induction l1 as [|x l1 IH]; intros l2; simpl.
  - destruct (concat_sres l2); reflexivity.
  - destruct x as [a| |]; simpl; try reflexivity. rewrite IH.
    destruct (concat_sres l1) as [b| |]; simpl; try reflexivity.
    destruct (concat_sres l2) as [c| |]; simpl; try reflexivity.
    rewrite app_assoc. reflexivity.
Qed.

(* relative alarms of one class with an available anchor *)
Lemma rel_group_ok : forall o start end_ t0 (use_end : bool) l,
  (if use_end then end_ else start) = SOk t0 ->
  forallb (fun a => repeat_ok a && is_class (if use_end then SEnd else SStart) a) l = true ->
  concat_sres (map (spec_alarm o start end_) l) =
  SOk (map snd (flat_map (fun p : alarm * Z =>
                            map (fun t => (fst p, t)) (repeat_times o (alarm_add o t0 (snd p)) (fst p)))
                         (flat_map rel_pair l))).
Proof.
  intros o start end_ t0 use_end l Han. induction l as [|a r IH]; intros H; [reflexivity|].
  simpl in H. apply andb_true_iff in H as [Ha Hr]. apply andb_true_iff in Ha as [Hrep Hcl].
  simpl. rewrite (IH Hr). clear IH.
  unfold is_class, spec_class in Hcl. unfold spec_alarm, rel_pair.
  destruct (a_trigger a) as [|[[]| |]|]; simpl in *;
    try (destruct use_end; discriminate Hcl).
  assert (Hsel : (if spec_related_end a then end_ else start) = SOk t0).
  { destruct use_end, (spec_related_end a); try discriminate Hcl; exact Han. }
  rewrite Hsel. simpl. rewrite map_app, map_map. simpl. rewrite map_id.
  rewrite (repeat_times_spec o _ a Hrep). reflexivity.
Qed.

(* ... and with a missing anchor: the group is empty or the error is the anchor's *)
Lemma rel_group_err : forall o start end_ t (use_end : bool) l,
  (if use_end then end_ else start) = SVal t ->
  forallb (is_class (if use_end then SEnd else SStart)) l = true ->
  concat_sres (map (spec_alarm o start end_) l) = match l with [] => SOk [] | _ => SVal t end.
Proof.
  intros o start end_ t use_end l Han H. destruct l as [|a r]; [reflexivity|].
  simpl in H. apply andb_true_iff in H as [Hcl _]. simpl.
  unfold is_class, spec_class in Hcl. unfold spec_alarm.
  destruct (a_trigger a) as [|[[]| |]|]; simpl in *; try (destruct use_end; discriminate Hcl).
  assert (Hsel : (if spec_related_end a then end_ else start) = SVal t).
  { destruct use_end, (spec_related_end a); try discriminate Hcl; exact Han. }
  rewrite Hsel. reflexivity.
Qed.

Lemma abs_group_ok : forall o start end_ l,
  forallb (fun a => repeat_ok a && is_class SAbs a) l = true ->
  concat_sres (map (spec_alarm o start end_) l) = SOk (map snd (abs_times o (flat_map abs_pair l))).
Proof.
  intros o start end_ l. unfold abs_times. induction l as [|a r IH]; intros H; [reflexivity|].
  simpl in H. apply andb_true_iff in H as [Ha Hr]. apply andb_true_iff in Ha as [Hrep Hcl].
  simpl. rewrite (IH Hr). clear IH.
  unfold is_class, spec_class in Hcl. unfold spec_alarm, abs_pair.
  destruct (a_trigger a) as [|[[]| |]|]; simpl in *; try discriminate Hcl;
    try (destruct (spec_related_end a); discriminate Hcl);
    rewrite map_app, map_map; simpl; rewrite map_id;
    rewrite (repeat_times_spec o _ a Hrep); reflexivity.
Qed.

Lemma filter_class : forall c (als : list alarm) (P : alarm -> bool),
  forallb P als = true ->
  forallb (fun a => P a && is_class c a) (filter (is_class c) als) = true.
Proof.
  intros c als P. induction als as [|a r IH]; intros H; [reflexivity|].
  simpl in H. apply andb_true_iff in H as [Ha Hr]. simpl.
  destruct (is_class c a) eqn:E; simpl; auto. rewrite Ha, E. simpl. auto.
Qed.

Lemma filter_class' : forall c (als : list alarm), forallb (is_class c) (filter (is_class c) als) = true.
Proof.
  intros c als. induction als as [|a r IH]; [reflexivity|]. simpl.
  destruct (is_class c a) eqn:E; simpl; auto. rewrite E. auto.
Qed.

Lemma alarms_ok_split : forall als, alarms_ok als = true ->
  forallb related_ok als = true /\ forallb repeat_ok als = true.
Proof.
  induction als as [|a r IH]; intros H; [split; reflexivity|].
  unfold alarms_ok in H. simpl in H. apply andb_true_iff in H as [Ha Hr].
  apply andb_true_iff in Ha as [H1 H2]. destruct (IH Hr) as [I1 I2]. simpl. rewrite H1, H2, I1, I2. auto.
Qed.

(* ------------------------------------------------------------------ alarm_times_spec *)
Lemma spec_times_ok : forall o s0 e0 als, alarms_ok als = true ->
  existsb (is_class SInvalid) als = false ->
  spec_times o (SOk s0) (SOk e0) als =
  sbind (raw_times o (Some s0) (Some e0) (expected_lists als)) (fun l => SOk (map snd l)).
Proof.
  intros o s0 e0 als Hok Hi. destruct (alarms_ok_split als Hok) as [_ Hrep].
  unfold spec_times. rewrite Hi. rewrite !map_app, !concat_sres_app.
  rewrite (rel_group_ok o (SOk s0) (SOk e0) e0 true _ eq_refl (filter_class SEnd als _ Hrep)).
  rewrite (rel_group_ok o (SOk s0) (SOk e0) s0 false _ eq_refl (filter_class SStart als _ Hrep)).
  rewrite (abs_group_ok o (SOk s0) (SOk e0) _ (filter_class SAbs als _ Hrep)).
  unfold raw_times, rel_times, expected_lists. simpl.
  destruct (flat_map rel_pair (filter (is_class SEnd) als)) eqn:E1;
    destruct (flat_map rel_pair (filter (is_class SStart) als)) eqn:E2; simpl;
    rewrite ?map_app; reflexivity.
Qed.

Lemma alarm_times_spec : forall o p als,
  dur_typed (p_comp p) = true -> alarms_ok als = true -> eager_ok o p als = true ->
  match spec_times o (get_start (p_kind p) (p_comp p)) (get_end (p_kind p) (p_comp p)) als with
  | SOk ts => component_triggers o p als = SOk ts
  | _ => exists t, component_triggers o p als = SVal t /\ documented t = true
  end.
Proof.
  intros o p als Ht Hok He.
  destruct (start_end_documented (p_kind p) (p_comp p) Ht) as [Ds De].
  destruct (alarms_ok_split als Hok) as [Hrel Hrep].
  unfold eager_ok in He. unfold component_triggers, component_raw_times.
  destruct (get_start (p_kind p) (p_comp p)) as [s0|ts|ks] eqn:Es;
    destruct (get_end (p_kind p) (p_comp p)) as [e0|te|ke] eqn:Ee;
    simpl in Ds, De; try discriminate Ds; try discriminate De.
  - (* start and end available *)
    destruct (existsb (is_class SInvalid) als) eqn:Hi.
    + unfold spec_times. rewrite Hi. simpl. rewrite (add_alarms_invalid als Hrel Hi). simpl.
      exists InvalidCal. split; reflexivity.
    + rewrite (spec_times_ok o s0 e0 als Hok Hi). simpl. rewrite (add_alarms_ok als Hrel Hi). simpl.
      destruct (raw_times o (Some s0) (Some e0) (expected_lists als)) eqn:Er; simpl.
      * reflexivity.
      * unfold raw_times, rel_times in Er.
        destruct (l_end (expected_lists als)), (l_start (expected_lists als)); discriminate Er.
      * unfold raw_times, rel_times in Er.
        destruct (l_end (expected_lists als)), (l_start (expected_lists als)); discriminate Er.
  - (* end raises a documented error: by the guard the specification is not a list of times *)
    rewrite orb_false_r in He.
    destruct (spec_times o (SOk s0) (SVal te) als) as [ts'|t'|k'] eqn:Sp; simpl in He; try discriminate He.
    + simpl. exists te. split; [reflexivity|]. destruct te; simpl in *; try discriminate De; reflexivity.
    + simpl. exists te. split; [reflexivity|]. destruct te; simpl in *; try discriminate De; reflexivity.
  - (* start raises *)
    rewrite orb_false_r in He.
    destruct (spec_times o (SVal ts) (SOk e0) als) as [ts'|t'|k'] eqn:Sp; simpl in He; try discriminate He;
      simpl; exists ts; (split; [reflexivity|]); destruct ts; simpl in *; try discriminate Ds; reflexivity.
  - rewrite orb_false_r in He.
    destruct (spec_times o (SVal ts) (SVal te) als) as [ts'|t'|k'] eqn:Sp; simpl in He; try discriminate He;
      simpl; exists ts; (split; [reflexivity|]); destruct ts; simpl in *; try discriminate Ds; reflexivity.
Qed.

(* membership form: every reported time belongs to one alarm's specification and vice versa *)
Lemma concat_sres_in : forall A (l : list (sres (list A))) (ts : list A) x,
  concat_sres l = SOk ts -> (In x ts <-> exists xs, In (SOk xs) l /\ In x xs).
Proof.
  induction l as [|r l IH]; intros ts x H; simpl in H.
  - injection H as <-. split; [intros []|intros (xs & [] & _)].
  - destruct r as [a| |]; simpl in H; try discriminate H.
    destruct (concat_sres l) as [b| |] eqn:E; simpl in H; try discriminate H.
    injection H as <-. rewrite in_app_iff, (IH b x eq_refl). split.
    + intros [Hx|(xs & H1 & H2)]; [exists a; split; simpl; auto|exists xs; split; simpl; auto].
    + intros (xs & [H1|H1] & H2); [injection H1 as ->; auto|right; exists xs; auto].
Qed.

Lemma spec_times_members : forall o s e als ts x,
  spec_times o s e als = SOk ts ->
  (In x ts <-> exists a xs, In a als /\ spec_alarm o s e a = SOk xs /\ In x xs).
Proof.
  intros o s e als ts x H. unfold spec_times in H.
  destruct (existsb (is_class SInvalid) als) eqn:Hi; [discriminate H|].
  rewrite (concat_sres_in _ _ ts x H). split.
  - intros (xs & Hin & Hx). apply in_map_iff in Hin as (a & Ha & Hin).
    exists a, xs. repeat split; auto.
    rewrite !in_app_iff, !filter_In in Hin. tauto.
  - intros (a & xs & Ha & Hs & Hx). exists xs. split; auto. rewrite <- Hs. apply in_map.
    rewrite !in_app_iff, !filter_In.
    assert (Hn : is_class SInvalid a = false).
    { destruct (is_class SInvalid a) eqn:E; auto.
      assert (existsb (is_class SInvalid) als = true) by (apply existsb_exists; eauto). congruence. }
    unfold is_class in *. destruct (spec_class a) eqn:Ec; try discriminate Hn; auto.
    (* SNone: the alarm contributes nothing *)
    unfold spec_class, spec_alarm in *. destruct (a_trigger a) as [|[[]| |]|]; try discriminate Ec.
    + injection Hs as <-. destruct Hx.
    + destruct (spec_related_end a); discriminate Ec.
Qed.

(* ------------------------------------------------------------------ refutations *)
Definition ev_naive : comp :=
  {| c_start := One (VTime (Naive 36000)); c_end := One (VTime (Naive 43200)); c_dur := Absent |}.
Definition par (c : comp) : parent :=
  {| p_kind := KEvent; p_comp := c; p_dtstamp := None; p_moz := false; p_lastack := None; p_snooze := None |}.

Lemma related_lower_refuted : exists o p als,
  dur_typed (p_comp p) = true /\ eager_ok o p als = true /\ forallb repeat_ok als = true /\
  component_triggers o p als = SOk [Naive 39600] /\
  spec_times o (get_start (p_kind p) (p_comp p)) (get_end (p_kind p) (p_comp p)) als = SOk [Naive 32400].
Proof.
  exists const_oracle, (par ev_naive),
    [{| a_trigger := One (VDelta (-3600)); a_related := Some (s2l "start"); a_repeat := None; a_duration := None; a_ack := None |}].
  vm_compute. repeat split; reflexivity.
Qed.

Lemma zero_duration_refuted : exists o p als,
  dur_typed (p_comp p) = true /\ eager_ok o p als = true /\ forallb related_ok als = true /\
  component_triggers o p als = SOk [Naive 32400] /\
  spec_times o (get_start (p_kind p) (p_comp p)) (get_end (p_kind p) (p_comp p)) als
    = SOk [Naive 32400; Naive 32400; Naive 32400].
Proof.
  exists const_oracle, (par ev_naive),
    [{| a_trigger := One (VDelta (-3600)); a_related := None; a_repeat := Some 2; a_duration := Some 0; a_ack := None |}].
  vm_compute. repeat split; reflexivity.
Qed.

Lemma eager_start_refuted : exists o p als,
  dur_typed (p_comp p) = true /\ alarms_ok als = true /\
  component_triggers o p als = SVal IncompleteComp /\
  spec_times o (get_start (p_kind p) (p_comp p)) (get_end (p_kind p) (p_comp p)) als = SOk [Utc 36000].
Proof.
  exists const_oracle, (par empty_comp),
    [{| a_trigger := One (VTime (Utc 36000)); a_related := None; a_repeat := None; a_duration := None; a_ack := None |}].
  vm_compute. repeat split; reflexivity.
Qed.

(* Alarm.triggers: trigger + k * DURATION, k = 0..REPEAT, when DURATION is present *)
Lemma alarm_triggers_spec : forall a td, a_trigger a = One (VDelta td) ->
  exists l, (alarm_triggers a = SOk (TrigStart l) \/ alarm_triggers a = SOk (TrigEnd l)) /\
  l = map (fun i => td + match a_duration a with Some d => d | None => 0 end * Z.of_nat i)
          (seq 0 (S (match a_duration a with Some _ => Z.to_nat (get_REPEAT a) | None => O end))).
Proof.
  intros a td H. unfold alarm_triggers. rewrite H. simpl.
  destruct (str_eqb (trigger_related a) triggers_related_start_literal); eexists; split; eauto.
Qed.
