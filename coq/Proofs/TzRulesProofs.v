(* Proofs for Model/TzRules.v (C12). *)
Require Import Lib.Base Model.Params Model.TzRules.
From Coq Require Import ZArith List Bool Lia ZifyBool Arith Sorting.Sorted Sorting.Permutation.
Import ListNotations.
Open Scope Z_scope.

(* ------------------------------------------------------------------ small list facts *)
Lemma str_eqb_refl : forall s, str_eqb s s = true.
Proof. induction s as [|c s IH]; simpl; auto. rewrite N.eqb_refl; simpl; auto. Qed.

Lemma str_eqb_eq : forall a b, str_eqb a b = true -> a = b.
Proof.
  induction a as [|x a IH]; destruct b as [|y b]; simpl; intros H; try discriminate; auto.
  apply andb_true_iff in H. destruct H as [H1 H2]. apply N.eqb_eq in H1. subst. f_equal. auto.
Qed.

Lemma distinctb_NoDup : forall l, distinctb l = true -> NoDup l.
Proof.
  induction l as [|x r IH]; simpl; intros H; [constructor|].
  apply andb_true_iff in H. destruct H as [H1 H2]. constructor; auto.
  intros Hin. apply negb_true_iff in H1.
  assert (existsb (Z.eqb x) r = true) as E.
  { apply existsb_exists. exists x. split; auto. apply Z.eqb_refl. }
  congruence.
Qed.

Lemma NoDup_map_inj : forall (A B : Type) (f : A -> B) (l : list A) x y,
  NoDup (map f l) -> In x l -> In y l -> f x = f y -> x = y.
Proof.
  induction l as [|a l IH]; simpl; intros x y Hnd Hx Hy Hf; [contradiction|].
  inversion Hnd as [|? ? Hnin Hnd']; subst.
  destruct Hx as [Hx|Hx]; destruct Hy as [Hy|Hy]; subst; auto.
  - exfalso. apply Hnin. rewrite Hf. apply in_map. auto.
  - exfalso. apply Hnin. rewrite <- Hf. apply in_map. auto.
Qed.

Lemma fold_min_in : forall r x, In (fold_left Z.min r x) (x :: r).
Proof.
  induction r as [|y r IH]; intros x; simpl; auto.
  specialize (IH (Z.min x y)). simpl in IH.
  destruct IH as [H|H]; auto.
  destruct (Z.min_spec x y) as [[_ E]|[_ E]]; rewrite E in *; auto.
Qed.

(* ------------------------------------------------------------------ rounding *)
Lemma round_min_id : forall z, z mod 60 = 0 -> round_min z = z.
Proof.
  intros z H. unfold round_min.
  Ltac Zify.zify_post_hook ::= Z.to_euclidean_division_equations.
  lia.
Qed.
Ltac Zify.zify_post_hook ::= idtac.

(* ------------------------------------------------------------------ the specification *)
Lemma latest_spec : forall t l best,
  (forall b, best = Some b -> n_utc b <= t) ->
  match latest t best l with
  | None => best = None /\ forall e, In e l -> t < n_utc e
  | Some r => (In r l \/ best = Some r) /\ n_utc r <= t
              /\ (forall e, In e l -> n_utc e <= t -> n_utc e <= n_utc r)
              /\ (forall b, best = Some b -> n_utc b <= n_utc r)
  end.
Proof.
  intros t. induction l as [|e l IH]; intros best Hb; simpl.
  - destruct best as [b|]; [|split; auto; intros ? []].
    split; [right; auto|]. split; [auto|]. split; [intros ? []|].
    intros b' E. inversion E; subst. lia.
  - set (best' := if n_utc e <=? t then match best with None => Some e
                  | Some b => if n_utc b <? n_utc e then Some e else best end else best).
    assert (forall b, best' = Some b -> n_utc b <= t) as Hb'.
    { intros b E. unfold best' in E. destruct (n_utc e <=? t) eqn:Et; [|auto].
      destruct best as [b0|]; [destruct (n_utc b0 <? n_utc e) eqn:El|]; inversion E; subst; auto; lia. }
    specialize (IH best' Hb').
    destruct (latest t best' l) as [r|].
    + destruct IH as (Hin & Hle & Hmax & Hbest).
      assert (forall b, best = Some b -> n_utc b <= n_utc r) as Hold.
      { intros b E. subst best. unfold best' in Hbest.
        destruct (n_utc e <=? t) eqn:Et; [|apply Hbest; auto].
        destruct (n_utc b <? n_utc e) eqn:El; [|apply Hbest; auto].
        specialize (Hbest e eq_refl). lia. }
      assert (n_utc e <= t -> n_utc e <= n_utc r) as He.
      { intros Et. unfold best' in Hbest. assert (n_utc e <=? t = true) as Et' by lia. rewrite Et' in Hbest.
        destruct best as [b0|]; [destruct (n_utc b0 <? n_utc e) eqn:El|]; try (apply Hbest; reflexivity).
        specialize (Hbest b0 eq_refl). lia. }
      split; [|split; [auto|split; [|auto]]].
      * destruct Hin as [Hin|Hin]; [left; right; auto|].
        unfold best' in Hin. destruct (n_utc e <=? t); [|right; auto].
        destruct best as [b0|]; [destruct (n_utc b0 <? n_utc e)|]; try (right; assumption);
          inversion Hin; subst; left; left; auto.
      * intros e' [E|Hin'] Ht; [subst; auto|apply Hmax; auto].
    + destruct IH as (E & Hall). unfold best' in E.
      destruct (n_utc e <=? t) eqn:Et.
      * destruct best as [b0|]; [destruct (n_utc b0 <? n_utc e)|]; discriminate.
      * split; auto. intros e' [E'|Hin']; [subst; lia|auto].
Qed.

Lemma rfc_onset_spec : forall v t e, rfc_onset v t = Some e ->
  In e (spec_onsets v) /\ n_utc e <= t /\
  forall e', In e' (spec_onsets v) -> n_utc e' <= t -> n_utc e' <= n_utc e.
Proof.
  intros v t e H. unfold rfc_onset in H.
  pose proof (latest_spec t (spec_onsets v) None) as L. rewrite H in L.
  destruct L as (Hin & Hle & Hmax & _); [intros ? E; discriminate|].
  destruct Hin as [Hin|E]; [|discriminate]. auto.
Qed.

Lemma rfc_onset_exists : forall v t e0, In e0 (spec_onsets v) -> n_utc e0 <= t ->
  exists e, rfc_onset v t = Some e.
Proof.
  intros v t e0 Hin Hle. unfold rfc_onset.
  pose proof (latest_spec t (spec_onsets v) None) as L.
  destruct (latest t None (spec_onsets v)) as [r|]; [eauto|].
  destruct L as (_ & Hall); [intros ? E; discriminate|]. specialize (Hall e0 Hin). lia.
Qed.

Lemma first_onset_in : forall v t0, first_onset v = Some t0 ->
  exists e, In e (spec_onsets v) /\ n_utc e = t0.
Proof.
  intros v t0 H. unfold first_onset in H.
  destruct (map n_utc (spec_onsets v)) as [|x r] eqn:E; [discriminate|].
  inversion H; subst. pose proof (fold_min_in r x) as Hin. rewrite <- E in Hin.
  apply in_map_iff in Hin. destruct Hin as (e & He & Hin). eauto.
Qed.

(* ------------------------------------------------------------------ sorting *)
Definition local_le (a b : tr) : Prop := t_local a <= t_local b.

Lemma tr_leb_true : forall a b, tr_leb a b = true -> local_le a b.
Proof.
  intros a b. unfold tr_leb, local_le.
  destruct (t_local a <? t_local b) eqn:E1; [lia|].
  destruct (t_local b <? t_local a) eqn:E2; [discriminate|lia].
Qed.
Lemma tr_leb_false : forall a b, tr_leb a b = false -> local_le b a.
Proof.
  intros a b. unfold tr_leb, local_le.
  destruct (t_local a <? t_local b) eqn:E1; [discriminate|]. lia.
Qed.

Lemma tr_insert_perm : forall x l, Permutation (tr_insert x l) (x :: l).
Proof.
  induction l as [|y r IH]; simpl; auto.
  destruct (tr_leb x y); auto.
  eapply perm_trans; [apply perm_skip; apply IH|apply perm_swap].
Qed.

Lemma tr_sort_perm : forall l, Permutation (tr_sort l) l.
Proof.
  induction l as [|x l IH]; simpl; auto.
  eapply perm_trans; [apply tr_insert_perm|auto].
Qed.

Lemma tr_insert_sorted : forall x l, StronglySorted local_le l -> StronglySorted local_le (tr_insert x l).
Proof.
  induction l as [|y r IH]; simpl; intros Hs.
  - constructor; constructor.
  - inversion Hs as [|? ? Hs' Hall]; subst.
    destruct (tr_leb x y) eqn:E.
    + constructor; auto. constructor.
      * apply tr_leb_true; auto.
      * apply tr_leb_true in E. rewrite Forall_forall in *. intros z Hz. specialize (Hall z Hz).
        unfold local_le in *. lia.
    + constructor; auto.
      rewrite Forall_forall in *. intros z Hz.
      apply (Permutation_in _ (tr_insert_perm x r)) in Hz. destruct Hz as [Hz|Hz]; [subst|auto].
      apply tr_leb_false; auto.
Qed.

Lemma tr_sort_sorted : forall l, StronglySorted local_le (tr_sort l).
Proof. induction l as [|x l IH]; simpl; [constructor|apply tr_insert_sorted; auto]. Qed.

(* strictly increasing UTC times from: sorted by local time, distinct UTC times, and the
   pairwise agreement of the two orders *)
Lemma utc_sorted : forall ts,
  StronglySorted local_le ts -> NoDup (map t_utc ts) ->
  (forall a b, In a ts -> In b ts -> Bool.eqb (t_local a <? t_local b) (t_utc a <? t_utc b) = true) ->
  StronglySorted Z.lt (map t_utc ts).
Proof.
  induction ts as [|a ts IH]; simpl; intros Hs Hnd Hp; [constructor|].
  inversion Hs as [|? ? Hs' Hall]; subst. inversion Hnd as [|? ? Hnin Hnd']; subst.
  constructor.
  - apply IH; auto; intros; apply Hp; simpl; auto.
  - rewrite Forall_forall in *. intros u Hu. apply in_map_iff in Hu. destruct Hu as (b & Eb & Hb). subst u.
    specialize (Hall b Hb). unfold local_le in Hall.
    assert (t_utc a <> t_utc b) as Hne. { intros E. apply Hnin. rewrite E. apply in_map; auto. }
    pose proof (Hp a b (or_introl eq_refl) (or_intror Hb)) as P1.
    pose proof (Hp b a (or_intror Hb) (or_introl eq_refl)) as P2.
    apply eqb_prop in P1. apply eqb_prop in P2. lia.
Qed.

(* ------------------------------------------------------------------ bisect_right on a sorted list *)
Lemma sorted_nth_lt : forall a, StronglySorted Z.lt a ->
  forall i j, (i < j)%nat -> (j < length a)%nat -> nth i a 0 < nth j a 0.
Proof.
  induction a as [|x a IH]; simpl; intros Hs i j Hij Hj; [lia|].
  inversion Hs as [|? ? Hs' Hall]; subst.
  destruct j as [|j]; [lia|]. destruct i as [|i].
  - rewrite Forall_forall in Hall. apply Hall. apply nth_In. lia.
  - apply IH; auto; lia.
Qed.

Lemma bisect_aux_S : forall f a t lo hi,
  bisect_aux (S f) a t lo hi =
  if (lo <? hi)%nat then
    if t <? nth ((lo + hi) / 2)%nat a 0 then bisect_aux f a t lo ((lo + hi) / 2)%nat
    else bisect_aux f a t (S ((lo + hi) / 2)%nat) hi
  else lo.
Proof. reflexivity. Qed.

Lemma bisect_aux_spec : forall a t, StronglySorted Z.lt a ->
  forall fuel lo hi, (hi - lo < fuel)%nat -> (lo <= hi)%nat -> (hi <= length a)%nat ->
  (forall i, (i < lo)%nat -> nth i a 0 <= t) ->
  (forall i, (hi <= i)%nat -> (i < length a)%nat -> t < nth i a 0) ->
  let b := bisect_aux fuel a t lo hi in
  (lo <= b)%nat /\ (b <= hi)%nat /\
  (forall i, (i < b)%nat -> nth i a 0 <= t) /\
  (forall i, (b <= i)%nat -> (i < length a)%nat -> t < nth i a 0).
Proof.
  intros a t Hs. induction fuel as [|f IH]; intros lo hi Hf Hlh Hhi Hlo Hup; [lia|].
  cbv zeta. rewrite bisect_aux_S. destruct (lo <? hi)%nat eqn:E.
  - apply Nat.ltb_lt in E.
    assert (lo <= (lo + hi) / 2 /\ (lo + hi) / 2 < hi)%nat as [M1 M2].
    { split; [apply Nat.div_le_lower_bound; lia|apply Nat.div_lt_upper_bound; lia]. }
    set (mid := ((lo + hi) / 2)%nat) in *. clearbody mid.
    destruct (t <? nth mid a 0) eqn:Et; [apply Z.ltb_lt in Et|apply Z.ltb_ge in Et].
    + specialize (IH lo mid). cbv zeta in IH.
      destruct IH as (B1 & B2 & B3 & B4); try lia; auto.
      * intros i Hi Hl. destruct (Nat.eq_dec i mid) as [->|Hne]; [lia|].
        assert (mid < i)%nat as Hmi by lia. pose proof (sorted_nth_lt a Hs mid i Hmi Hl). lia.
      * split; [lia|split; [lia|split; auto]].
    + specialize (IH (S mid) hi). cbv zeta in IH.
      destruct IH as (B1 & B2 & B3 & B4); try lia; auto.
      * intros i Hi. destruct (Nat.eq_dec i mid) as [->|Hne]; [lia|].
        assert (i < mid)%nat as Hmi by lia. assert (mid < length a)%nat as Hml by lia.
        pose proof (sorted_nth_lt a Hs i mid Hmi Hml). lia.
      * split; [lia|split; [lia|split; auto]].
  - apply Nat.ltb_ge in E. assert (lo = hi) by lia. subst. split; [lia|split; [lia|split; auto]].
Qed.

Lemma bisect_right_spec : forall a t, StronglySorted Z.lt a ->
  let b := bisect_right a t in
  (b <= length a)%nat /\
  (forall i, (i < b)%nat -> nth i a 0 <= t) /\
  (forall i, (b <= i)%nat -> (i < length a)%nat -> t < nth i a 0).
Proof.
  intros a t Hs. unfold bisect_right.
  pose proof (bisect_aux_spec a t Hs (S (length a)) 0%nat (length a)) as H. cbv zeta in H.
  destruct H as (_ & B2 & B3 & B4); try lia; auto; intros; lia.
Qed.

(* ------------------------------------------------------------------ names *)
Lemma assign_names_fst : forall v used named, assign_names v used = Some named -> map fst named = v.
Proof.
  induction v as [|o v IH]; intros used named H; cbn [assign_names] in H.
  - inversion H; auto.
  - destruct (o_name o) as [n|].
    + destruct (assign_names v used) as [r|] eqn:E; simpl in H; [|discriminate]. inversion H; subst. simpl.
      f_equal. eapply IH; eauto.
    + destruct (uniq_name (S (length used)) (o_synth o) used) as [n|]; [|discriminate].
      destruct (assign_names v (n :: used)) as [r|] eqn:E; simpl in H; [|discriminate]. inversion H; subst. simpl.
      f_equal. eapply IH; eauto.
Qed.

Lemma assign_names_given : forall v used named, assign_names v used = Some named ->
  forall o n m, In (o, n) named -> o_name o = Some m -> n = m.
Proof.
  induction v as [|o v IH]; intros used named H o' n m Hin Hm; cbn [assign_names] in H.
  - inversion H; subst. destruct Hin.
  - destruct (o_name o) as [n0|] eqn:En.
    + destruct (assign_names v used) as [r|] eqn:E; simpl in H; [|discriminate]. inversion H; subst.
      destruct Hin as [Hin|Hin]; [inversion Hin; subst; congruence|eapply IH; eauto].
    + destruct (uniq_name (S (length used)) (o_synth o) used) as [n1|]; [|discriminate].
      destruct (assign_names v (n1 :: used)) as [r|] eqn:E; simpl in H; [|discriminate]. inversion H; subst.
      destruct Hin as [Hin|Hin]; [inversion Hin; subst; congruence|eapply IH; eauto].
Qed.

Lemma whole_minutes_in : forall v o, whole_minutes v = true -> In o v ->
  o_from o mod 60 = 0 /\ o_to o mod 60 = 0.
Proof.
  intros v o H Hin. unfold whole_minutes in H. rewrite forallb_forall in H. specialize (H o Hin).
  apply andb_true_iff in H. destruct H as [H1 H2]. split; apply Z.eqb_eq; auto.
Qed.

(* ------------------------------------------------------------------ code transitions vs. the definition *)
Lemma pairs_eq : forall named v, map fst named = v -> whole_minutes v = true ->
  map (fun c => (t_local c, t_utc c)) (all_trs named) = onset_pairs v.
Proof.
  induction named as [|[o n] r IH]; intros v Hv Hw; subst v; [reflexivity|].
  unfold all_trs, onset_pairs in *. simpl. rewrite map_app. f_equal.
  - rewrite map_map. apply map_ext. intros l. unfold t_utc; simpl.
    destruct (whole_minutes_in _ o Hw (or_introl eq_refl)) as [Hf _]. rewrite round_min_id; auto.
  - apply IH; auto. simpl in Hw. apply andb_true_iff in Hw. apply Hw.
Qed.

Lemma tr_in_all : forall named o n l, In (o, n) named -> In l (o_onsets o) ->
  In (mkTr l (round_min (o_from o)) (round_min (o_to o)) n) (all_trs named).
Proof.
  intros named o n l Hin Hl. unfold all_trs. apply in_flat_map. exists (o, n). split; auto.
  unfold obs_trs. apply in_map_iff. exists l. split; auto. apply nodup_In; auto.
Qed.

Lemma all_in_tr : forall named c, In c (all_trs named) ->
  exists o n l, In (o, n) named /\ In l (o_onsets o) /\
                c = mkTr l (round_min (o_from o)) (round_min (o_to o)) n.
Proof.
  intros named c H. unfold all_trs in H. apply in_flat_map in H. destruct H as ([o n] & Hin & Hc).
  unfold obs_trs in Hc. apply in_map_iff in Hc. destruct Hc as (l & E & Hl). apply nodup_In in Hl.
  exists o, n, l. auto.
Qed.

Lemma spec_in : forall v e, In e (spec_onsets v) ->
  exists o l, In o v /\ In l (o_onsets o) /\ e = mkOnset (l - o_from o) (o_to o) (o_name o) (o_dst o).
Proof.
  intros v e H. unfold spec_onsets in H. apply in_flat_map in H. destruct H as (o & Ho & He).
  apply in_map_iff in He. destruct He as (l & E & Hl). exists o, l. auto.
Qed.

Lemma in_spec : forall v o l, In o v -> In l (o_onsets o) ->
  In (mkOnset (l - o_from o) (o_to o) (o_name o) (o_dst o)) (spec_onsets v).
Proof.
  intros v o l Ho Hl. unfold spec_onsets. apply in_flat_map. exists o. split; auto.
  apply in_map_iff. exists l. auto.
Qed.

(* ------------------------------------------------------------------ transition_info *)
Definition info_ok (named : list (obs * list N)) (c : tr) (i : Z * Z * list N) : Prop :=
  fst (fst i) = t_to c /\ snd i = t_name c /\ (is_dst named c = false -> snd (fst i) = 0).

Lemma find_std_some : forall named l s, In s l -> is_dst named s = false ->
  exists s', find_std named l = Some s'.
Proof.
  intros named l s Hin Hs. unfold find_std.
  destruct (find (fun e => negb (is_dst named e)) l) as [s'|] eqn:E; [eauto|].
  pose proof (find_none _ _ E s Hin) as F. simpl in F. rewrite Hs in F. discriminate.
Qed.

Lemma infos_ok : forall named rest prev,
  (exists s, In s (prev ++ rest) /\ is_dst named s = false) ->
  exists inf, infos named prev rest = Ok inf /\ Forall2 (info_ok named) rest inf.
Proof.
  intros named. induction rest as [|e r IH]; intros prev Hstd; simpl.
  - exists []. split; auto.
  - assert (exists d, dst_offset named prev (e :: r) e = Ok d /\ (is_dst named e = false -> d = 0)) as (d & Hd & Hz).
    { unfold dst_offset. destruct (is_dst named e) eqn:Ed; cbn [negb]; [|exists 0; auto].
      destruct (find_std named prev) as [sb|] eqn:Eb; cbn [option_map].
      - destruct (t_to e - t_to sb =? 0); [|eexists; split; [reflexivity|intros; discriminate]].
        destruct (find_std named (e :: r)); cbn [option_map]; eexists; (split; [reflexivity|intros; discriminate]).
      - destruct Hstd as (s & Hin & Hs). apply in_app_or in Hin. destruct Hin as [Hin|Hin].
        + destruct (find_std_some named prev s Hin Hs) as (s' & E'). congruence.
        + destruct (find_std_some named (e :: r) s Hin Hs) as (s' & E'). rewrite E'. cbn [option_map].
          eexists; split; [reflexivity|intros; discriminate]. }
    rewrite Hd. simpl.
    destruct (IH (e :: prev)) as (inf & Hi & Hf).
    { destruct Hstd as (s & Hin & Hs). exists s. split; auto.
      apply in_app_or in Hin. apply in_or_app. simpl in *. tauto. }
    rewrite Hi. simpl. eexists. split; [reflexivity|]. constructor; auto.
    unfold info_ok; simpl. auto.
Qed.

Lemma Forall2_nth : forall (A B : Type) (R : A -> B -> Prop) l1 l2, Forall2 R l1 l2 ->
  forall i a, nth_error l1 i = Some a -> exists b, nth_error l2 i = Some b /\ R a b.
Proof.
  induction 1 as [|x y l1 l2 Hxy _ IH]; intros i a Hi; destruct i; simpl in *; try discriminate.
  - inversion Hi; subst. eauto.
  - eauto.
Qed.

(* ------------------------------------------------------------------ the pytz path = the RFC rule *)
Lemma dst_of_names_ok : forall v named, assign_names v [] = Some named -> names_ok v = true ->
  forall o n, In (o, n) named -> dst_of named n false = o_dst o.
Proof.
  intros v named Hn Hok o n Hin. unfold names_ok in Hok. rewrite Hn in Hok.
  rewrite forallb_forall in Hok. specialize (Hok (o, n) Hin). simpl in Hok. apply eqb_prop in Hok. auto.
Qed.

Lemma pytz_path_main : forall v t t0,
  pytz_guard v = true -> first_onset v = Some t0 -> t0 <= t ->
  exists e d nm, rfc_onset v t = Some e /\ pytz_path v t = Ok (n_to e, d, nm)
    /\ (forall n, n_name e = Some n -> nm = n) /\ (n_dst e = false -> d = 0).
Proof.
  intros v t t0 Hg Hfirst Ht.
  unfold pytz_guard in Hg. repeat (apply andb_true_iff in Hg; destruct Hg as [Hg ?]).
  rename Hg into Hw, H1 into Hord, H0 into Hnames, H into Hstd.
  destruct (assign_names v []) as [named|] eqn:Hn; [|unfold names_ok in Hnames; rewrite Hn in Hnames; discriminate].
  pose proof (assign_names_fst _ _ _ Hn) as Hfst.
  pose proof (pairs_eq named v Hfst Hw) as Hpairs.
  (* the specification side *)
  destruct (first_onset_in v t0 Hfirst) as (e0 & He0 & Eu0).
  destruct (rfc_onset_exists v t e0 He0 ltac:(lia)) as (e & He).
  destruct (rfc_onset_spec v t e He) as (Hein & Hele & Hemax).
  exists e.
  (* the sorted transitions *)
  set (ts := tr_sort (all_trs named)).
  assert (Permutation ts (all_trs named)) as Hperm by apply tr_sort_perm.
  unfold order_ok in Hord. apply andb_true_iff in Hord. destruct Hord as [Hdist Hpw].
  assert (NoDup (map t_utc (all_trs named))) as Hnd.
  { apply distinctb_NoDup in Hdist. rewrite <- Hpairs in Hdist. rewrite map_map in Hdist. simpl in Hdist. auto. }
  assert (forall a b, In a ts -> In b ts ->
            Bool.eqb (t_local a <? t_local b) (t_utc a <? t_utc b) = true) as Hpair.
  { intros a b Ha Hb. rewrite forallb_forall in Hpw.
    assert (forall c, In c ts -> In (t_local c, t_utc c) (onset_pairs v)) as Hc.
    { intros c Hc. rewrite <- Hpairs. apply (in_map (fun c => (t_local c, t_utc c))).
      eapply Permutation_in; eauto. }
    specialize (Hpw _ (Hc a Ha)). rewrite forallb_forall in Hpw. specialize (Hpw _ (Hc b Hb)). auto. }
  assert (StronglySorted Z.lt (map t_utc ts)) as Hsorted.
  { apply utc_sorted; auto; [apply tr_sort_sorted|].
    eapply Permutation_NoDup; [apply Permutation_sym; apply Permutation_map; exact Hperm|auto]. }
  (* the transition of the selected onset *)
  destruct (spec_in v e Hein) as (o & l & Ho & Hl & Ee).
  assert (exists n, In (o, n) named) as (n & Hon).
  { rewrite <- Hfst in Ho. apply in_map_iff in Ho. destruct Ho as ([o' n'] & E' & Hin'). simpl in E'. subst. eauto. }
  destruct (whole_minutes_in v o Hw Ho) as [Hf60 Ht60].
  pose proof (tr_in_all named o n l Hon Hl) as Hc. rewrite (round_min_id _ Hf60), (round_min_id _ Ht60) in Hc.
  set (c := mkTr l (o_from o) (o_to o) n) in *.
  assert (t_utc c = n_utc e) as Ecu by (subst e; reflexivity).
  (* a STANDARD transition exists *)
  assert (exists s, In s ([] ++ ts) /\ is_dst named s = false) as Hhas.
  { unfold has_std in Hstd. apply existsb_exists in Hstd. destruct Hstd as (os & Hos & Hb).
    apply andb_true_iff in Hb. destruct Hb as [Hb1 Hb2].
    destruct (o_onsets os) as [|ls rs] eqn:Eos; [discriminate|].
    assert (exists ns, In (os, ns) named) as (ns & Hons).
    { rewrite <- Hfst in Hos. apply in_map_iff in Hos. destruct Hos as ([o' n'] & E' & Hin'). simpl in E'. subst. eauto. }
    eexists. split.
    - simpl. eapply Permutation_in; [apply Permutation_sym; exact Hperm|].
      apply (tr_in_all named os ns ls Hons). rewrite Eos. left; auto.
    - unfold is_dst. simpl. rewrite (dst_of_names_ok v named Hn Hnames os ns Hons).
      apply negb_true_iff in Hb1. auto. }
  destruct (infos_ok named ts [] Hhas) as (inf & Hinf & Hf2).
  unfold pytz_path, get_transitions. rewrite Hn. fold ts. rewrite Hinf. cbn [bind fst snd]. unfold pytz_fromutc.
  (* the bisection *)
  pose proof (bisect_right_spec (map t_utc ts) t Hsorted) as Hb. cbv zeta in Hb.
  set (b := bisect_right (map t_utc ts) t) in *. destruct Hb as (Hblen & Hble & Hbgt).
  rewrite map_length in Hblen.
  assert (In c ts) as Hcts by (eapply Permutation_in; [apply Permutation_sym; exact Hperm|auto]).
  destruct (In_nth_error _ _ Hcts) as (ic & Hic).
  assert (ic < length ts)%nat as Hiclt by (apply nth_error_Some; congruence).
  assert (nth ic (map t_utc ts) 0 = t_utc c) as Enc.
  { rewrite (nth_indep _ 0 (t_utc c)) by (rewrite map_length; auto). rewrite map_nth.
    erewrite nth_error_nth; eauto. }
  assert (ic < b)%nat as Hicb.
  { destruct (Nat.lt_ge_cases ic b) as [|Hge]; auto.
    specialize (Hbgt ic Hge ltac:(rewrite map_length; auto)). lia. }
  assert (Nat.pred b < length ts)%nat as Hplt by lia.
  destruct (nth_error ts (Nat.pred b)) as [cs|] eqn:Ecs; [|apply nth_error_None in Ecs; lia].
  destruct (Forall2_nth _ _ _ _ _ Hf2 _ _ Ecs) as (i & Hi & Hio).
  rewrite Hi.
  (* cs = c *)
  assert (nth (Nat.pred b) (map t_utc ts) 0 = t_utc cs) as Encs.
  { rewrite (nth_indep _ 0 (t_utc cs)) by (rewrite map_length; auto). rewrite map_nth.
    erewrite nth_error_nth; eauto. }
  assert (t_utc cs <= t) as Hcsle by (rewrite <- Encs; apply Hble; lia).
  assert (t_utc c <= t_utc cs) as Hccs.
  { destruct (Nat.eq_dec ic (Nat.pred b)) as [E|Hne]; [rewrite E in Hic; assert (cs = c) as Ecc0 by congruence; rewrite Ecc0; lia|].
    pose proof (sorted_nth_lt _ Hsorted ic (Nat.pred b) ltac:(lia) ltac:(rewrite map_length; lia)). lia. }
  assert (In cs (all_trs named)) as Hcsin.
  { eapply Permutation_in; [exact Hperm|]. eapply nth_error_In; eauto. }
  assert (t_utc cs <= n_utc e) as Hcse.
  { destruct (all_in_tr named cs Hcsin) as (o2 & n2 & l2 & Hin2 & Hl2 & Ecs2).
    assert (In o2 v) as Ho2 by (rewrite <- Hfst; apply (in_map fst _ _ Hin2)).
    destruct (whole_minutes_in v o2 Hw Ho2) as [Hf2' _].
    pose proof (in_spec v o2 l2 Ho2 Hl2) as Hs2.
    specialize (Hemax _ Hs2). simpl in Hemax.
    subst cs. unfold t_utc in *. simpl in *. rewrite (round_min_id _ Hf2') in *. lia. }
  assert (cs = c) as Ecc.
  { eapply (NoDup_map_inj _ _ t_utc); eauto. lia. }
  subst cs. destruct i as [[io id] inm]. destruct Hio as (Hi1 & Hi2 & Hi3). simpl in *.
  exists id, inm. subst io inm. split; auto. split; [subst e; reflexivity|]. split.
  - intros m Hm. subst e. simpl in Hm. eapply (assign_names_given v [] named Hn o n m); eauto.
  - intros Hd. apply Hi3. unfold is_dst. simpl.
    rewrite (dst_of_names_ok v named Hn Hnames o n Hon). subst e. auto.
Qed.

Lemma std_dst_zero_main : forall v t t0 e,
  pytz_guard v = true -> first_onset v = Some t0 -> t0 <= t ->
  rfc_onset v t = Some e -> n_dst e = false ->
  exists off nm, pytz_path v t = Ok (off, 0, nm).
Proof.
  intros v t t0 e Hg Hf Ht He Hd.
  destruct (pytz_path_main v t t0 Hg Hf Ht) as (e' & d & nm & He' & Hp & _ & Hz).
  rewrite He in He'. inversion He'; subst e'. rewrite (Hz Hd) in Hp. eauto.
Qed.

(* ------------------------------------------------------------------ witnesses *)
(* a well-behaved definition: Europe-like rules, three years of onsets, one unnamed observance *)
Definition ex_vtz : vtz :=
  [ mkObs false [1572138000; 1603587600; 1635642000] 7200 3600 (Some (s2l "CET")) (s2l "x");
    mkObs true  [1585447200; 1616896800; 1648346400] 3600 7200 None (s2l "Z_20200329T020000_+0100_+0200") ].

Lemma ex_vtz_ok :
  pytz_guard ex_vtz = true /\ first_onset ex_vtz = Some 1572130800 /\
  rfc_offset ex_vtz 1585443600 = Some (7200, None, true) /\
  pytz_path ex_vtz 1585443599 = Ok (3600, 0, s2l "CET") /\
  pytz_path ex_vtz 1585443600 = Ok (7200, 3600, s2l "Z_20200329T020000_+0100_+0200").
Proof. vm_compute. repeat split; reflexivity. Qed.

(* crossing: STANDARD at local 2020-01-02 01:00 from +0200 (2020-01-01 23:00Z) to +0500,
   DAYLIGHT at local 2020-01-02 00:30 from -0100 (01:30Z) to +0700.  The code sorts by local time
   (DAYLIGHT first) and bisects the unsorted UTC list: at 03:00Z it answers +0500, the RFC rule +0700 *)
Definition crossing_vtz : vtz :=
  [ mkObs false [1577926800] 7200 18000 (Some (s2l "S")) (s2l "x");
    mkObs true  [1577925000] (-3600) 25200 (Some (s2l "D")) (s2l "y") ].

Lemma crossing_refutes :
  whole_minutes crossing_vtz = true /\ names_ok crossing_vtz = true /\ has_std crossing_vtz = true /\
  distinctb (map snd (onset_pairs crossing_vtz)) = true /\ order_ok crossing_vtz = false /\
  first_onset crossing_vtz = Some 1577919600 /\
  rfc_offset crossing_vtz 1577934000 = Some (25200, Some (s2l "D"), true) /\
  pytz_path crossing_vtz 1577934000 = Ok (18000, 0, s2l "S").
Proof. vm_compute. repeat split; reflexivity. Qed.

(* only DAYLIGHT observances (allowed by RFC 5545): the DST-delta search finds no STANDARD
   transition and the assert fails *)
Definition dstonly_vtz : vtz := [ mkObs true [1590969600] 3600 7200 (Some (s2l "D")) (s2l "x") ].
Lemma dstonly_refutes :
  whole_minutes dstonly_vtz = true /\ order_ok dstonly_vtz = true /\ names_ok dstonly_vtz = true /\
  has_std dstonly_vtz = false /\
  rfc_offset dstonly_vtz 1600000000 = Some (7200, Some (s2l "D"), true) /\
  pytz_path dstonly_vtz 1600000000 = Escape (s2l "AssertionError").
Proof. vm_compute. repeat split; reflexivity. Qed.

(* STANDARD "A", then DAYLIGHT "A", then STANDARD "B": dst["A"] is overwritten by the DAYLIGHT
   observance, so the STANDARD onset named "A" is reported with a non-zero dst() *)
Definition samename_vtz : vtz :=
  [ mkObs false [1577836800] 7200 3600 (Some (s2l "A")) (s2l "x");
    mkObs true  [1590969600] 3600 7200 (Some (s2l "A")) (s2l "y");
    mkObs false [1604188800] 7200 0 (Some (s2l "B")) (s2l "z") ].
Lemma samename_refutes :
  whole_minutes samename_vtz = true /\ order_ok samename_vtz = true /\ has_std samename_vtz = true /\
  names_ok samename_vtz = false /\
  rfc_offset samename_vtz 1580000000 = Some (3600, Some (s2l "A"), false) /\
  pytz_path samename_vtz 1580000000 = Ok (3600, 3600, s2l "A").
Proof. vm_compute. repeat split; reflexivity. Qed.

(* ... and without the third observance the conversion itself fails *)
Definition samename2_vtz : vtz := firstn 2 samename_vtz.
Lemma samename2_refutes :
  whole_minutes samename2_vtz = true /\ order_ok samename2_vtz = true /\ has_std samename2_vtz = true /\
  names_ok samename2_vtz = false /\ pytz_path samename2_vtz 1580000000 = Escape (s2l "AssertionError").
Proof. vm_compute. repeat split; reflexivity. Qed.

Lemma str_eqb_sym : forall a b, str_eqb a b = str_eqb b a.
Proof.
  induction a as [|x a IH]; destruct b as [|y b]; simpl; auto. rewrite N.eqb_sym, IH. reflexivity.
Qed.
Lemma str_eqb_sym_false : forall a b, str_eqb a b = false -> str_eqb b a = false.
Proof. intros a b H. rewrite str_eqb_sym. exact H. Qed.
