(* Proofs for C04: the parser's control skeleton returns a result or ValueError for every input and
   every behaviour of the value decoders that itself stays within {value, ValueError}; a bad line in a
   lenient component changes nothing but that component's error list. *)
Require Import Lib.Base Lib.Chain Gen.Gen_parser Gen.Gen_cal Model.Text Model.Params Model.Fold Model.Contentline Model.Sort Model.Tree.
Require Import Proofs.ChainProofs Proofs.ParamsProofs Proofs.TreeProofs.
From Coq Require Import Lia Arith String.

(* ------------------------------------------------------------------ no other exception class *)
Definition tame {A} (r : res A) : Prop := match r with Escape _ => False | _ => True end.

Lemma tame_bind {A B} (r : res A) (f : A -> res B) : tame r -> (forall a, tame (f a)) -> tame (bind r f).
Proof. destruct r; cbn; auto. Qed.

Lemma tame_validate_token k : tame (validate_token k).
Proof. unfold validate_token. destruct (negb (all_ascii k)); [exact I|]. destruct k; [exact I|]. destruct (forallb _ _); exact I. Qed.

Lemma tame_validate_pv v q : tame (validate_param_value v q).
Proof. unfold validate_param_value. destruct (existsb _ _); exact I. Qed.

Lemma tame_parse_vals : forall vs, tame (parse_vals vs).
Proof.
  induction vs as [|v vs IH]; [exact I|]. cbn [parse_vals]. apply tame_bind.
  - destruct (starts_q v && ends_q v); apply tame_bind; try apply tame_validate_pv; intros; exact I.
  - intros a. apply tame_bind; [exact IH|intros; exact I].
Qed.

Lemma tame_parse_param p : tame (parse_param p).
Proof.
  unfold parse_param. destruct (q_split p 61 (Some 1%nat)) as [|k [|v [|x r]]]; try exact I.
  apply tame_bind; [apply tame_validate_token|]. intros _. apply tame_bind; [apply tame_parse_vals|].
  intros vals. destruct vals as [|a [|b c]]; exact I.
Qed.

Lemma tame_parse_params_list : forall l acc, tame (parse_params_list l acc).
Proof.
  induction l as [|p l IH]; intros acc; [exact I|]. cbn [parse_params_list]. apply tame_bind; [apply tame_parse_param|].
  intros kv. apply IH.
Qed.

Lemma tame_parts line : tame (parts line).
Proof.
  unfold parts. destruct (scan 0 false None None (escape_string line)) as [ns vs].
  destruct (unescape_string _) as [|c nm] eqn:En; [exact I|].
  apply tame_bind; [apply tame_validate_token|]. intros _.
  destruct ns as [[|n]|]; try exact I. destruct (_ =? _)%nat; [exact I|].
  apply tame_bind; [apply tame_parse_params_list|]. intros; exact I.
Qed.

(* every type key that for_property can return has a registered class (generated tables) *)
Lemma type_keys_registered :
  forallb (fun kv : list N * list N => match class_name_of_key (snd kv) with Some _ => true | None => false end) types_map = true
  /\ class_name_of_key (s2l "text") <> None.
Proof. split; [vm_compute; reflexivity|vm_compute; discriminate]. Qed.

Lemma dict_get_snd_in {V} (k : list N) (v : V) : forall d, dict_get k d = Some v -> exists k', In (k', v) d.
Proof.
  induction d as [|[k' v'] d IH]; cbn [dict_get]; intros H; [discriminate|].
  destruct (str_eqb k k'); [inversion H; subst; exists k'; left; reflexivity|].
  destruct (IH H) as [k2 Hk2]. exists k2. right. exact Hk2.
Qed.

Lemma class_of_any_name name : class_name_of_key (type_key name) <> None.
Proof.
  unfold type_key. destruct (dict_get (upper name) types_map) as [k|] eqn:E; [|apply type_keys_registered].
  destruct (dict_get_snd_in _ _ _ E) as [k' Hin]. destruct type_keys_registered as [H _].
  rewrite forallb_forall in H. specialize (H _ Hin). cbn [snd] in H. destruct (class_name_of_key k); [discriminate|discriminate].
Qed.

Section Total.
  Variable dec : decoder.
  Hypothesis dec_tame : forall k v t, tame (dec k v t).

  Lemma tame_dec_all k t : forall vs, tame (dec_all dec k t vs).
  Proof.
    induction vs as [|v vs IH]; [exact I|]. cbn [dec_all]. apply tame_bind; [apply dec_tame|].
    intros a. apply tame_bind; [exact IH|intros; exact I].
  Qed.

  Lemma tame_decode_line n ps v : tame (decode_line dec n ps v).
  Proof.
    unfold decode_line. destruct (str_is _ _); [apply tame_dec_all|]. destruct (mem_str _ _); [|apply tame_dec_all].
    destruct (dict_get _ ps); apply tame_dec_all.
  Qed.

  Definition cache_tame (c : list (res unit)) : Prop := Forall tame c.
  Definition otame (o : outcome) : Prop :=
    match o with Raise (Escape _) => False | Next s | Break s => cache_tame (cache s) | _ => True end.

  Lemma step_tame s line : cache_tame (cache s) -> otame (step dec s line).
  Proof.
    intros Hc. unfold step, step_parts. pose proof (tame_parts line) as Hp.
    destruct (parts line) as [[[name ps] vals]| | |]; cbn [otame]; try exact I.
    - destruct (str_is (upper name) "BEGIN").
      { destruct (all_ascii vals); [exact Hc|exact I]. }
      destruct (str_is (upper name) "END").
      { destruct (stack s) as [|f rest]; [exact I|]. cbv zeta.
        destruct (_ && _).
        - destruct (cache s) as [|c0 c'] eqn:Ec.
          + destruct rest as [|g r]; cbn [cache otame]; constructor.
          + unfold cache_tame in Hc. inversion Hc as [|x xs Hx Hxs]; subst.
            destruct rest as [|g r]; cbn [cache]; destruct c0; cbn [otame cache stack done]; try exact Hxs; try exact I; contradiction.
        - destruct rest as [|g r]; cbn [otame cache]; exact Hc. }
      destruct (stack s) as [|f r].
      { destruct (str_is _ _); [exact Hc|exact I]. }
      pose proof (class_of_any_name name) as Hk. destruct (class_name_of_key (type_key name)) as [cls|]; [|congruence].
      pose proof (tame_decode_line name ps vals) as Hd.
      destruct (decode_line dec name ps vals); try exact I; try exact Hc; try contradiction.
      destruct (ignores (f_name f)); [exact Hc|exact I].
    - destruct (stack s) as [|f r]; [exact I|]. destruct (ignores (f_name f)); [exact Hc|exact I].
    - contradiction.
  Qed.

  Lemma run_lines_tame : forall lines s, cache_tame (cache s) -> tame (run_lines dec s lines).
  Proof.
    induction lines as [|l r IH]; intros s Hc; [exact I|]. cbn [run_lines].
    pose proof (step_tame s l Hc) as Ho. destruct (step dec s l) as [s'|s'|e]; cbn [otame] in Ho.
    - apply IH. exact Ho.
    - exact I.
    - destruct e; try exact I. contradiction.
  Qed.

  (* C04: for EVERY text the parser returns components or ValueError (the model may decline non-ASCII names) *)
  Theorem parse_total cache0 multiple text : cache_tame cache0 -> tame (parse dec cache0 multiple text).
  Proof.
    intros Hc. unfold parse. apply tame_bind; [apply run_lines_tame; exact Hc|].
    intros s. destruct multiple; [exact I|]. destruct (done s) as [|c [|c2 r]]; exact I.
  Qed.
End Total.

(* ------------------------------------------------------------------ isolation of bad lines *)
(* error lists erased everywhere *)
Fixpoint cstrip (c : comp) : comp :=
  let '(Comp n ps subs _) := c in Comp n ps (map cstrip subs) [].
Definition fstrip (f : frame) : frame :=
  {| f_name := f_name f; f_props := f_props f; f_subs := map cstrip (f_subs f); f_errs := [] |}.
Definition sstrip (s : pstate) : pstate :=
  {| stack := map fstrip (stack s); done := map cstrip (done s); cache := cache s |}.

(* number of recorded errors *)
Fixpoint ccount (c : comp) : nat :=
  let '(Comp _ _ subs es) := c in (List.length es + fold_right (fun s acc => ccount s + acc) 0 subs)%nat.
Definition lcount (l : list comp) : nat := fold_right (fun s acc => ccount s + acc)%nat 0%nat l.
Definition fcount (f : frame) : nat := (List.length (f_errs f) + lcount (f_subs f))%nat.
Definition scount (s : pstate) : nat := (fold_right (fun f acc => fcount f + acc) 0 (stack s) + lcount (done s))%nat.

Lemma lcount_app a b : lcount (a ++ b) = (lcount a + lcount b)%nat.
Proof. unfold lcount. induction a as [|x a IH]; [reflexivity|]. cbn [app fold_right]. rewrite IH. lia. Qed.

Lemma ccount_close f : ccount (close f) = fcount f.
Proof. destruct f. reflexivity. Qed.
Lemma cstrip_close f : cstrip (close f) = close (fstrip f).
Proof. destruct f. reflexivity. Qed.

(* two states that differ at most in their error lists *)
Definition sim (s s' : pstate) : Prop :=
  map fstrip (stack s) = map fstrip (stack s') /\ map cstrip (done s) = map cstrip (done s') /\ cache s = cache s'.
Definition osim (o o' : outcome) : Prop :=
  match o, o' with
  | Next a, Next b => sim a b
  | Break a, Break b => sim a b
  | Raise e, Raise e' => e = e'
  | _, _ => False
  end.
(* both outcomes add the same number of error entries *)
Definition odelta (s s' : pstate) (o o' : outcome) : Prop :=
  match o, o' with
  | Next a, Next b | Break a, Break b => (scount a + scount s' = scount b + scount s)%nat
  | _, _ => True
  end.

Lemma fstrip_add_err f e : fstrip (add_err f e) = fstrip f.
Proof. reflexivity. Qed.
Lemma fstrip_add_vals f n vs : fstrip (add_vals f n vs) = add_vals (fstrip f) n vs.
Proof. reflexivity. Qed.
Lemma fstrip_add_sub g c : fstrip (add_sub g c) = add_sub (fstrip g) (cstrip c).
Proof. unfold fstrip, add_sub. cbn. rewrite map_app. reflexivity. Qed.
Lemma fcount_add_err f e : fcount (add_err f e) = S (fcount f).
Proof. unfold fcount, add_err. cbn [f_errs f_subs]. rewrite app_length. cbn [List.length]. lia. Qed.
Lemma fcount_add_vals f n vs : fcount (add_vals f n vs) = fcount f.
Proof. reflexivity. Qed.
Lemma fcount_add_sub g c : fcount (add_sub g c) = (fcount g + ccount c)%nat.
Proof. unfold fcount, add_sub. cbn [f_errs f_subs]. rewrite lcount_app. unfold lcount at 2. cbn [fold_right]. lia. Qed.
Lemma fstrip_eq f f' : fstrip f = fstrip f' ->
  f_name f = f_name f' /\ f_props f = f_props f' /\ map cstrip (f_subs f) = map cstrip (f_subs f').
Proof. unfold fstrip. intros H. inversion H. auto. Qed.

Lemma scount_cons f r d c : scount {| stack := f :: r; done := d; cache := c |} =
  (fcount f + scount {| stack := r; done := d; cache := c |})%nat.
Proof. unfold scount. cbn. lia. Qed.

Lemma cons_inj {A} (a b : A) l l' : a :: l = b :: l' -> a = b /\ l = l'.
Proof. intros H. inversion H. auto. Qed.

Lemma step_sim dec s s' l : sim s s' -> osim (step dec s l) (step dec s' l) /\ odelta s s' (step dec s l) (step dec s' l).
Proof.
  intros (Hst & Hdn & Hca). destruct s as [st dn ca], s' as [st' dn' ca']. cbn [stack done cache] in *. subst ca'.
  unfold step, step_parts. destruct (parts l) as [[[name ps] vals]| | |].
  2:{ destruct st as [|f r], st' as [|f' r']; try discriminate; cbn [stack]; [split; [reflexivity|exact I]|].
      cbn [map] in Hst. apply cons_inj in Hst. destruct Hst as [Hf Hr]. destruct (fstrip_eq f f' Hf) as (Hn & _ & _). rewrite <- Hn.
      destruct (ignores (f_name f)); [|split; [reflexivity|exact I]]. split.
      - cbn [osim]. unfold sim. cbn [stack done cache map]. rewrite !fstrip_add_err, Hf, Hr, Hdn. auto.
      - cbn [odelta]. rewrite !scount_cons, !fcount_add_err.
        unfold scount. cbn [stack done]. unfold scount. lia. }
  2:{ split; [reflexivity|exact I]. }
  2:{ split; [reflexivity|exact I]. }
  destruct (str_is (upper name) "BEGIN").
  { destruct (all_ascii vals); [|split; [reflexivity|exact I]]. split.
    - cbn [osim]. unfold sim. cbn [stack done cache map]. rewrite Hst, Hdn. auto.
    - cbn [odelta]. rewrite !scount_cons. unfold fcount. cbn. unfold scount. cbn [stack done]. lia. }
  destruct (str_is (upper name) "END").
  { destruct st as [|f rest], st' as [|f' rest']; try discriminate; cbn [stack]; [split; [reflexivity|exact I]|].
    cbn [map] in Hst. apply cons_inj in Hst. destruct Hst as [Hf Hr]. destruct (fstrip_eq f f' Hf) as (Hn & Hp & Hs). cbv zeta. rewrite <- Hp, <- Hn.
    assert (Hclose : cstrip (close f) = cstrip (close f')) by (rewrite !cstrip_close, Hf; reflexivity).
    destruct rest as [|g r], rest' as [|g' r']; try discriminate.
    - (* closing a top-level component *)
      assert (Hsimc : sim {| stack := []; done := dn ++ [close f]; cache := ca |} {| stack := []; done := dn' ++ [close f']; cache := ca |}).
      { unfold sim. cbn [stack done cache map]. rewrite !map_app. cbn [map]. rewrite Hdn, Hclose. auto. }
      assert (Hcnt : (scount {| stack := []; done := dn ++ [close f]; cache := ca |} + scount {| stack := [f']; done := dn'; cache := ca |}
                      = scount {| stack := []; done := dn' ++ [close f']; cache := ca |} + scount {| stack := [f]; done := dn; cache := ca |})%nat).
      { rewrite !scount_cons. unfold scount. cbn [stack done fold_right]. rewrite !lcount_app. unfold lcount at 2 5. cbn [fold_right].
        rewrite !ccount_close. lia. }
      destruct (_ && _); [|split; [exact Hsimc|exact Hcnt]]. cbn [cache].
      destruct ca as [|c0 c']; [split; [exact Hsimc|exact Hcnt]|].
      destruct c0; try (split; [reflexivity|exact I]). destruct Hsimc as (S1 & S2 & _). split.
      + cbn [osim]. unfold sim. cbn [stack done cache] in *. auto.
      + cbn [odelta]. unfold scount in *. cbn [stack done] in *. exact Hcnt.
    - (* closing a nested component *)
      cbn [map] in Hr. apply cons_inj in Hr. destruct Hr as [Hg Hr'].
      assert (Hsimc : sim {| stack := add_sub g (close f) :: r; done := dn; cache := ca |}
                          {| stack := add_sub g' (close f') :: r'; done := dn'; cache := ca |}).
      { unfold sim. cbn [stack done cache map]. rewrite !fstrip_add_sub, Hg, Hclose, Hr', Hdn. auto. }
      assert (Hcnt : (scount {| stack := add_sub g (close f) :: r; done := dn; cache := ca |} + scount {| stack := f' :: g' :: r'; done := dn'; cache := ca |}
                      = scount {| stack := add_sub g' (close f') :: r'; done := dn'; cache := ca |} + scount {| stack := f :: g :: r; done := dn; cache := ca |})%nat).
      { rewrite !scount_cons, !fcount_add_sub, !ccount_close.
        generalize (scount {| stack := r; done := dn; cache := ca |}) (scount {| stack := r'; done := dn'; cache := ca |}) (fcount f) (fcount f') (fcount g) (fcount g'). clear. intros. lia. }
      destruct (_ && _); [|split; [exact Hsimc|exact Hcnt]]. cbn [cache].
      destruct ca as [|c0 c']; [split; [exact Hsimc|exact Hcnt]|].
      destruct c0; try (split; [reflexivity|exact I]). destruct Hsimc as (S1 & S2 & _). split.
      + cbn [osim]. unfold sim. cbn [stack done cache] in *. auto.
      + cbn [odelta]. unfold scount in *. cbn [stack done] in *. exact Hcnt. }
  destruct st as [|f r], st' as [|f' r']; try discriminate; cbn [stack].
  { destruct (str_is _ _); split; try reflexivity; try exact I.
    - cbn [osim]. unfold sim. cbn [stack done cache map]. auto.
    - cbn [odelta]. lia. }
  cbn [map] in Hst. apply cons_inj in Hst. destruct Hst as [Hf Hr]. destruct (fstrip_eq f f' Hf) as (Hn & Hp & Hs). rewrite <- Hn.
  destruct (class_name_of_key (type_key name)) as [cls|]; [|split; [reflexivity|exact I]].
  destruct (decode_line dec name ps vals) as [texts| | |]; try (split; [reflexivity|exact I]).
  - split.
    + cbn [osim]. unfold sim. cbn [stack done cache map]. rewrite !fstrip_add_vals, Hf, Hr, Hdn. auto.
    + cbn [odelta done cache]. rewrite !scount_cons, !fcount_add_vals. lia.
  - destruct (ignores (f_name f)); [|split; [reflexivity|exact I]]. split.
    + cbn [osim]. unfold sim. cbn [stack done cache map]. rewrite !fstrip_add_err, Hf, Hr, Hdn. auto.
    + cbn [odelta done cache]. rewrite !scount_cons, !fcount_add_err. lia.
Qed.

Definition rsim (s s' : pstate) (r r' : res pstate) : Prop :=
  match r, r' with
  | Ok a, Ok b => sim a b /\ (scount a + scount s' = scount b + scount s)%nat
  | ValueErr, ValueErr => True
  | Escape k, Escape k' => k = k'
  | Unsup, Unsup => True
  | _, _ => False
  end.

Lemma sim_refl s : sim s s.
Proof. unfold sim. auto. Qed.

Lemma run_sim dec : forall ls s s', sim s s' -> rsim s s' (run_lines dec s ls) (run_lines dec s' ls).
Proof.
  induction ls as [|l ls IH]; intros s s' Hs.
  - cbn [run_lines rsim]. split; [exact Hs|lia].
  - cbn [run_lines]. destruct (step_sim dec s s' l Hs) as [Ho Hd].
    destruct (step dec s l) as [a|a|e], (step dec s' l) as [b|b|e']; cbn [osim] in Ho; try contradiction.
    + specialize (IH a b Ho). cbn [odelta] in Hd.
      destruct (run_lines dec a ls) as [x| | |], (run_lines dec b ls) as [y| | |]; cbn [rsim] in *; try contradiction; try exact I; try exact IH.
      destruct IH as [Hxy Hc]. split; [exact Hxy|lia].
    + cbn [rsim odelta] in *. split; [exact Ho|exact Hd].
    + subst e'. destruct e; cbn [rsim]; auto.
Qed.

(* running a prefix: the state reached, or the final result if the prefix already ends the parse *)
Fixpoint run_prefix (dec : decoder) (s : pstate) (pre : list (list N)) : pstate + res pstate :=
  match pre with
  | [] => inl s
  | l :: r => match step dec s l with
              | Next s' => run_prefix dec s' r
              | Break s' => inr (Ok s')
              | Raise ValueErr => inr ValueErr
              | Raise (Escape k) => inr (Escape k)
              | Raise _ => inr Unsup
              end
  end.

Lemma run_lines_prefix dec : forall pre s rest,
  run_lines dec s (pre ++ rest) = match run_prefix dec s pre with inl s1 => run_lines dec s1 rest | inr r => r end.
Proof.
  induction pre as [|l pre IH]; intros s rest; [reflexivity|]. cbn [app run_lines run_prefix].
  destruct (step dec s l) as [a|a|e]; [apply IH|reflexivity|]. destruct e; reflexivity.
Qed.

(* a line that cannot be split, met inside a lenient component: one error entry, nothing else *)
Lemma bad_line_step dec s f r l : parts l = ValueErr -> stack s = f :: r -> ignores (f_name f) = true ->
  exists s', step dec s l = Next s' /\ sim s s' /\ scount s' = S (scount s).
Proof.
  intros Hp Hst Hig. unfold step, step_parts. rewrite Hp, Hst, Hig. eexists. split; [reflexivity|].
  destruct s as [st dn ca]. cbn [stack] in Hst. subst st. split.
  - unfold sim. cbn [stack done cache map]. rewrite fstrip_add_err. auto.
  - rewrite !scount_cons, fcount_add_err. reflexivity.
Qed.

(* the same for a line whose value the decoder refuses *)
Lemma bad_value_step dec s f r l name ps vals cls : parts l = Ok (name, ps, vals) ->
  str_is (upper name) "BEGIN" = false -> str_is (upper name) "END" = false ->
  stack s = f :: r -> ignores (f_name f) = true -> class_name_of_key (type_key name) = Some cls ->
  decode_line dec name ps vals = ValueErr ->
  exists s', step dec s l = Next s' /\ sim s s' /\ scount s' = S (scount s).
Proof.
  intros Hp Hb He Hst Hig Hc Hd. unfold step, step_parts. rewrite Hp, Hb, He, Hst, Hc, Hd, Hig. eexists. split; [reflexivity|].
  destruct s as [st dn ca]. cbn [stack] in Hst. subst st. split.
  - unfold sim. cbn [stack done cache map]. rewrite fstrip_add_err. auto.
  - rewrite !scount_cons, fcount_add_err. reflexivity.
Qed.

(* C04 isolation: dropping a bad line of a lenient component from the input changes the outcome of the
   whole parse in nothing but one error entry: same exception if any, otherwise the same components,
   properties, values and nesting (equal after erasing error lists) and exactly one more recorded error *)
Theorem isolation dec s0 pre l post s s' :
  run_prefix dec s0 pre = inl s -> step dec s l = Next s' -> sim s s' -> scount s' = S (scount s) ->
  match run_lines dec s0 (pre ++ l :: post), run_lines dec s0 (pre ++ post) with
  | Ok a, Ok b => map cstrip (done a) = map cstrip (done b) /\ map fstrip (stack a) = map fstrip (stack b)
                  /\ scount a = S (scount b)
  | ValueErr, ValueErr => True
  | Escape k, Escape k' => k = k'
  | Unsup, Unsup => True
  | _, _ => False
  end.
Proof.
  intros Hpre Hstep Hsim Hcnt. rewrite !run_lines_prefix, Hpre. cbn [run_lines]. rewrite Hstep.
  pose proof (run_sim dec post s s' Hsim) as R.
  destruct (run_lines dec s post) as [b| | |], (run_lines dec s' post) as [a| | |]; cbn [rsim] in R; try contradiction; try exact I.
  - destruct R as [(S1 & S2 & _) Hc]. repeat split; [symmetry; exact S2|symmetry; exact S1|lia].
  - symmetry. exact R.
Qed.

(* outside lenient components the same line makes the whole parse fail with ValueError *)
Theorem strict_fails dec s0 pre l post s :
  run_prefix dec s0 pre = inl s -> parts l = ValueErr ->
  match stack s with f :: _ => ignores (f_name f) = false | [] => True end ->
  run_lines dec s0 (pre ++ l :: post) = ValueErr.
Proof.
  intros Hpre Hp Hst. rewrite run_lines_prefix, Hpre. cbn [run_lines]. unfold step, step_parts. rewrite Hp.
  destruct (stack s) as [|f r]; [reflexivity|]. rewrite Hst. reflexivity.
Qed.

(* only VEVENT is lenient (generated table) *)
Lemma lenient_classes : map (fun c => cc_name c) (filter (fun c => cc_ignore c) component_classes) = [s2l "VEVENT"].
Proof. vm_compute. reflexivity. Qed.
