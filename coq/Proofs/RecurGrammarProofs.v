(* The grammar theorem of property C19: for every recurrence rule inside the RFC value domain
   ([rfc_rule_ok]), the text written by vRecur.to_ical is accepted by the RECUR recogniser
   [recur_grammar] (RFC 5545 3.3.10 / RFC 7529 4.1), with FREQ first after an optional RSCALE. *)
Require Import Lib.Base Lib.Chain Gen.Gen_parser Gen.Gen_recur Model.Params Model.Sort Model.Caseless
        Model.Text Model.Recur Proofs.SortPerm Proofs.CaselessProofs Proofs.ChainProofs Proofs.ReplaceProofs
        Proofs.TextProofs Proofs.RecurProofs.
From Coq Require Decimal DecimalZ DecimalPos.
From Coq Require Import Lia ZifyBool Sorting.Permutation.

(* ---------------------------------------------------------------- generic list facts *)
Lemma map_res_Forall2 {A B} (f : A -> res B) l : forall ts,
  map_res f l = Ok ts -> Forall2 (fun v t => f v = Ok t) l ts.
Proof.
  induction l as [|x r IH]; cbn [map_res]; intros ts H.
  - inversion H. constructor.
  - destruct (f x) as [y| | |] eqn:E; cbn [bind] in H; try discriminate.
    destruct (map_res f r) as [r'| | |] eqn:E'; cbn [bind] in H; try discriminate.
    inversion H. constructor; [exact E|apply IH; reflexivity].
Qed.

Lemma Forall2_transfer {A B} (R : A -> B -> Prop) (Q : B -> Prop) l ts :
  Forall2 R l ts -> (forall v t, In v l -> R v t -> Q t) -> Forall Q ts.
Proof.
  induction 1 as [|v t l ts Hvt _ IH]; intros H; constructor.
  - apply (H v t); [left; reflexivity|exact Hvt].
  - apply IH. intros v' t' Hin. apply H. right. exact Hin.
Qed.

Lemma Forall2_same_length {A B} (R : A -> B -> Prop) l ts : Forall2 R l ts -> List.length l = List.length ts.
Proof. induction 1 as [|v t l ts _ _ IH]; [reflexivity|]. cbn [length]. rewrite IH. reflexivity. Qed.

Lemma NoDup_nodup_strs l : NoDup l -> nodup_strs l = true.
Proof.
  induction 1 as [|x r Hx _ IH]; cbn [nodup_strs]; [reflexivity|].
  apply mem_str_false in Hx. rewrite Hx, IH. reflexivity.
Qed.

Lemma forallb_Forall_true {A} (g : A -> bool) l : Forall (fun t => g t = true) l -> forallb g l = true.
Proof. induction 1 as [|x r Hx _ IH]; cbn [forallb]; [reflexivity|]. rewrite Hx, IH. reflexivity. Qed.

(* a finite interval of integers as a table *)
Lemma range_table (P : Z -> bool) (lo : Z) (n : nat) :
  forallb P (map (fun i => (lo + Z.of_nat i)%Z) (seq 0 n)) = true ->
  forall z, (lo <= z < lo + Z.of_nat n)%Z -> P z = true.
Proof.
  intros H z Hz. rewrite forallb_forall in H.
  replace z with (lo + Z.of_nat (Z.to_nat (z - lo)))%Z by lia.
  apply H. apply in_map_iff. exists (Z.to_nat (z - lo)). split; [reflexivity|].
  apply in_seq. lia.
Qed.

(* ---------------------------------------------------------------- integers *)
Lemma dec_Z_nonneg_digits z : (0 <=? z)%Z = true -> g_digits 1 0 (dec_Z z) = true.
Proof.
  intros Hz. destruct z as [|p|p]; [reflexivity| |discriminate Hz].
  unfold dec_Z. change (Z.to_int (Z.pos p)) with (Decimal.Pos (Pos.to_uint p)). cbv iota beta.
  unfold g_digits. rewrite uint_str_digits. cbn [andb Nat.eqb orb].
  pose proof (uint_str_nonnil (Pos.to_uint p) (DecimalPos.Unsigned.to_uint_nonnil p)) as Hne.
  destruct (uint_str (Pos.to_uint p)); [contradiction|reflexivity].
Qed.

Lemma digits12_table :
  forallb (fun z => g_digits 1 2 (dec_Z z)) (map (fun i => (0 + Z.of_nat i)%Z) (seq 0 100)) = true.
Proof. vm_compute. reflexivity. Qed.
Lemma digits12 z : (0 <= z <= 99)%Z -> g_digits 1 2 (dec_Z z) = true.
Proof. intros H. apply (range_table _ _ _ digits12_table). lia. Qed.

Lemma signed12_table :
  forallb (fun z => g_signed 1 2 (dec_Z z)) (map (fun i => (-99 + Z.of_nat i)%Z) (seq 0 199)) = true.
Proof. vm_compute. reflexivity. Qed.
Lemma signed12 z : (-99 <= z <= 99)%Z -> g_signed 1 2 (dec_Z z) = true.
Proof. intros H. apply (range_table _ _ _ signed12_table). lia. Qed.

Lemma signed13_table :
  forallb (fun z => g_signed 1 3 (dec_Z z)) (map (fun i => (-999 + Z.of_nat i)%Z) (seq 0 1999)) = true.
Proof. vm_compute. reflexivity. Qed.
Lemma signed13 z : (-999 <= z <= 999)%Z -> g_signed 1 3 (dec_Z z) = true.
Proof. intros H. apply (range_table _ _ _ signed13_table). lia. Qed.

Lemma month_int_table :
  forallb (fun z => g_month (vmonth_str z false) && g_month (vmonth_str z true))
          (map (fun i => (0 + Z.of_nat i)%Z) (seq 0 100)) = true.
Proof. vm_compute. reflexivity. Qed.
Lemma month_int z l : (0 <= z <= 99)%Z -> g_month (vmonth_str z l) = true.
Proof.
  intros H. pose proof (range_table _ _ _ month_int_table z ltac:(lia)) as Ht. cbv beta in Ht.
  apply andb_true_iff in Ht. destruct l; tauto.
Qed.

Lemma in_range_spec lo hi z : in_range lo hi z = true -> (lo <= z <= hi)%Z.
Proof. unfold in_range. lia. Qed.
Lemma signed_range_spec hi z : signed_range hi z = true -> (- hi <= z <= hi)%Z.
Proof. unfold signed_range, in_range. lia. Qed.

(* what an integer-typed part can hold inside the round-trip domain *)
Lemma tint_case v t : val_ok TInt v = true -> enc_val TInt v = Ok t ->
  (exists z, v = RInt z /\ t = dec_Z z) \/ (exists m l, v = RMonth m l).
Proof.
  intros Hv He. destruct v as [z|m l|s|y m d|y m d h mi s u].
  - left. exists z. cbn in He. inversion He. split; reflexivity.
  - right. exists m, l. reflexivity.
  - exfalso. unfold val_ok in Hv. destruct (enc_val TInt (RStr s)) as [e| | |]; try discriminate.
    cbn [dec_val canon_val] in Hv. destruct (py_int e) as [z| | |]; cbn [bind rv_eqb] in Hv;
      rewrite ?andb_false_r in Hv; discriminate.
  - discriminate He.
  - discriminate He.
Qed.

(* ---------------------------------------------------------------- BYMONTH given as text *)
Definition digit_chars : list N := [48; 49; 50; 51; 52; 53; 54; 55; 56; 57].
Definition digit_texts12 : list str :=
  map (fun a => [a]) digit_chars ++ flat_map (fun a => map (fun b => [a; b]) digit_chars) digit_chars.

Lemma is_digit_In c : is_digit c = true -> In c digit_chars.
Proof.
  unfold is_digit. intros H.
  assert (c = 48 \/ c = 49 \/ c = 50 \/ c = 51 \/ c = 52 \/ c = 53 \/ c = 54 \/ c = 55 \/ c = 56 \/ c = 57) as Hc by lia.
  unfold digit_chars. cbn [In]. intuition congruence.
Qed.

Lemma digits12_In s : g_digits 1 2 s = true -> In s digit_texts12.
Proof.
  unfold g_digits. destruct s as [|a [|b [|c r]]]; cbn [forallb length Nat.leb Nat.eqb orb andb];
    rewrite ?andb_false_r; try discriminate; intros H.
  - rewrite !andb_true_r in H. apply is_digit_In in H.
    unfold digit_texts12. apply in_or_app. left. apply (in_map (fun x => [x])). exact H.
  - rewrite !andb_true_r in H. apply andb_true_iff in H. destruct H as [Ha Hb].
    apply is_digit_In in Ha, Hb. unfold digit_texts12. apply in_or_app. right.
    apply in_flat_map. exists a. split; [exact Ha|]. apply (in_map (fun x => [a; x])). exact Hb.
Qed.

Definition enc_accepted (t : vtype) (g : str -> bool) (v : rv) : bool :=
  match enc_val t v with Ok e => g e | _ => true end.

Lemma month_text_table :
  forallb (fun s => enc_accepted TMonth g_month (RStr s) && enc_accepted TMonth g_month (RStr (s ++ [76])))
          digit_texts12 = true
  /\ List.length digit_texts12 = 110%nat.
Proof. vm_compute. split; reflexivity. Qed.

Lemma month_text s t : g_month s = true -> enc_val TMonth (RStr s) = Ok t -> g_month t = true.
Proof.
  intros Hg He. unfold g_month in Hg. apply orb_true_iff in Hg.
  pose proof (proj1 (forallb_forall _ _) (proj1 month_text_table)) as Ht.
  destruct Hg as [Hg|Hg].
  - apply digits12_In in Hg. specialize (Ht s Hg). cbv beta in Ht. apply andb_true_iff in Ht.
    destruct Ht as [Ht _]. unfold enc_accepted in Ht. rewrite He in Ht. exact Ht.
  - destruct (rev s) as [|c r] eqn:Er; [discriminate|]. apply andb_true_iff in Hg. destruct Hg as [Hc Hg].
    apply N.eqb_eq in Hc. subst c.
    assert (Hs : s = rev r ++ [76]) by (rewrite <- (rev_involutive s), Er; reflexivity).
    apply digits12_In in Hg. specialize (Ht (rev r) Hg). cbv beta in Ht. apply andb_true_iff in Ht.
    destruct Ht as [_ Ht]. unfold enc_accepted in Ht. rewrite <- Hs, He in Ht. exact Ht.
Qed.

(* ---------------------------------------------------------------- weekday, frequency, skip *)
Lemma vweekday_same s s' : vweekday s = Ok s' -> s' = s.
Proof.
  unfold vweekday. destruct (weekday_match s) as [[[a b] c]|]; [|discriminate].
  destruct (dict_mem (upper c) weekday_table); [|discriminate]. intros H. inversion H. reflexivity.
Qed.

Lemma enc_weekday s t : enc_val TWeekday (RStr s) = Ok t -> t = upper s.
Proof.
  cbn [enc_val]. destruct (vweekday s) as [s'| | |] eqn:E; cbn [bind]; try discriminate.
  apply vweekday_same in E. subst s'. intros H. inversion H. reflexivity.
Qed.

Lemma enc_freq s t : enc_val TFreq (RStr s) = Ok t -> mem_str t rfc_freqs = true.
Proof.
  cbn [enc_val]. unfold vfrequency. destruct (mem_str (upper s) frequency_names) eqn:E; cbn [bind]; [|discriminate].
  intros H. inversion H. subst t. apply mem_str_In in E.
  destruct tables_match_rfc as [T _]. exact (proj1 (forallb_forall _ _) T _ E).
Qed.

Lemma skip_enc_table : forallb (fun s => mem_str (escape_char s) rfc_skips) skip_values = true.
Proof. vm_compute. reflexivity. Qed.

Lemma enc_skip s t : enc_val TSkip (RStr s) = Ok t -> mem_str t rfc_skips = true.
Proof.
  cbn [enc_val]. unfold vskip. destruct (mem_str s skip_values) eqn:E; cbn [bind]; [|discriminate].
  intros H. inversion H. subst t. apply mem_str_In in E.
  exact (proj1 (forallb_forall _ _) skip_enc_table _ E).
Qed.

(* ---------------------------------------------------------------- RSCALE: vText leaves a token as it is *)
Lemma py_replace_absent a pat rep : forall s, mem_chr a s = false -> py_replace_aux (a :: pat) rep 0 s = s.
Proof.
  induction s as [|c r IH]; [reflexivity|]. cbn [mem_chr]. intros H. apply orb_false_iff in H. destruct H as [H1 H2].
  cbn [py_replace_aux is_prefix]. rewrite H1. cbn [andb]. rewrite (IH H2). reflexivity.
Qed.

Lemma token_char_plain c : is_token_char c = true ->
  (92 =? c) = false /\ (13 =? c) = false /\ (c =? 92) = false /\ (c =? 59) = false /\ (c =? 44) = false /\ (c =? 10) = false.
Proof. unfold is_token_char, is_lower, is_upper, is_digit. intros H. lia. Qed.

Lemma token_no c s : forallb is_token_char s = true -> is_token_char c = false -> mem_chr c s = false.
Proof.
  induction s as [|x r IH]; cbn [forallb mem_chr]; [reflexivity|]. rewrite andb_true_iff. intros [H1 H2] Hc.
  rewrite (IH H2 Hc), orb_false_r. apply N.eqb_neq. intros ->. congruence.
Qed.

Lemma esc_map_token s : forallb is_token_char s = true -> flat_map esc_map s = s.
Proof.
  induction s as [|c r IH]; cbn [forallb flat_map]; [reflexivity|]. rewrite andb_true_iff. intros [H1 H2].
  destruct (token_char_plain c H1) as [_ [_ [E1 [E2 [E3 E4]]]]]. rewrite (IH H2). unfold esc_map. rewrite E1, E2, E3, E4. reflexivity.
Qed.

Lemma escape_char_token s : forallb is_token_char s = true -> escape_char s = s.
Proof.
  intros H. rewrite escape_char_spec, perchar_map.
  assert (Hn : norm s = s).
  { unfold norm, norm_chain, seq_run. cbn [fold_left].
    rewrite !stage_run_py_replace by discriminate. unfold py_replace.
    rewrite (py_replace_absent 92) by (apply token_no; [exact H|reflexivity]).
    rewrite (py_replace_absent 13) by (apply token_no; [exact H|reflexivity]). reflexivity. }
  rewrite Hn. apply esc_map_token. exact H.
Qed.

Lemma enc_token s t : is_token s = true -> enc_val TText (RStr s) = Ok t -> is_token t = true.
Proof.
  intros Ht He. cbn [enc_val] in He. inversion He. subst t.
  assert (H : forallb is_token_char s = true) by (destruct s; [discriminate Ht|exact Ht]).
  rewrite (escape_char_token s H). exact Ht.
Qed.

(* ---------------------------------------------------------------- UNTIL: a text that vDDDTypes reads back is digits *)
Lemma num_of_digits s n : num_of s = Ok n -> forallb is_digit s = true.
Proof.
  unfold num_of. destruct (existsb _ s); [discriminate|]. destruct s as [|c r]; [discriminate|].
  destruct (forallb is_digit (c :: r)); [reflexivity|discriminate].
Qed.

Ltac num_fields :=
  repeat match goal with
         | |- context [bind (num_of ?l) _] =>
             let E := fresh "E" in
             destruct (num_of l) eqn:E; cbn [bind]; try discriminate; apply num_of_digits in E
         end.

Ltac digits_close :=
  cbn [forallb] in *;
  repeat match goal with H : _ && _ = true |- _ => apply andb_true_iff in H; destruct H end;
  repeat match goal with H : is_digit _ = true |- _ => rewrite H; clear H end;
  reflexivity.

Lemma vddd_date_digits a1 a2 a3 a4 a5 a6 a7 a8 v :
  vddd_from_ical [a1; a2; a3; a4; a5; a6; a7; a8] = Ok v ->
  forallb is_digit [a1; a2; a3; a4; a5; a6; a7; a8] = true.
Proof.
  unfold vddd_from_ical. set (u := upper _).
  destruct (starts_with [80] u || starts_with [45; 80] u || starts_with [43; 80] u); [discriminate|].
  destruct (mem_chr 47 u); [discriminate|]. clear u.
  cbn [length Nat.eqb orb]. unfold vdate_from_ical, slice. cbn [Nat.sub skipn firstn].
  num_fields. intros _. digits_close.
Qed.

Lemma vddd_datetime_digits a1 a2 a3 a4 a5 a6 a7 a8 t b1 b2 b3 b4 b5 b6 tl v :
  tl = [] \/ (exists z, tl = [z]) ->
  vddd_from_ical ([a1; a2; a3; a4; a5; a6; a7; a8; t; b1; b2; b3; b4; b5; b6] ++ tl) = Ok v ->
  forallb is_digit [a1; a2; a3; a4; a5; a6; a7; a8] = true /\ forallb is_digit [b1; b2; b3; b4; b5; b6] = true.
Proof.
  intros Htl. unfold vddd_from_ical. set (u := upper _).
  destruct (starts_with [80] u || starts_with [45; 80] u || starts_with [43; 80] u); [discriminate|].
  destruct (mem_chr 47 u); [discriminate|]. clear u.
  destruct Htl as [->|[z ->]]; cbn [app length Nat.eqb orb]; unfold vdatetime_from_ical, slice;
    cbn [Nat.sub skipn firstn]; num_fields; intros _; split; digits_close.
Qed.

Lemma g_until_date a1 a2 a3 a4 a5 a6 a7 a8 :
  forallb is_digit [a1; a2; a3; a4; a5; a6; a7; a8] = true -> g_until [a1; a2; a3; a4; a5; a6; a7; a8] = true.
Proof.
  intros H. unfold g_until, g_digits. cbn [length Nat.eqb Nat.leb orb]. digits_close.
Qed.

Lemma g_until_datetime a1 a2 a3 a4 a5 a6 a7 a8 b1 b2 b3 b4 b5 b6 tl :
  tl = [] \/ tl = [90] ->
  forallb is_digit [a1; a2; a3; a4; a5; a6; a7; a8] = true -> forallb is_digit [b1; b2; b3; b4; b5; b6] = true ->
  g_until ([a1; a2; a3; a4; a5; a6; a7; a8; 84; b1; b2; b3; b4; b5; b6] ++ tl) = true.
Proof.
  intros Htl H1 H2. unfold g_until, g_digits, slice.
  destruct Htl as [->| ->]; cbn [app length Nat.eqb Nat.leb orb Nat.sub skipn firstn]; digits_close.
Qed.

Lemma val_ok_decodes t v : val_ok t v = true -> exists s v', enc_val t v = Ok s /\ dec_val t s = Ok v'.
Proof.
  intros H. destruct (val_ok_spec t v H) as [s [E1 [_ [E2 _]]]]. exists s, (canon_val t v). split; assumption.
Qed.

Lemma enc_until v t : val_ok TUntil v = true -> enc_val TUntil v = Ok t -> g_until t = true.
Proof.
  intros Hv He. destruct (val_ok_decodes _ _ Hv) as [s [v' [E1 E2]]]. rewrite He in E1. inversion E1. subst s. clear E1.
  cbn [dec_val] in E2. destruct v as [z|m l|s|y m d|y m d h mi s u]; try discriminate He.
  - cbn [enc_val] in He. inversion He. subst t. clear He.
    unfold date_str, pad4, pad2 in *. cbn [app] in *.
    apply g_until_date. eapply vddd_date_digits. exact E2.
  - cbn [enc_val] in He. inversion He. subst t. clear He.
    unfold datetime_str, date_str, pad4, pad2 in *. cbn [app] in E2 |- *.
    match goal with |- g_until (?a1 :: ?a2 :: ?a3 :: ?a4 :: ?a5 :: ?a6 :: ?a7 :: ?a8 :: 84 :: ?b1 :: ?b2 :: ?b3 :: ?b4 :: ?b5 :: ?b6 :: ?tl) = true =>
      change (g_until ([a1; a2; a3; a4; a5; a6; a7; a8; 84; b1; b2; b3; b4; b5; b6] ++ tl) = true);
      change (vddd_from_ical ([a1; a2; a3; a4; a5; a6; a7; a8; 84; b1; b2; b3; b4; b5; b6] ++ tl) = Ok v') in E2;
      destruct (vddd_datetime_digits a1 a2 a3 a4 a5 a6 a7 a8 84 b1 b2 b3 b4 b5 b6 tl v') as [D1 D2];
      [destruct u; [right; eexists; reflexivity|left; reflexivity]|exact E2|];
      apply g_until_datetime; [destruct u; [right|left]; reflexivity|exact D1|exact D2]
    end.
Qed.

(* ---------------------------------------------------------------- one value of one part *)
(* the recogniser of ONE list element of the part [name]: what [g_value] asks of each element *)
Definition g_elem (name t : str) : bool :=
  if str_eqb name (s2l "FREQ") then mem_str t rfc_freqs
  else if str_eqb name (s2l "UNTIL") then g_until t
  else if str_eqb name (s2l "COUNT") then g_digits 1 0 t
  else if str_eqb name (s2l "INTERVAL") then g_digits 1 0 t
  else if str_eqb name (s2l "BYSECOND") then g_digits 1 2 t
  else if str_eqb name (s2l "BYMINUTE") then g_digits 1 2 t
  else if str_eqb name (s2l "BYHOUR") then g_digits 1 2 t
  else if str_eqb name (s2l "BYDAY") then g_weekdaynum t
  else if str_eqb name (s2l "BYMONTHDAY") then g_signed 1 2 t
  else if str_eqb name (s2l "BYYEARDAY") then g_signed 1 3 t
  else if str_eqb name (s2l "BYWEEKNO") then g_signed 1 2 t
  else if str_eqb name (s2l "BYMONTH") then g_month t
  else if str_eqb name (s2l "BYSETPOS") then g_signed 1 3 t
  else if str_eqb name (s2l "WKST") then mem_str t rfc_weekdays
  else if str_eqb name (s2l "RSCALE") then is_token t
  else if str_eqb name (s2l "SKIP") then mem_str t rfc_skips
  else false.

(* the names a rule inside the guard can carry: the generated canonical order without BYWEEKDAY *)
Lemma order_cases k : mem_str k recur_canonical_order = true -> str_eqb k (s2l "BYWEEKDAY") = false ->
  k = s2l "RSCALE" \/ k = s2l "FREQ" \/ k = s2l "UNTIL" \/ k = s2l "COUNT" \/ k = s2l "INTERVAL"
  \/ k = s2l "BYSECOND" \/ k = s2l "BYMINUTE" \/ k = s2l "BYHOUR" \/ k = s2l "BYDAY" \/ k = s2l "BYMONTHDAY"
  \/ k = s2l "BYYEARDAY" \/ k = s2l "BYWEEKNO" \/ k = s2l "BYMONTH" \/ k = s2l "BYSETPOS" \/ k = s2l "WKST"
  \/ k = s2l "SKIP".
Proof.
  intros Hk Hb. apply mem_str_In in Hk. apply seqb_neq in Hb.
  unfold recur_canonical_order in Hk. cbn [In] in Hk.
  repeat (destruct Hk as [Hk|Hk]; [symmetry in Hk; first [exfalso; apply Hb; exact Hk | tauto]|]).
  destruct Hk.
Qed.

Ltac int_part Hv He Hr z :=
  change (vtype_for _) with TInt in Hv, He;
  let m := fresh "m" in let l := fresh "l" in
  destruct (tint_case _ _ Hv He) as [[z [-> ->]]|[m [l ->]]];
  [|exfalso; exact (diff_false_true Hr)].

Lemma val_grammar k v t :
  mem_str k recur_canonical_order = true -> str_eqb k (s2l "BYWEEKDAY") = false ->
  val_ok (vtype_for k) v = true -> rfc_val_ok k v = true -> enc_val (vtype_for k) v = Ok t ->
  g_elem k t = true.
Proof.
  intros Hk Hb Hv Hr He.
  destruct (order_cases k Hk Hb) as [->|[->|[->|[->|[->|[->|[->|[->|[->|[->|[->|[->|[->|[->|[->| ->]]]]]]]]]]]]]]].
  - (* RSCALE *)
    change (vtype_for _) with TText in Hv, He. change (is_token t = true).
    destruct v as [z|m l|s|y m d|y m d h mi s u]; try discriminate He.
    exact (enc_token s t Hr He).
  - (* FREQ *)
    change (vtype_for _) with TFreq in Hv, He. change (mem_str t rfc_freqs = true).
    destruct v as [z|m l|s|y m d|y m d h mi s u]; try discriminate He.
    exact (enc_freq s t He).
  - (* UNTIL *)
    change (vtype_for _) with TUntil in Hv, He. change (g_until t = true).
    exact (enc_until v t Hv He).
  - (* COUNT *)
    int_part Hv He Hr z. change (g_digits 1 0 (dec_Z z) = true). apply dec_Z_nonneg_digits. exact Hr.
  - (* INTERVAL *)
    int_part Hv He Hr z. change (g_digits 1 0 (dec_Z z) = true). apply dec_Z_nonneg_digits. exact Hr.
  - (* BYSECOND *)
    int_part Hv He Hr z. change (g_digits 1 2 (dec_Z z) = true). apply digits12.
    change (in_range 0 60 z = true) in Hr. apply in_range_spec in Hr. lia.
  - (* BYMINUTE *)
    int_part Hv He Hr z. change (g_digits 1 2 (dec_Z z) = true). apply digits12.
    change (in_range 0 59 z = true) in Hr. apply in_range_spec in Hr. lia.
  - (* BYHOUR *)
    int_part Hv He Hr z. change (g_digits 1 2 (dec_Z z) = true). apply digits12.
    change (in_range 0 23 z = true) in Hr. apply in_range_spec in Hr. lia.
  - (* BYDAY *)
    change (vtype_for _) with TWeekday in Hv, He. change (g_weekdaynum t = true).
    destruct v as [z|m l|s|y m d|y m d h mi s u]; try discriminate He.
    rewrite (enc_weekday s t He). exact Hr.
  - (* BYMONTHDAY *)
    int_part Hv He Hr z. change (g_signed 1 2 (dec_Z z) = true). apply signed12.
    change (signed_range 31 z = true) in Hr. apply signed_range_spec in Hr. lia.
  - (* BYYEARDAY *)
    int_part Hv He Hr z. change (g_signed 1 3 (dec_Z z) = true). apply signed13.
    change (signed_range 366 z = true) in Hr. apply signed_range_spec in Hr. lia.
  - (* BYWEEKNO *)
    int_part Hv He Hr z. change (g_signed 1 2 (dec_Z z) = true). apply signed12.
    change (signed_range 53 z = true) in Hr. apply signed_range_spec in Hr. lia.
  - (* BYMONTH *)
    change (vtype_for _) with TMonth in Hv, He. change (g_month t = true).
    destruct v as [z|m l|s|y m d|y m d h mi s u]; try discriminate He.
    + cbn [enc_val] in He. inversion He. apply month_int.
      change (in_range 1 13 z = true) in Hr. apply in_range_spec in Hr. lia.
    + cbn [enc_val] in He. inversion He. apply month_int.
      change (in_range 1 13 m = true) in Hr. apply in_range_spec in Hr. lia.
    + exact (month_text s t Hr He).
  - (* BYSETPOS *)
    int_part Hv He Hr z. change (g_signed 1 3 (dec_Z z) = true). apply signed13.
    change (signed_range 366 z = true) in Hr. apply signed_range_spec in Hr. lia.
  - (* WKST *)
    change (vtype_for _) with TWeekday in Hv, He. change (mem_str t rfc_weekdays = true).
    destruct v as [z|m l|s|y m d|y m d h mi s u]; try discriminate He.
    rewrite (enc_weekday s t He). exact Hr.
  - (* SKIP *)
    change (vtype_for _) with TSkip in Hv, He. change (mem_str t rfc_skips = true).
    destruct v as [z|m l|s|y m d|y m d h mi s u]; try discriminate He.
    exact (enc_skip s t He).
Qed.

(* ---------------------------------------------------------------- one part: NAME=v1,v2,... *)
Lemma g_list_join g ts : ts <> [] -> Forall (fun p => mem_chr 44 p = false) ts ->
  Forall (fun t => g t = true) ts -> g_list g (join_chr 44 ts) = true.
Proof.
  intros Hne H44 Hg. unfold g_list. rewrite split_join by assumption. apply forallb_Forall_true. exact Hg.
Qed.

Ltac single_part Hs He :=
  let t := fresh "t" in
  match type of He with Forall _ ?ts =>
    destruct ts as [|t [|? ?]]; [discriminate (Hs eq_refl)| |discriminate (Hs eq_refl)];
    inversion He as [|? ? Ht ?]; subst; exact Ht
  end.

Lemma g_value_join k ts :
  mem_str k recur_canonical_order = true -> str_eqb k (s2l "BYWEEKDAY") = false ->
  ts <> [] -> Forall (fun p => mem_chr 44 p = false) ts ->
  (single_valued k = true -> List.length ts = 1%nat) ->
  Forall (fun t => g_elem k t = true) ts ->
  g_value k (join_chr 44 ts) = true.
Proof.
  intros Hk Hb Hne H44 Hs He.
  destruct (order_cases k Hk Hb) as [->|[->|[->|[->|[->|[->|[->|[->|[->|[->|[->|[->|[->|[->|[->| ->]]]]]]]]]]]]]]].
  - single_part Hs He.
  - single_part Hs He.
  - single_part Hs He.
  - single_part Hs He.
  - single_part Hs He.
  - exact (g_list_join (g_digits 1 2) ts Hne H44 He).
  - exact (g_list_join (g_digits 1 2) ts Hne H44 He).
  - exact (g_list_join (g_digits 1 2) ts Hne H44 He).
  - exact (g_list_join g_weekdaynum ts Hne H44 He).
  - exact (g_list_join (g_signed 1 2) ts Hne H44 He).
  - exact (g_list_join (g_signed 1 3) ts Hne H44 He).
  - exact (g_list_join (g_signed 1 2) ts Hne H44 He).
  - exact (g_list_join g_month ts Hne H44 He).
  - exact (g_list_join (g_signed 1 3) ts Hne H44 He).
  - single_part Hs He.
  - single_part Hs He.
Qed.

Lemma part_grammar d k vals p :
  dict_get k d = Some vals -> part_ok (k, vals) = true -> rfc_part_ok (k, vals) = true ->
  enc_part d k = Ok p -> g_part p = Some k /\ mem_chr 59 p = false.
Proof.
  intros Hget Hok Hrfc Henc. unfold part_ok in Hok. cbn [fst snd] in Hok.
  apply andb_true_iff in Hok. destruct Hok as [Hk Hv].
  unfold rfc_part_ok in Hrfc. cbn [fst snd] in Hrfc.
  apply andb_true_iff in Hrfc. destruct Hrfc as [Hrfc Hsingle].
  apply andb_true_iff in Hrfc. destruct Hrfc as [Hb Hvals]. apply negb_true_iff in Hb.
  destruct (in_order_facts k Hk) as [Hks Hku].
  destruct (no_sep_parts k Hks) as [_ [Hk59 Hk61]].
  assert (Hne : vals_list vals <> []) by (destruct (vals_list vals); [discriminate|discriminate]).
  assert (Hall : forallb (val_ok (vtype_for k)) (vals_list vals) = true)
    by (destruct (vals_list vals); [discriminate|exact Hv]).
  destruct (map_res_enc _ _ Hall) as [ts [F1 [F2 [_ [_ F5]]]]].
  assert (T44 : Forall (fun s => mem_chr 44 s = false) ts)
    by (eapply Forall_impl; [|exact F2]; intros s Hs; apply no_sep_parts in Hs; tauto).
  assert (T59 : Forall (fun s => mem_chr 59 s = false) ts)
    by (eapply Forall_impl; [|exact F2]; intros s Hs; apply no_sep_parts in Hs; tauto).
  assert (T61 : Forall (fun s => mem_chr 61 s = false) ts)
    by (eapply Forall_impl; [|exact F2]; intros s Hs; apply no_sep_parts in Hs; tauto).
  unfold enc_part in Henc. rewrite Hget in Henc. cbv beta iota in Henc. rewrite F1 in Henc. cbn [bind] in Henc.
  inversion Henc. subst p. clear Henc.
  pose proof (map_res_Forall2 _ _ _ F1) as HF2.
  assert (Helem : Forall (fun t => g_elem k t = true) ts).
  { apply (Forall2_transfer _ _ _ _ HF2). intros v t Hin He.
    apply (val_grammar k v t Hk Hb).
    - exact (proj1 (forallb_forall _ _) Hall v Hin).
    - exact (proj1 (forallb_forall _ _) Hvals v Hin).
    - exact He. }
  split.
  - unfold g_part. rewrite split_app by exact Hk61.
    rewrite split_nosep by (apply mem_chr_join; [reflexivity|exact T61]).
    rewrite (g_value_join k ts Hk Hb (F5 Hne) T44); [reflexivity| |exact Helem].
    intros Hsv. rewrite Hsv in Hsingle. cbn [negb orb] in Hsingle. apply Nat.eqb_eq in Hsingle.
    rewrite <- (Forall2_same_length _ _ _ HF2). exact Hsingle.
  - rewrite mem_chr_app. cbn [mem_chr]. rewrite Hk59.
    rewrite (mem_chr_join 59 44 ts) by (reflexivity || exact T59). reflexivity.
Qed.

(* ---------------------------------------------------------------- all parts *)
Lemma parts_grammar d : forall ks parts,
  (forall k, In k ks -> exists vals, dict_get k d = Some vals /\ part_ok (k, vals) = true /\ rfc_part_ok (k, vals) = true) ->
  map_res (enc_part d) ks = Ok parts ->
  all_some (map g_part parts) = Some ks /\ Forall (fun p => mem_chr 59 p = false) parts /\ (ks <> [] -> parts <> []).
Proof.
  induction ks as [|k r IH]; intros parts Hall H; cbn [map_res] in H.
  - inversion H. cbn. repeat split; try constructor. intros X. exfalso. apply X. reflexivity.
  - destruct (enc_part d k) as [p| | |] eqn:E; cbn [bind] in H; try discriminate.
    destruct (map_res (enc_part d) r) as [ps| | |] eqn:E'; cbn [bind] in H; try discriminate.
    inversion H. subst parts. clear H.
    destruct (Hall k (or_introl eq_refl)) as [vals [Hget [Hok Hrfc]]].
    destruct (part_grammar d k vals p Hget Hok Hrfc E) as [G1 G2].
    destruct (IH ps (fun k' Hk' => Hall k' (or_intror Hk')) eq_refl) as [I1 [I2 _]].
    cbn [map all_some]. rewrite G1, I1. split; [reflexivity|]. split; [constructor; assumption|discriminate].
Qed.

Lemma keys_rfc_parts d k : rule_ok d = true -> forallb rfc_part_ok d = true -> In k (keys d) ->
  exists vals, dict_get k d = Some vals /\ part_ok (k, vals) = true /\ rfc_part_ok (k, vals) = true.
Proof.
  intros Hok Hrfc Hin. destruct (dict_get k d) as [vals|] eqn:E.
  - exists vals. split; [reflexivity|]. apply dict_get_In in E. split.
    + exact (proj1 (forallb_forall _ _) Hok _ E).
    + exact (proj1 (forallb_forall _ _) Hrfc _ E).
  - apply dict_get_none in E. contradiction.
Qed.

Lemma mem_str_perm x ks ks' : Permutation ks ks' -> mem_str x ks = mem_str x ks'.
Proof.
  intros Hp. apply eq_true_iff_eq. rewrite !mem_str_In. split; intros H.
  - eapply Permutation_in; eassumption.
  - eapply Permutation_in; [apply Permutation_sym; exact Hp|exact H].
Qed.

Lemma dict_mem_keys {V} x (d : list (str * V)) : dict_mem x d = mem_str x (keys d).
Proof. apply eq_true_iff_eq. rewrite mem_str_In. apply dict_mem_in. Qed.

(* ---------------------------------------------------------------- the grammar theorem *)
Lemma recur_grammar_dict d txt : NoDup (keys d) -> rfc_rule_ok d = true ->
  recur_to_ical d = Ok txt -> recur_grammar txt = true.
Proof.
  intros Hnd Hg Henc. unfold rfc_rule_ok in Hg.
  apply andb_true_iff in Hg. destruct Hg as [Hg Hcu].
  apply andb_true_iff in Hg. destruct Hg as [Hg Hfreq].
  apply andb_true_iff in Hg. destruct Hg as [Hok Hrfc].
  pose proof (canonsort_perm (keys d) recur_canonical_order) as Hp.
  destruct (sorted_keys_facts d Hnd) as [Hks [Hin _]].
  apply dict_mem_in in Hfreq.
  destruct (freq_first_keys (keys d) Hnd Hfreq) as [rest Hhead].
  set (ks := canonsort_keys (keys d) recur_canonical_order) in *.
  unfold recur_to_ical in Henc. fold ks in Henc.
  destruct (map_res (enc_part d) ks) as [parts| | |] eqn:E; cbn [bind] in Henc; try discriminate.
  inversion Henc. subst txt. clear Henc.
  destruct (parts_grammar d ks parts) as [G1 [G2 G3]].
  - intros k Hk. apply keys_rfc_parts; [exact Hok|exact Hrfc|apply Hin; exact Hk].
  - exact E.
  - assert (Hne : ks <> []) by (destruct Hhead as [Hh|Hh]; rewrite Hh; discriminate).
    unfold recur_grammar. rewrite split_join by (apply G3; exact Hne) || exact G2. rewrite G1.
    rewrite (NoDup_nodup_strs ks Hks).
    rewrite !(mem_str_perm _ ks (keys d) Hp), <- !dict_mem_keys. rewrite Hcu. cbn [andb].
    destruct Hhead as [Hh|Hh]; rewrite Hh; reflexivity.
Qed.

Theorem recur_grammar_accepts : forall (items : list (key * rvals)) txt,
  rfc_rule_ok (recur_new items) = true ->
  recur_to_ical (recur_new items) = Ok txt ->
  recur_grammar txt = true.
Proof. intros items txt. apply recur_grammar_dict. apply recur_new_nodup. Qed.
