(* Proofs about Model/Contentline.v (property C05): Contentline.parts inverts
   Contentline.from_parts on the parameter section for EVERY value text, and on the value text
   itself up to the placeholder round trip. *)
Require Import Lib.Base Lib.Chain Gen.Gen_parser Model.Text Model.Params Model.Fold Model.Contentline.
Require Import Proofs.ChainProofs Proofs.ReplaceProofs Proofs.ParamsProofs.
From Coq Require Import Lia Arith Permutation.

(* ------------------------------------------------------------------ replace does nothing without an occurrence *)
Lemma py_replace_aux_id pat rep : forall s, has_sub pat s = false -> py_replace_aux pat rep 0 s = s.
Proof.
  induction s as [|c s IH]; intros H; [reflexivity|].
  cbn [has_sub] in H. apply orb_false_iff in H. destruct H as [H1 H2].
  cbn [py_replace_aux]. rewrite H1. f_equal. apply IH. exact H2.
Qed.

Definition pats_nonempty (ch : chain) : bool := forallb (fun st : stage => nonempty_b (fst st)) ch.

Lemma pats_nonempty_Forall ch : pats_nonempty ch = true -> Forall (fun st : stage => fst st <> []) ch.
Proof.
  unfold pats_nonempty. rewrite forallb_forall. intros H. apply Forall_forall. intros st Hst.
  specialize (H st Hst). destruct (fst st); [discriminate|discriminate].
Qed.

Lemma seq_run_id : forall ch w, pats_nonempty ch = true -> avoids (map fst ch) w = true -> seq_run ch w = w.
Proof.
  induction ch as [|[pat rep] ch IH]; intros w Hne Hav; [reflexivity|].
  unfold pats_nonempty in Hne. cbn [forallb fst] in Hne. apply andb_true_iff in Hne. destruct Hne as [Hp Hne].
  unfold avoids in Hav. cbn [map forallb fst] in Hav. apply andb_true_iff in Hav. destruct Hav as [Hs Hav].
  apply negb_true_iff in Hs.
  unfold seq_run. cbn [fold_left]. rewrite stage_run_py_replace by (destruct pat; [discriminate|discriminate]).
  unfold py_replace. rewrite (py_replace_aux_id pat rep w Hs). apply IH; assumption.
Qed.

Lemma has_sub_hd a f : forall w, has_sub (a :: f) w = true -> mem_chr a w = true.
Proof.
  induction w as [|c w IH]; cbn [has_sub is_prefix mem_chr]; intros H.
  - discriminate.
  - rewrite orb_false_r in H || idtac. apply orb_true_iff in H. destruct H as [H|H].
    + apply andb_true_iff in H. destruct H as [H _]. rewrite H. reflexivity.
    + rewrite (IH H). apply orb_true_r.
Qed.

(* a string without the first character of any pattern avoids them all *)
Lemma avoids_no_first (forb : list (list N)) w :
  forallb (fun f => match f with a :: _ => no_chr a w | [] => false end) forb = true -> avoids forb w = true.
Proof.
  unfold avoids. rewrite !forallb_forall. intros H f Hf. specialize (H f Hf).
  destruct f as [|a f]; [discriminate|]. apply negb_true_iff.
  destruct (has_sub (a :: f) w) eqn:E; [|reflexivity].
  apply has_sub_hd in E. unfold no_chr in H. rewrite E in H. discriminate.
Qed.

(* ------------------------------------------------------------------ a clean head passes through unchanged *)
Definition nostart (pat h w : list N) : Prop :=
  forall h1 h2, h = h1 ++ h2 -> h2 <> [] -> is_prefix pat (h2 ++ w) = false.

Lemma aux_head pat rep w : forall h, nostart pat h w ->
  py_replace_aux pat rep 0 (h ++ w) = h ++ py_replace_aux pat rep 0 w.
Proof.
  induction h as [|x h IH]; intros Hn; [reflexivity|].
  pose proof (Hn [] (x :: h) eq_refl ltac:(discriminate)) as E. cbn [app] in E.
  cbn [app py_replace_aux]. rewrite E. f_equal.
  apply IH. intros h1 h2 He Hne. apply (Hn (x :: h1) h2); [rewrite He; reflexivity|exact Hne].
Qed.

Lemma is_prefix_app_short : forall pat h2 w, is_prefix pat (h2 ++ w) = true -> (length pat <= length h2)%nat ->
  is_prefix pat h2 = true.
Proof.
  induction pat as [|a pat IH]; intros h2 w H Hl; [reflexivity|].
  destruct h2 as [|b h2]; [cbn [length] in Hl; lia|].
  cbn [app is_prefix] in *. apply andb_true_iff in H. destruct H as [H1 H2]. rewrite H1. cbn [andb].
  apply (IH h2 w H2). cbn [length] in Hl. lia.
Qed.

Lemma mem_chr_app c a b : mem_chr c (a ++ b) = mem_chr c a || mem_chr c b.
Proof. induction a as [|x a IH]; [reflexivity|]. cbn [app mem_chr]. rewrite IH, orb_assoc. reflexivity. Qed.

Lemma removelast_app_cons (a : list N) y ys : removelast (a ++ y :: ys) = a ++ removelast (y :: ys).
Proof. apply removelast_app. discriminate. Qed.

Lemma nostart_of pat h c w : has_sub pat (h ++ [c]) = false -> mem_chr c (removelast pat) = false ->
  nostart pat (h ++ [c]) w.
Proof.
  intros Hs Hc h1 h2 He Hne.
  destruct (is_prefix pat (h2 ++ w)) eqn:E; [|reflexivity]. exfalso.
  destruct (le_lt_dec (length pat) (length h2)) as [Hl|Hl].
  - apply is_prefix_app_short in E; [|exact Hl]. apply is_prefix_spec in E. destruct E as [y Hy].
    assert (has_sub pat (h ++ [c]) = true) as Ht.
    { apply (has_sub_spec pat). exists h1, y. rewrite He, Hy. reflexivity. }
    congruence.
  - apply is_prefix_cut in E; [|lia]. apply is_prefix_spec in E. destruct E as [y Hy].
    destruct y as [|y0 ys]; [rewrite app_nil_r in Hy; subst pat; lia|].
    (* h2 is non-empty and ends with c *)
    assert (exists h2', h2 = h2' ++ [c]) as [h2' Hh2].
    { destruct (exists_last Hne) as (h2' & z & Hz). subst h2. rewrite app_assoc in He.
      apply app_inj_tail in He. destruct He as [_ <-]. exists h2'. reflexivity. }
    subst pat h2. rewrite removelast_app_cons, mem_chr_app, mem_chr_app in Hc.
    cbn [mem_chr] in Hc. rewrite N.eqb_refl in Hc. cbn in Hc. rewrite orb_true_r in Hc. discriminate.
Qed.

Definition head_ok (ch : chain) (h : list N) (c : N) : bool :=
  pats_nonempty ch && avoids (map fst ch) (h ++ [c])
  && forallb (fun st : stage => negb (mem_chr c (removelast (fst st)))) ch.

Lemma seq_run_head : forall ch h c w, head_ok ch h c = true ->
  seq_run ch ((h ++ [c]) ++ w) = (h ++ [c]) ++ seq_run ch w.
Proof.
  induction ch as [|[pat rep] ch IH]; intros h c w H; [reflexivity|].
  unfold head_ok in H. rewrite !andb_true_iff in H. destruct H as [[Hne Hav] Hc].
  unfold pats_nonempty in Hne. cbn [forallb fst] in Hne. apply andb_true_iff in Hne. destruct Hne as [Hp Hne].
  unfold avoids in Hav. cbn [map forallb fst] in Hav. apply andb_true_iff in Hav. destruct Hav as [Hs Hav].
  cbn [forallb fst] in Hc. apply andb_true_iff in Hc. destruct Hc as [Hc1 Hc].
  apply negb_true_iff in Hs, Hc1.
  assert (pat <> []) as Hpne by (destruct pat; [discriminate|discriminate]).
  unfold seq_run. cbn [fold_left]. rewrite !stage_run_py_replace by exact Hpne.
  unfold py_replace. rewrite (aux_head pat rep w (h ++ [c]) (nostart_of pat h c w Hs Hc1)).
  apply IH. unfold head_ok. rewrite !andb_true_iff. repeat split; assumption.
Qed.

(* obligations on the generated chains *)
Lemma esc_chain_colon : forallb (fun st : stage => negb (mem_chr 58 (removelast (fst st)))) escape_string_chain = true.
Proof. vm_compute. reflexivity. Qed.
Lemma esc_chain_nonempty : pats_nonempty escape_string_chain = true.
Proof. vm_compute. reflexivity. Qed.
Lemma unesc_chain_nonempty : pats_nonempty unescape_string_chain = true.
Proof. vm_compute. reflexivity. Qed.
Lemma unesc_chain_first : forallb (fun f : list N => match f with a :: _ => a =? 37 | [] => false end) forb_unesc = true.
Proof. vm_compute. reflexivity. Qed.

Lemma unescape_string_id w : avoids forb_unesc w = true -> unescape_string w = w.
Proof. intros H. apply seq_run_id; [exact unesc_chain_nonempty|exact H]. Qed.

Lemma unescape_string_nopct w : no_chr 37 w = true -> unescape_string w = w.
Proof.
  intros H. apply unescape_string_id. apply avoids_no_first.
  pose proof unesc_chain_first as F. rewrite forallb_forall in *. intros f Hf. specialize (F f Hf).
  destruct f as [|a f]; [discriminate|]. apply N.eqb_eq in F. subst a. exact H.
Qed.

(* ------------------------------------------------------------------ the scan of parts() *)
Definition nf (o : option nat) : Prop := falsy o = false.

Lemma scan_name : forall k i r, no_chr 58 k = true -> no_chr 59 k = true -> no_chr 34 k = true ->
  scan i false None None (k ++ r) = scan (i + length k) false None None r.
Proof.
  induction k as [|c k IH]; intros i r H58 H59 H34.
  - cbn [app length]. rewrite Nat.add_0_r. reflexivity.
  - apply no_chr_cons in H58, H59, H34. destruct H58 as [A1 A2]. destruct H59 as [B1 B2]. destruct H34 as [C1 C2].
    apply N.eqb_neq in A1, B1, C1. cbn [app scan length]. rewrite A1, B1, C1. cbn [orb andb negb].
    rewrite (IH (S i) r A2 B2 C2). f_equal. lia.
Qed.

Lemma scan_params : forall p i inq j ns r, nf ns -> qwalk (fun c => c =? 58) inq p = Some j ->
  scan i inq ns None (p ++ r) = scan (i + length p) j ns None r.
Proof.
  induction p as [|c p IH]; intros i inq j ns r Hns H.
  - cbn in H. inversion H; subst. cbn [app length]. rewrite Nat.add_0_r. reflexivity.
  - cbn [qwalk] in H. cbn [app scan length]. unfold nf in Hns. rewrite Hns, andb_false_r.
    set (inq' := if c =? 34 then negb inq else inq) in *.
    destruct (negb inq' && (c =? 58)) eqn:E; [discriminate|].
    assert (negb inq && (c =? 58) = false) as E'.
    { destruct (N.eqb_spec c 34) as [->|Hc]; [apply andb_false_r|]. exact E. }
    rewrite E'. cbn [andb]. rewrite (IH (S i) inq' j ns r Hns H). f_equal. lia.
Qed.

Lemma scan_tail : forall r i inq ns vs, nf ns -> nf vs -> scan i inq ns vs r = (ns, vs).
Proof.
  induction r as [|c r IH]; intros i inq ns vs Hns Hvs; [reflexivity|].
  cbn [scan]. unfold nf in *. rewrite Hns, Hvs, !andb_false_r. apply IH; assumption.
Qed.

Lemma skipn_app_exact {A} (a b : list A) : skipn (length a) (a ++ b) = b.
Proof. induction a; [reflexivity|assumption]. Qed.
Lemma firstn_app_exact {A} (a b : list A) : firstn (length a) (a ++ b) = a.
Proof. induction a as [|x a IH]; [reflexivity|]. cbn. f_equal. exact IH. Qed.

(* ------------------------------------------------------------------ Parameters(...) rebuilt from the parsed ones *)
Lemma unescape_pval_canon pv :
  forallb (fun s => avoids forb_unesc (dq_clean s)) (pval_strs pv) = true ->
  unescape_pval (canon_pval pv) = canon_pval pv.
Proof.
  destruct pv as [s|l]; cbn [pval_strs canon_pval unescape_pval]; intros H.
  - cbn [forallb] in H. rewrite andb_true_r in H. rewrite (unescape_string_id _ H). reflexivity.
  - destruct l as [|x [|y r]].
    + cbn [unescape_pval]. rewrite unescape_string_nopct by reflexivity. reflexivity.
    + cbn [forallb] in H. rewrite andb_true_r in H. cbn [unescape_pval]. rewrite (unescape_string_id _ H). reflexivity.
    + cbn [unescape_pval]. f_equal. rewrite map_map.
      apply map_ext_in. intros s Hs. rewrite forallb_forall in H. apply unescape_string_id. apply H. exact Hs.
Qed.

Lemma rebuild_canon : forall its acc,
  forallb (fun kv : list N * pval => is_token (fst kv) && wf_pval (snd kv)) its = true ->
  nodup_strs (map (fun kv : list N * pval => upper (fst kv)) its) = true ->
  params_unesc_safe its = true ->
  (forall kv, In kv its -> existsb (str_eqb (upper (fst kv))) (map fst acc) = false) ->
  rebuild_params (canon_params its) acc = acc ++ canon_params its.
Proof.
  induction its as [|kv its IH]; intros acc Hwf Hnd Hsafe Hfresh.
  - cbn. rewrite app_nil_r. reflexivity.
  - cbn [forallb] in Hwf. apply andb_true_iff in Hwf. destruct Hwf as [Hkv Hwf].
    apply andb_true_iff in Hkv. destruct Hkv as [Hk Hv].
    cbn [map nodup_strs] in Hnd. apply andb_true_iff in Hnd. destruct Hnd as [Hn1 Hnd].
    apply negb_true_iff in Hn1.
    unfold params_unesc_safe in Hsafe. cbn [forallb] in Hsafe. apply andb_true_iff in Hsafe.
    destruct Hsafe as [Hs1 Hsafe].
    destruct (upper_token (fst kv) Hk) as (_ & _ & _ & _ & _ & _ & T7 & _ & T9 & _).
    cbn [canon_params map rebuild_params fst snd].
    rewrite (unescape_string_nopct _ T7), T9, (unescape_pval_canon _ Hs1).
    rewrite dict_set_fresh by (apply Hfresh; left; reflexivity).
    change (map (fun kv0 : list N * pval => (upper (fst kv0), canon_pval (snd kv0))) its) with (canon_params its).
    rewrite IH; [| exact Hwf | exact Hnd | exact Hsafe |].
    + rewrite <- app_assoc. reflexivity.
    + intros kv' Hin. rewrite map_app. apply existsb_app_false. split.
      * apply Hfresh. right. exact Hin.
      * cbn [map fst existsb]. rewrite orb_false_r.
        rewrite str_eqb_sym. apply (existsb_false_In _ _ Hn1). apply in_map_iff. exists kv'. split; [reflexivity|exact Hin].
Qed.

Lemma params_unesc_safe_perm a b : Permutation a b -> params_unesc_safe a = true -> params_unesc_safe b = true.
Proof.
  unfold params_unesc_safe. intros P H. rewrite forallb_forall in *. intros x Hx. apply H.
  apply (Permutation_in x (Permutation_sym P) Hx).
Qed.

Lemma order_params_perm sorted ps : Permutation (order_params sorted ps) ps.
Proof. destruct sorted; [apply sort_items_perm|reflexivity]. Qed.

Lemma join_render_nonempty its : its <> [] -> join_with 59 (map render its) <> [].
Proof.
  destruct its as [|kv its]; [congruence|]. intros _ H.
  destruct its as [|kv2 its]; cbn [map join_with] in H.
  - exact (render_nonempty kv H).
  - destruct (render kv) eqn:E; [exact (render_nonempty kv E)|discriminate].
Qed.

Lemma params_text_walk its : forallb (fun kv : list N * pval => is_token (fst kv) && wf_pval (snd kv)) its = true ->
  qwalk (fun c => c =? 58) false (join_with 59 (map render its)) = Some false.
Proof.
  induction its as [|kv its IH]; intros H; [reflexivity|].
  cbn [forallb] in H. apply andb_true_iff in H. destruct H as [Hkv H]. apply andb_true_iff in Hkv.
  destruct Hkv as [Hk _].
  pose proof (render_walk kv 58 Hk quotable_58 (or_introl eq_refl)) as Hw.
  destruct its as [|kv2 its]; [exact Hw|].
  change (join_with 59 (map render (kv :: kv2 :: its))) with (render kv ++ 59 :: join_with 59 (map render (kv2 :: its))).
  rewrite qwalk_app, Hw. cbn [qwalk N.eqb Pos.eqb negb andb]. apply IH. exact H.
Qed.

Lemma is_token_facts name : is_token name = true ->
  all_ascii name = true /\ no_chr 58 name = true /\ no_chr 59 name = true /\ no_chr 34 name = true
  /\ no_chr 37 name = true /\ name <> [].
Proof.
  intros H. destruct (forallb_token name H) as [Hne Hall]. split; [|split; [|split; [|split; [|split]]]]; try exact Hne.
  all: unfold all_ascii; clear H Hne; induction Hall as [|c k Hc Hk IH]; try reflexivity.
  all: destruct (token_chr_facts c Hc) as (F1 & F2 & F3 & F4 & F5 & F6 & F7 & _).
  - cbn [forallb]. rewrite F1. exact IH.
  - apply no_chr_cons. split; assumption.
  - apply no_chr_cons. split; assumption.
  - apply no_chr_cons. split; assumption.
  - apply no_chr_cons. split; assumption.
Qed.

(* ------------------------------------------------------------------ C05: parts after from_parts *)
Theorem parts_from_parts name ps sorted v line :
  is_token name = true -> wf_params ps = true ->
  head_safe name ps sorted = true -> params_unesc_safe ps = true ->
  from_parts name ps sorted v = Ok line ->
  parts line = Ok (name, canon_params (order_params sorted ps), line_value_path v).
Proof.
  intros Hname Hwf Hhead Hun Hfp.
  destruct (is_token_facts name Hname) as (Na & N58 & N59 & N34 & N37 & Nne).
  pose proof (validate_token_ok name Hname Na) as Hvt.
  set (its := order_params sorted ps).
  pose proof (wf_params_order sorted ps Hwf) as Hwf'. fold its in Hwf'.
  pose proof (params_unesc_safe_perm _ _ (Permutation_sym (order_params_perm sorted ps)) Hun) as Hun'. fold its in Hun'.
  unfold wf_params in Hwf'. apply andb_true_iff in Hwf'. destruct Hwf' as [Hall Hnd].
  assert (Hline : line = head_of name ps sorted ++ v).
  { unfold from_parts, contentline_new, head_of in *.
    destruct ps as [|p0 ps0].
    - destruct (mem_chr 10 (name ++ 58 :: v)); inversion Hfp. rewrite <- app_assoc. reflexivity.
    - destruct (mem_chr 10 _); inversion Hfp. rewrite <- !app_assoc. cbn [app]. rewrite <- app_assoc. reflexivity. }
  assert (Hst : escape_string line = head_of name ps sorted ++ escape_string v).
  { subst line. unfold head_safe in Hhead. unfold escape_string.
    assert (exists h, head_of name ps sorted = h ++ [58]) as [h Hh].
    { unfold head_of. destruct ps; [exists name; reflexivity|].
      exists (name ++ 59 :: params_to_ical sorted (p :: ps)). rewrite <- app_assoc. reflexivity. }
    rewrite Hh in *. apply seq_run_head. unfold head_ok. rewrite esc_chain_nonempty, esc_chain_colon, andb_true_r.
    exact Hhead. }
  unfold parts. rewrite Hst. unfold head_of.
  destruct ps as [|p0 ps0].
  - (* no parameters *)
    assert (its = []) as Eits by (unfold its, order_params; destruct sorted; reflexivity).
    rewrite <- app_assoc. rewrite (scan_name name 0 _ N58 N59 N34). cbn [Nat.add app scan].
    cbn [N.eqb Pos.eqb orb andb negb falsy].
    destruct (length name) as [|n] eqn:El; [destruct name; [congruence|discriminate]|].
    rewrite scan_tail by reflexivity.
    rewrite <- El, firstn_app_exact, (unescape_string_nopct _ N37).
    destruct name as [|c0 name0] eqn:En; [congruence|]. rewrite <- En in *. rewrite Hvt. cbn [bind falsy].
    rewrite El. cbn [falsy]. rewrite Nat.eqb_refl || idtac.
    assert ((S (S n) =? S n)%nat = false) as Hneq by (apply Nat.eqb_neq; lia). rewrite Hneq.
    unfold slice. replace (S n - S (S n))%nat with 0%nat by lia. cbn [firstn].
    change (params_from_ical []) with (@Ok params []). cbn [bind rebuild_params].
    rewrite Eits. cbn [canon_params map].
    replace (skipn (S (S n)) (name ++ 58 :: escape_string v)) with (escape_string v).
    + reflexivity.
    + rewrite <- El. change (S (length name)) with (length name + 1)%nat || idtac.
      replace (name ++ 58 :: escape_string v) with ((name ++ [58]) ++ escape_string v) by (rewrite <- app_assoc; reflexivity).
      replace (S (length name)) with (length (name ++ [58])) by (rewrite app_length; cbn; lia).
      rewrite skipn_app_exact. reflexivity.
  - (* parameters present *)
    assert (its <> []) as Hits.
    { intro E. pose proof (order_params_perm sorted (p0 :: ps0)) as P. change (order_params sorted (p0 :: ps0)) with its in P.
      rewrite E in P. apply Permutation_nil in P. congruence. }
    set (p := params_to_ical sorted (p0 :: ps0)).
    assert (Hp : p = join_with 59 (map render its)) by reflexivity.
    assert (Hpne : p <> []) by (rewrite Hp; apply join_render_nonempty; exact Hits).
    assert (Hnorm : (name ++ 59 :: p ++ [58]) ++ escape_string v = name ++ 59 :: p ++ 58 :: escape_string v)
      by (rewrite <- app_assoc; cbn [app]; rewrite <- app_assoc; reflexivity).
    rewrite Hnorm.
    rewrite (scan_name name 0 _ N58 N59 N34). cbn [Nat.add scan].
    cbn [N.eqb Pos.eqb orb andb negb falsy].
    destruct (length name) as [|n] eqn:El; [destruct name; [congruence|discriminate]|].
    rewrite (scan_params p (S (S n)) false false (Some (S n)) _ eq_refl) by (rewrite Hp; apply params_text_walk; exact Hall).
    cbn [scan N.eqb Pos.eqb orb andb negb falsy].
    rewrite scan_tail by reflexivity.
    rewrite <- El, firstn_app_exact, (unescape_string_nopct _ N37).
    destruct name as [|c0 name0] eqn:En; [congruence|]. rewrite <- En in *. rewrite Hvt. cbn [bind].
    rewrite El. cbn [falsy].
    destruct (length p) as [|lp] eqn:Elp; [destruct p; [congruence|discriminate]|].
    replace (S (S n) + S lp)%nat with (S (S (S (n + lp)))) by lia. cbv iota.
    assert ((S (S n) =? S (S (S (n + lp))))%nat = false) as Hneq by (apply Nat.eqb_neq; lia). rewrite Hneq.
    assert (Hslice : slice (S (S n)) (S (S (S (n + lp)))) (name ++ 59 :: p ++ 58 :: escape_string v) = p).
    { unfold slice. replace (S (S (S (n + lp))) - S (S n))%nat with (length p) by lia.
      replace (name ++ 59 :: p ++ 58 :: escape_string v) with ((name ++ [59]) ++ p ++ 58 :: escape_string v)
        by (rewrite <- app_assoc; reflexivity).
      replace (S (S n)) with (length (name ++ [59])) by (rewrite app_length; cbn; lia).
      rewrite skipn_app_exact, firstn_app_exact. reflexivity. }
    rewrite Hslice, Hp.
    rewrite (params_roundtrip_unsorted its) by (unfold wf_params; rewrite Hall, Hnd; reflexivity).
    cbn [bind]. rewrite (rebuild_canon its [] Hall Hnd Hun') by (intros; reflexivity). cbn [app].
    replace (skipn (S (S (S (S (n + lp))))) (name ++ 59 :: join_with 59 (map render its) ++ 58 :: escape_string v))
      with (escape_string v).
    + reflexivity.
    + rewrite <- Hp. rewrite <- Hnorm.
      replace (S (S (S (S (n + lp))))) with (length (name ++ 59 :: p ++ [58]))
        by (rewrite app_length; cbn [length]; rewrite app_length; cbn [length]; lia).
      rewrite skipn_app_exact. reflexivity.
Qed.

(* ------------------------------------------------------------------ corollaries *)
Lemma avoids_app_l a b w : avoids (a ++ b) w = avoids a w && avoids b w.
Proof. unfold avoids. apply forallb_app. Qed.

Lemma line_value_path_id v : value_safe v = true -> line_value_path v = v.
Proof.
  unfold value_safe. rewrite avoids_app_l. intros H. apply andb_true_iff in H. destruct H as [H1 H2].
  unfold line_value_path. unfold escape_string at 1.
  rewrite (seq_run_id escape_string_chain v esc_chain_nonempty H1). apply unescape_string_id. exact H2.
Qed.

Theorem join_split name ps sorted v line :
  is_token name = true -> wf_params ps = true ->
  head_safe name ps sorted = true -> params_unesc_safe ps = true -> value_safe v = true ->
  from_parts name ps sorted v = Ok line ->
  parts line = Ok (name, canon_params (order_params sorted ps), v).
Proof.
  intros H1 H2 H3 H4 H5 H6. rewrite (parts_from_parts name ps sorted v line H1 H2 H3 H4 H6).
  rewrite (line_value_path_id v H5). reflexivity.
Qed.

Lemma from_parts_cases name ps sorted v :
  from_parts name ps sorted v = Escape (s2l "AssertionError") \/
  exists line, from_parts name ps sorted v = Ok line /\ no_chr 10 line = true.
Proof.
  unfold from_parts, contentline_new. destruct ps as [|p0 ps0].
  - destruct (mem_chr 10 (name ++ 58 :: v)) eqn:E; [left; reflexivity|right].
    eexists. split; [reflexivity|]. unfold no_chr. rewrite E. reflexivity.
  - destruct (mem_chr 10 _) eqn:E; [left; reflexivity|right].
    eexists. split; [reflexivity|]. unfold no_chr. rewrite E. reflexivity.
Qed.

(* whatever the value text contains: refusal, or exactly the intended name and parameters *)
Theorem no_injection name ps sorted v :
  is_token name = true -> wf_params ps = true ->
  head_safe name ps sorted = true -> params_unesc_safe ps = true ->
  from_parts name ps sorted v = Escape (s2l "AssertionError") \/
  exists line, from_parts name ps sorted v = Ok line /\ no_chr 10 line = true /\
    parts line = Ok (name, canon_params (order_params sorted ps), line_value_path v).
Proof.
  intros H1 H2 H3 H4. destruct (from_parts_cases name ps sorted v) as [E|(line & E & Hlf)]; [left; exact E|right].
  exists line. split; [exact E|]. split; [exact Hlf|]. apply (parts_from_parts name ps sorted v line H1 H2 H3 H4 E).
Qed.

(* ---- a sufficient condition on the inputs: no backslash, no percent sign in any parameter value *)
Lemma no_chr_join c sep : c <> sep -> forall l, forallb (no_chr c) l = true -> no_chr c (join_with sep l) = true.
Proof.
  intros Hc. induction l as [|x l IH]; intros H; [reflexivity|].
  cbn [forallb] in H. apply andb_true_iff in H. destruct H as [Hx Hl].
  destruct l as [|y l]; [exact Hx|].
  change (join_with sep (x :: y :: l)) with (x ++ sep :: join_with sep (y :: l)).
  rewrite no_chr_app, Hx. cbn [andb]. apply no_chr_cons. split; [congruence|]. apply IH. exact Hl.
Qed.

Lemma no_chr_dq_clean c v : c <> 39 -> no_chr c v = true -> no_chr c (dq_clean v) = true.
Proof.
  intros H39. induction v as [|x v IH]; intros H; [reflexivity|].
  apply no_chr_cons in H. destruct H as [Hx Hv]. cbn [dq_clean map]. apply no_chr_cons. split; [|apply IH; exact Hv].
  destruct (x =? 34); [congruence|exact Hx].
Qed.

Lemma no_chr_dquote c v : c <> 39 -> c <> 34 -> no_chr c v = true -> no_chr c (dquote v) = true.
Proof.
  intros H39 H34 H. unfold dquote. pose proof (no_chr_dq_clean c v H39 H) as Hd.
  destruct (existsb _ _); [|exact Hd].
  apply no_chr_cons. split; [congruence|]. rewrite no_chr_app, Hd. cbn [andb]. apply no_chr_cons.
  split; [congruence|reflexivity].
Qed.

Lemma no_chr_param_value c pv : c <> 39 -> c <> 34 -> c <> 44 ->
  forallb (no_chr c) (pval_strs pv) = true -> no_chr c (param_value pv) = true.
Proof.
  intros H39 H34 H44. destruct pv as [s|l]; cbn [pval_strs param_value]; intros H.
  - cbn [forallb] in H. rewrite andb_true_r in H. apply no_chr_dquote; assumption.
  - unfold q_join. apply no_chr_join; [exact H44|]. rewrite forallb_forall in *. intros x Hx.
    apply in_map_iff in Hx. destruct Hx as (y & <- & Hy). apply no_chr_dquote; try assumption. apply H. exact Hy.
Qed.

Lemma no_chr_params_text c its : c <> 39 -> c <> 34 -> c <> 44 -> c <> 59 -> c <> 61 ->
  forallb (fun kv : list N * pval => no_chr c (upper (fst kv)) && forallb (no_chr c) (pval_strs (snd kv))) its = true ->
  no_chr c (join_with 59 (map render its)) = true.
Proof.
  intros H39 H34 H44 H59 H61 H. apply no_chr_join; [exact H59|]. rewrite forallb_forall in *. intros x Hx.
  apply in_map_iff in Hx. destruct Hx as (kv & <- & Hkv). specialize (H kv Hkv). apply andb_true_iff in H.
  destruct H as [Hk Hv]. unfold render. rewrite no_chr_app, Hk. cbn [andb]. apply no_chr_cons. split; [congruence|].
  apply no_chr_param_value; assumption.
Qed.

Lemma esc_chain_first : forallb (fun f : list N => match f with a :: _ => a =? 92 | [] => false end) forb_esc = true.
Proof. vm_compute. reflexivity. Qed.

Lemma avoids_esc_nobs w : no_chr 92 w = true -> avoids forb_esc w = true.
Proof.
  intros H. apply avoids_no_first. pose proof esc_chain_first as F. rewrite forallb_forall in *.
  intros f Hf. specialize (F f Hf). destruct f as [|a f]; [discriminate|]. apply N.eqb_eq in F. subst a. exact H.
Qed.

Lemma avoids_unesc_nopct w : no_chr 37 w = true -> avoids forb_unesc w = true.
Proof.
  intros H. apply avoids_no_first. pose proof unesc_chain_first as F. rewrite forallb_forall in *.
  intros f Hf. specialize (F f Hf). destruct f as [|a f]; [discriminate|]. apply N.eqb_eq in F. subst a. exact H.
Qed.

Lemma params_plain_perm a b : Permutation a b -> params_plain a = true -> params_plain b = true.
Proof.
  unfold params_plain. intros P H. rewrite forallb_forall in *. intros x Hx. apply H.
  apply (Permutation_in x (Permutation_sym P) Hx).
Qed.

Lemma plain_head_safe name ps sorted : is_token name = true -> wf_params ps = true -> params_plain ps = true ->
  head_safe name ps sorted = true.
Proof.
  intros Hn Hwf Hpl. unfold head_safe. apply avoids_esc_nobs.
  assert (no_chr 92 name = true) as N92.
  { destruct (forallb_token name Hn) as [_ Hall]. clear Hn. induction Hall as [|c k Hc Hk IH]; [reflexivity|].
    destruct (token_chr_facts c Hc) as (_ & _ & _ & _ & _ & _ & _ & F8 & _). apply no_chr_cons. split; assumption. }
  unfold head_of. destruct ps as [|p0 ps0]; [rewrite no_chr_app, N92; reflexivity|].
  rewrite no_chr_app, N92. cbn [andb]. apply no_chr_cons. split; [discriminate|].
  rewrite no_chr_app. apply andb_true_iff. split; [|reflexivity].
  rewrite params_to_ical_render.
  pose proof (wf_params_order sorted (p0 :: ps0) Hwf) as Hwf'.
  pose proof (params_plain_perm _ _ (Permutation_sym (order_params_perm sorted (p0 :: ps0))) Hpl) as Hpl'.
  apply no_chr_params_text; try discriminate.
  unfold wf_params in Hwf'. apply andb_true_iff in Hwf'. destruct Hwf' as [Hall _].
  unfold params_plain in Hpl'. rewrite forallb_forall in *. intros kv Hkv.
  specialize (Hall kv Hkv). specialize (Hpl' kv Hkv). apply andb_true_iff in Hall. destruct Hall as [Hk _].
  destruct (upper_token (fst kv) Hk) as (_ & _ & _ & _ & _ & _ & _ & T8 & _). rewrite T8. cbn [andb].
  rewrite forallb_forall in *. intros s Hs. specialize (Hpl' s Hs). apply andb_true_iff in Hpl'. apply Hpl'.
Qed.

Lemma plain_unesc_safe ps : params_plain ps = true -> params_unesc_safe ps = true.
Proof.
  unfold params_plain, params_unesc_safe. rewrite !forallb_forall. intros H kv Hkv. specialize (H kv Hkv).
  rewrite forallb_forall in *. intros s Hs. specialize (H s Hs). apply andb_true_iff in H. destruct H as [_ H37].
  apply avoids_unesc_nopct. apply no_chr_dq_clean; [discriminate|exact H37].
Qed.

Theorem no_injection_plain name ps sorted v :
  is_token name = true -> wf_params ps = true -> params_plain ps = true ->
  from_parts name ps sorted v = Escape (s2l "AssertionError") \/
  exists line, from_parts name ps sorted v = Ok line /\ no_chr 10 line = true /\
    parts line = Ok (name, canon_params (order_params sorted ps), line_value_path v).
Proof.
  intros H1 H2 H3. apply no_injection; [exact H1|exact H2|apply plain_head_safe; assumption|apply plain_unesc_safe; exact H3].
Qed.

(* ------------------------------------------------------------------ outside the guards: the known findings *)
(* URL;A=x\:p;Q=r:z -- a parameter value ending in a backslash: an additional parameter Q is read back *)
Lemma injection_refuted : exists name ps v line,
  is_token name = true /\ wf_params ps = true /\ from_parts name ps true v = Ok line /\
  parts line = Ok (name, [(s2l "A", PStr (s2l "x:p")); (s2l "Q", PStr (s2l "r"))], s2l "z").
Proof.
  exists (s2l "URL"), [(s2l "A", PStr [120; 92])], (s2l "p;Q=r:z"). eexists.
  split; [reflexivity|]. split; [reflexivity|]. split; [reflexivity|]. vm_compute. reflexivity.
Qed.

Lemma value_refuted : exists name v line, is_token name = true /\ from_parts name [] true v = Ok line /\
  parts line = Ok (name, [], s2l "a,b") /\ v <> s2l "a,b".
Proof.
  exists (s2l "URL"), [97; 92; 44; 98]. eexists. split; [reflexivity|]. split; [reflexivity|].
  split; [vm_compute; reflexivity|discriminate].
Qed.
