(* vDuration and vUTCOffset: the encoder's output is an RFC dur-value / utc-offset denoting the
   value; every grammar-valid text is decoded to the value the RFC assigns (inside timedelta's
   range); hence the round trips. *)
Require Import Lib.Base Model.Params Model.CodecBase Model.CodecDate Model.CodecDur
        Proofs.CodecBaseProofs Proofs.CodecDateProofs.
From Coq Require Import ZArith List Bool Lia ZifyBool.
Local Open Scope Z_scope.

(* ---------------------------------------------------------------- arithmetic *)
Ltac Zify.zify_post_hook ::= Z.to_euclidean_division_equations.

Lemma hms_decomp a : a = 3600 * (a / 3600) + 60 * (a mod 3600 / 60) + a mod 60.
Proof. lia. Qed.

Lemma hms_bounds a : 0 <= a < 86400 ->
  0 <= a / 3600 < 24 /\ 0 <= a mod 3600 / 60 < 60 /\ 0 <= a mod 60 < 60.
Proof. lia. Qed.

Lemma days_decomp a : a = 86400 * (a / 86400) + a mod 86400.
Proof. lia. Qed.

Lemma days_bounds a : 0 <= a -> 0 <= a / 86400 /\ 0 <= a mod 86400 < 86400.
Proof. lia. Qed.

Lemma neg_days s : (s / 86400 <? 0) = (s <? 0).
Proof. lia. Qed.

(* the fields vUTCOffset.to_ical computes, for |offset| < 24 h *)
Lemma offset_fields a : 0 <= a < 86400 ->
  Z.abs (a / 86400 * 24 + a mod 86400 / 3600) = a / 3600
  /\ Z.abs (a mod 86400 mod 3600 / 60) = a mod 3600 / 60
  /\ Z.abs (a mod 86400 mod 60) = a mod 60.
Proof. lia. Qed.

Ltac Zify.zify_post_hook ::= idtac.

(* ---------------------------------------------------------------- optional regex groups *)
Definition good (ds : str) : Prop := ds <> [] /\ forallb is_digit ds = true.

Lemma og_hit c ds r : good ds -> is_digit c = false -> opt_group c (ds ++ c :: r) = (Some ds, r).
Proof.
  intros [Hne Hd] Hc. unfold opt_group. rewrite span_digits_app by auto.
  destruct ds; [congruence|]. now rewrite N.eqb_refl.
Qed.

Lemma og_miss c c' ds r : good ds -> is_digit c' = false -> (c' =? c)%N = false ->
  opt_group c (ds ++ c' :: r) = (None, ds ++ c' :: r).
Proof.
  intros [Hne Hd] Hc Hcc. unfold opt_group. rewrite span_digits_app by auto.
  destruct ds; [congruence|]. now rewrite Hcc.
Qed.

Lemma og_nondigit c x r : is_digit x = false -> opt_group c (x :: r) = (None, x :: r).
Proof. intros Hx. unfold opt_group. simpl. now rewrite Hx. Qed.

Lemma og_nil c : opt_group c [] = (None, []).
Proof. reflexivity. Qed.

Lemma og_all c ds : forallb is_digit ds = true -> opt_group c ds = (None, ds).
Proof. intros Hd. unfold opt_group. rewrite span_digits_all by auto. destruct ds; reflexivity. Qed.

Lemma og_some_inv c s ds r : opt_group c s = (Some ds, r) -> s = ds ++ c :: r /\ good ds.
Proof.
  unfold opt_group. destruct (span_digits s) as [d t] eqn:E. intros H.
  destruct (span_digits_spec _ _ _ E) as (-> & Hd & _).
  destruct d as [|d0 d']; [destruct t; discriminate|].
  destruct t as [|x t']; [discriminate|].
  destruct (x =? c)%N eqn:Ex; [|discriminate]. apply N.eqb_eq in Ex. subst x.
  inversion H; subst. split; [reflexivity|]. split; [discriminate|exact Hd].
Qed.

Lemma og_none_inv c s o r : opt_group c s = (o, r) -> o = None -> r = s.
Proof.
  unfold opt_group. destruct (span_digits s) as [d t]. intros H ->.
  destruct d; [inversion H; reflexivity|]. destruct t; [inversion H; reflexivity|].
  destruct (n0 =? c)%N; inversion H. reflexivity.
Qed.

(* the designators are pairwise different, so at most one group reads a given digit run *)
Lemma og_exclusive c c' s ds r : opt_group c s = (Some ds, r) -> (c =? c')%N = false -> is_digit c = false ->
  opt_group c' s = (None, s).
Proof.
  intros H Hcc Hc. destruct (og_some_inv _ _ _ _ H) as (-> & Hg). apply og_miss; auto.
Qed.

Lemma good_str_of_Z n : 0 <= n -> good (str_of_Z n).
Proof. intros Hn. destruct (str_of_Z_nonneg n Hn) as (H1 & H2 & _). split; auto. Qed.

(* ---------------------------------------------------------------- the encoder emits the grammar *)
Lemma p_num_seg c n r : 0 <= n -> is_digit c = false -> p_num c (seg n c ++ r) = Some (n, r).
Proof.
  intros Hn Hc. unfold p_num, seg. rewrite <- app_assoc. cbn [app]. rewrite og_hit by (auto using good_str_of_Z).
  destruct (str_of_Z_nonneg n Hn) as (_ & _ & ->). reflexivity.
Qed.

Lemma p_num_seg0 c n : 0 <= n -> is_digit c = false -> p_num c (seg n c) = Some (n, []).
Proof. intros. rewrite <- (app_nil_r (seg n c)). now apply p_num_seg. Qed.

Lemma p_num_other c c' n r : 0 <= n -> is_digit c' = false -> (c' =? c)%N = false ->
  p_num c (seg n c' ++ r) = None.
Proof.
  intros Hn Hc Hcc. unfold p_num, seg. rewrite <- app_assoc. cbn [app].
  rewrite og_miss by (auto using good_str_of_Z). reflexivity.
Qed.

Lemma p_num_other0 c c' n : 0 <= n -> is_digit c' = false -> (c' =? c)%N = false ->
  p_num c (seg n c') = None.
Proof. intros. rewrite <- (app_nil_r (seg n c')). now apply p_num_other. Qed.

Lemma p_num_nil c : p_num c [] = None.
Proof. reflexivity. Qed.

Lemma p_num_nondigit c x r : is_digit x = false -> p_num c (x :: r) = None.
Proof. intros. unfold p_num. now rewrite og_nondigit. Qed.

Local Opaque seg.

Ltac pnum :=
  repeat first
    [ rewrite p_num_seg by (lia || reflexivity)
    | rewrite p_num_seg0 by (lia || reflexivity)
    | rewrite p_num_other by (lia || reflexivity)
    | rewrite p_num_other0 by (lia || reflexivity)
    | rewrite p_num_nil
    | rewrite app_nil_r
    | rewrite app_nil_l ].

Lemma p_time_timepart secs : 0 < secs < 86400 -> p_time (dur_timepart secs) = Some (secs, []).
Proof.
  intros Hs. destruct (hms_bounds secs ltac:(lia)) as (Hh & Hm & Hse).
  pose proof (hms_decomp secs) as Hd.
  unfold dur_timepart. replace (secs =? 0) with false by lia.
  set (h := secs / 3600) in *. set (mi := secs mod 3600 / 60) in *. set (se := secs mod 60) in *.
  unfold p_time. cbn [N.eqb Pos.eqb].
  destruct (h =? 0) eqn:Eh; destruct (mi =? 0) eqn:Em; destruct (se =? 0) eqn:Ee; cbn [negb orb andb app];
    unfold p_hour, p_minute, p_second; pnum; try (f_equal; f_equal; lia); lia.
Qed.

Lemma p_time_nil : p_time [] = None.
Proof. reflexivity. Qed.

Lemma timepart_nil secs : dur_timepart secs = [] <-> secs = 0.
Proof.
  unfold dur_timepart. destruct (secs =? 0) eqn:E; split; intros H; try lia; try reflexivity; discriminate.
Qed.

Lemma td_ok_bounds s : td_ok s = true -> td_min <= s <= td_max.
Proof. unfold td_ok. lia. Qed.

Lemma enc_dur_grammar s : td_ok s = true -> exists t, enc_dur s = Ok t /\ dur_value t = Some s.
Proof.
  intros Hok. unfold enc_dur. rewrite Hok. cbn [negb]. eexists. split; [reflexivity|].
  set (neg := s / 86400 <? 0). set (a := if neg then - s else s).
  assert (Hneg : neg = (s <? 0)) by apply neg_days.
  assert (Ha : 0 <= a) by (unfold a; rewrite Hneg; destruct (s <? 0) eqn:E; lia).
  assert (Hs : s = if neg then - a else a) by (unfold a; destruct neg; lia).
  pose proof (days_decomp a) as Hdd.
  destruct (days_bounds a Ha) as (Hdays & Hsec).
  set (days := a / 86400) in *. set (secs := a mod 86400) in *.
  rewrite (Z.abs_eq days) by lia.
  (* the body after "P" *)
  assert (Hbody : forall body,
     body = (if (days =? 0) && negb (match dur_timepart secs with [] => true | _ => false end)
             then dur_timepart secs else str_of_Z days ++ 68%N :: dur_timepart secs) ->
     match p_date body with
     | Some x => Some x
     | None => match p_time body with Some x => Some x | None => p_week body end
     end = Some (a, [])).
  { intros body ->. destruct (secs =? 0) eqn:Es.
    - assert (secs = 0) by lia. replace (dur_timepart secs) with (@nil N) by (symmetry; now apply timepart_nil).
      cbn [negb andb]. rewrite andb_false_r.
      unfold p_date. change (str_of_Z days ++ [68%N]) with (str_of_Z days ++ [68%N]).
      Local Transparent seg. change (str_of_Z days ++ [68%N]) with (seg days 68). Local Opaque seg.
      rewrite p_num_seg0 by (lia || reflexivity). rewrite p_time_nil. f_equal; f_equal; lia.
    - assert (Hsp : 0 < secs < 86400) by lia.
      pose proof (p_time_timepart secs Hsp) as Ht.
      destruct (dur_timepart secs) as [|c r] eqn:Etp; [apply timepart_nil in Etp; lia|].
      cbn [negb]. rewrite andb_true_r. destruct (days =? 0) eqn:Ed.
      + unfold p_date. unfold dur_timepart in Etp. rewrite Es in Etp. inversion Etp; subst c.
        rewrite p_num_nondigit by reflexivity. rewrite H1. rewrite Ht. f_equal; f_equal; lia.
      + unfold p_date.
        Local Transparent seg.
        change (str_of_Z days ++ 68%N :: c :: r) with (str_of_Z days ++ [68%N] ++ c :: r).
        rewrite app_assoc. change (str_of_Z days ++ [68%N]) with (seg days 68). Local Opaque seg.
        rewrite p_num_seg by (lia || reflexivity). rewrite Ht. f_equal; f_equal; lia. }
  unfold dur_value. destruct neg; cbn [app N.eqb Pos.eqb].
  - rewrite (Hbody _ eq_refl). f_equal; lia.
  - rewrite (Hbody _ eq_refl). f_equal; lia.
Qed.

(* ---------------------------------------------------------------- grammar-valid texts are decoded *)
Definition gi (g : option str) : Z := match g with Some ds => digs_val ds 0 | None => 0 end.

Lemma p_num_og c s : p_num c s = match opt_group c s with (Some ds, r) => Some (digs_val ds 0, r) | (None, _) => None end.
Proof. reflexivity. Qed.

Local Opaque Z.mul Z.add.
(* the three time groups of the regex read the same digits as dur-hour / dur-minute / dur-second *)
Lemma time_agree r4 v :
  match p_hour r4 with
  | Some x => Some x
  | None => match p_minute r4 with Some x => Some x | None => p_second r4 end
  end = Some (v, []) ->
  let '(h, r5) := opt_group 72 r4 in
  let '(m, r6) := opt_group 77 r5 in
  let '(s, r7) := opt_group 83 r6 in
  r7 = [] /\ v = 3600 * gi h + 60 * gi m + gi s.
Proof.
  unfold p_hour, p_minute, p_second. rewrite !p_num_og.
  destruct (opt_group 72 r4) as [[dsh|] r5] eqn:EH.
  - (* hour present *)
    rewrite !p_num_og.
    destruct (opt_group 77 r5) as [[dsm|] r6] eqn:EM.
    + rewrite !p_num_og. destruct (opt_group 83 r6) as [[dss|] r7] eqn:ES; intros H; try discriminate; injection H; intros; subst.
      * cbn [gi]. split; [reflexivity|lia].
      * rewrite og_nil in ES. inversion ES. cbn [gi]. split; [reflexivity|lia].
    + intros H. injection H; intros; subst. pose proof (og_none_inv _ _ _ _ EM eq_refl) as ->.
      rewrite og_nil. cbn [gi]. split; [reflexivity|lia].
  - (* no hour *)
    pose proof (og_none_inv _ _ _ _ EH eq_refl) as ->.
    destruct (opt_group 77 r4) as [[dsm|] r6] eqn:EM.
    + rewrite !p_num_og. destruct (opt_group 83 r6) as [[dss|] r7] eqn:ES; intros H; try discriminate; injection H; intros; subst.
      * cbn [gi]. split; [reflexivity|lia].
      * rewrite og_nil in ES. inversion ES. cbn [gi]. split; [reflexivity|lia].
    + pose proof (og_none_inv _ _ _ _ EM eq_refl) as ->.
      destruct (opt_group 83 r4) as [[dss|] r7] eqn:ES; intros H; try discriminate; injection H; intros; subst.
      cbn [gi]. split; [reflexivity|lia].
Qed.

Lemma group_int_ok g n : (forall ds, g = Some ds -> good ds /\ (List.length ds <= n)%nat) -> (n <= 4300)%nat ->
  group_int g = Ok (gi g).
Proof.
  intros H Hn. destruct g as [ds|]; [|reflexivity]. destruct (H ds eq_refl) as ((Hne & Hd) & Hl).
  cbn [group_int gi]. apply py_int_digits; auto. lia.
Qed.

(* dur_match on sign ++ "P" ++ r1 *)
Definition dur_match_body (sign : str) (r1 : str) : option dur_groups :=
  let '(w, r2) := opt_group 87 r1 in
  let '(d, r3) := opt_group 68 r2 in
  match r3 with
  | ct :: r4 =>
      if (ct =? 84)%N then
        let '(h, r5) := opt_group 72 r4 in
        let '(m, r6) := opt_group 77 r5 in
        let '(s, r7) := opt_group 83 r6 in
        if at_end r7 then Some {| g_sign := sign; g_w := w; g_d := d; g_h := h; g_m := m; g_s := s |}
        else None
      else if at_end r3 then Some {| g_sign := sign; g_w := w; g_d := d; g_h := None; g_m := None; g_s := None |}
      else None
  | [] => Some {| g_sign := sign; g_w := w; g_d := d; g_h := None; g_m := None; g_s := None |}
  end.

Definition groups_val (g : dur_groups) : Z :=
  604800 * gi (g_w g) + 86400 * gi (g_d g) + 3600 * gi (g_h g) + 60 * gi (g_m g) + gi (g_s g).

Definition groups_good (g : dur_groups) (n : nat) : Prop :=
  forall o ds, In o [g_w g; g_d g; g_h g; g_m g; g_s g] -> o = Some ds -> good ds /\ (List.length ds <= n)%nat.

Lemma og_len c s o r : opt_group c s = (o, r) -> (List.length r <= List.length s)%nat /\
  forall ds, o = Some ds -> good ds /\ (List.length ds <= List.length s)%nat.
Proof.
  intros H. destruct o as [ds|].
  - destruct (og_some_inv _ _ _ _ H) as (-> & Hg). rewrite app_length. cbn [List.length].
    split; [lia|]. intros ds' E. inversion E; subst. split; auto. lia.
  - rewrite (og_none_inv _ _ _ _ H eq_refl). split; [lia|]. intros ds E. discriminate.
Qed.

(* the body after "P": if the RFC grammar reads it as v, the regex matches with groups worth v *)
Lemma body_agree sign r1 v :
  match p_date r1 with
  | Some x => Some x
  | None => match p_time r1 with Some x => Some x | None => p_week r1 end
  end = Some (v, []) ->
  exists g, dur_match_body sign r1 = Some g /\ g_sign g = sign /\ groups_val g = v
            /\ groups_good g (List.length r1).
Proof.
  unfold p_date, p_week, dur_match_body. rewrite !p_num_og.
  destruct (opt_group 87 r1) as [[dsw|] r2] eqn:EW.
  - (* weeks *)
    rewrite (og_exclusive _ 68%N _ _ _ EW eq_refl eq_refl).
    destruct (og_some_inv _ _ _ _ EW) as (E1 & Hg). pose proof (og_len _ _ _ _ EW) as (_ & HlW).
    assert (Hpt : p_time r1 = None).
    { rewrite E1. destruct Hg as (Hne & Hd). destruct dsw as [|c0 ds']; [congruence|].
      simpl in Hd. apply andb_true_iff in Hd as [Hc0 _]. unfold p_time. cbn [app].
      destruct (c0 =? 84)%N eqn:E84; [|reflexivity]. apply N.eqb_eq in E84. subst c0. discriminate. }
    rewrite Hpt. intros H. inversion H; subst r2. rewrite og_nil.
    eexists. split; [reflexivity|]. split; [reflexivity|]. split; [unfold groups_val; cbn [g_w g_d g_h g_m g_s gi]; lia|].
    intros o ds Hin Ho. cbn in Hin. destruct Hin as [<-|[<-|[<-|[<-|[<-|[]]]]]]; try discriminate. now apply HlW.
  - pose proof (og_none_inv _ _ _ _ EW eq_refl) as ->.
    destruct (opt_group 68 r1) as [[dsd|] r3] eqn:ED.
    + (* days, then maybe a time part *)
      pose proof (og_len _ _ _ _ ED) as (Hl3 & HlD).
      unfold p_time. destruct r3 as [|ct r4].
      * intros H. inversion H. eexists. split; [reflexivity|]. split; [reflexivity|]. split; [unfold groups_val; cbn [g_w g_d g_h g_m g_s gi]; lia|].
        intros o ds Hin Ho. cbn in Hin. destruct Hin as [<-|[<-|[<-|[<-|[<-|[]]]]]]; try discriminate. now apply HlD.
      * destruct (ct =? 84)%N eqn:E84.
        -- intros H.
           assert (Ht : match p_hour r4 with Some x => Some x
                        | None => match p_minute r4 with Some x => Some x | None => p_second r4 end end
                        = Some (v - 86400 * digs_val dsd 0, [])).
           { destruct (match p_hour r4 with Some x => Some x
                        | None => match p_minute r4 with Some x => Some x | None => p_second r4 end end) as [[k r']|];
               inversion H; subst. f_equal; f_equal; lia. }
           pose proof (time_agree _ _ Ht) as Hag.
           destruct (opt_group 72 r4) as [h r5] eqn:EH. destruct (opt_group 77 r5) as [m r6] eqn:EM.
           destruct (opt_group 83 r6) as [s r7] eqn:ES. destruct Hag as (-> & Hv).
           pose proof (og_len _ _ _ _ EH) as (Hl5 & HlH). pose proof (og_len _ _ _ _ EM) as (Hl6 & HlM).
           pose proof (og_len _ _ _ _ ES) as (Hl7 & HlS). cbn [List.length] in *.
           cbn [at_end]. eexists. split; [reflexivity|]. split; [reflexivity|]. split; [unfold groups_val; cbn [g_w g_d g_h g_m g_s]; unfold gi in *; lia|].
           intros o ds Hin Ho. cbn in Hin.
           destruct Hin as [<-|[<-|[<-|[<-|[<-|[]]]]]]; try discriminate;
             [ destruct (HlD _ Ho) | destruct (HlH _ Ho) | destruct (HlM _ Ho) | destruct (HlS _ Ho) ]; split; auto; lia.
        -- intros H. inversion H.
    + (* no weeks, no days: a time part *)
      pose proof (og_none_inv _ _ _ _ ED eq_refl) as ->.
      unfold p_time. destruct r1 as [|ct r4]; [intros H; discriminate|].
      destruct (ct =? 84)%N eqn:E84; [|intros H; discriminate].
      intros H.
      assert (Ht : match p_hour r4 with Some x => Some x
                   | None => match p_minute r4 with Some x => Some x | None => p_second r4 end end = Some (v, [])).
      { destruct (match p_hour r4 with Some x => Some x
                   | None => match p_minute r4 with Some x => Some x | None => p_second r4 end end) as [[k r']|];
          [exact H | discriminate]. }
      pose proof (time_agree _ _ Ht) as Hag.
      destruct (opt_group 72 r4) as [h r5] eqn:EH. destruct (opt_group 77 r5) as [m r6] eqn:EM.
      destruct (opt_group 83 r6) as [s r7] eqn:ES. destruct Hag as (-> & Hv).
      pose proof (og_len _ _ _ _ EH) as (Hl5 & HlH). pose proof (og_len _ _ _ _ EM) as (Hl6 & HlM).
      pose proof (og_len _ _ _ _ ES) as (Hl7 & HlS). cbn [List.length] in *.
      cbn [at_end]. eexists. split; [reflexivity|]. split; [reflexivity|]. split; [unfold groups_val; cbn [g_w g_d g_h g_m g_s]; unfold gi in *; lia|].
      intros o ds Hin Ho. cbn in Hin.
      destruct Hin as [<-|[<-|[<-|[<-|[<-|[]]]]]]; try discriminate;
        [ destruct (HlH _ Ho) | destruct (HlM _ Ho) | destruct (HlS _ Ho) ]; split; auto; lia.
Qed.

Lemma dur_match_unfold sign r1 : dur_match (sign ++ 80%N :: r1) = dur_match_body sign r1 ->
  True.
Proof. trivial. Qed.

Lemma dec_dur_groups t g :
  all_ascii t = true -> dur_match t = Some g -> groups_good g 4300 ->
  dec_dur t =
    let v := groups_val g in
    if td_max <? v then Escape s_overflow
    else if str_eqb (g_sign g) [45%N] then (if - v <? td_min then Escape s_overflow else Ok (- v))
    else Ok v.
Proof.
  intros Ha Hm Hg. unfold dec_dur. rewrite Ha, Hm. cbn [negb].
  assert (Hgi : forall o, In o [g_w g; g_d g; g_h g; g_m g; g_s g] -> group_int o = Ok (gi o)).
  { intros o Hin. apply (group_int_ok o 4300); [|lia]. intros ds Ho. exact (Hg o ds Hin Ho). }
  rewrite (Hgi (g_w g)) by (cbn; auto). cbn [bind].
  rewrite (Hgi (g_d g)) by (cbn; auto). cbn [bind].
  rewrite (Hgi (g_h g)) by (cbn; auto 6). cbn [bind].
  rewrite (Hgi (g_m g)) by (cbn; auto 6). cbn [bind].
  rewrite (Hgi (g_s g)) by (cbn; auto 7). cbn [bind].
  reflexivity.
Qed.

Lemma groups_good_mono g n m : groups_good g n -> (n <= m)%nat -> groups_good g m.
Proof. intros H Hnm o ds Hin Ho. destruct (H o ds Hin Ho). split; auto. lia. Qed.

(* what vDuration.from_ical does with any grammar-valid DURATION text of at most 4300 characters *)
Lemma dur_grammar_dec_full t v : dur_value t = Some v -> all_ascii t = true -> (List.length t <= 4300)%nat ->
  dec_dur t = if (td_max <? Z.abs v) || (v <? td_min) then Escape s_overflow else Ok v.
Proof.
  unfold dur_value. intros H Ha Hlen.
  assert (Hcore : forall sign r1 (neg : bool),
            t = sign ++ 80%N :: r1 -> dur_match t = dur_match_body sign r1 ->
            str_eqb sign [45%N] = neg ->
            match (match p_date r1 with Some x => Some x
                   | None => match p_time r1 with Some x => Some x | None => p_week r1 end end) with
            | Some (v0, []) => Some (if neg then - v0 else v0)
            | _ => None end = Some v ->
            dec_dur t = if (td_max <? Z.abs v) || (v <? td_min) then Escape s_overflow else Ok v).
  { intros sign r1 neg Et Em Hsg Hb.
    destruct (match p_date r1 with Some x => Some x
              | None => match p_time r1 with Some x => Some x | None => p_week r1 end end) as [[v0 rest]|] eqn:Eb;
      [|discriminate]. destruct rest; [|discriminate]. inversion Hb; subst v.
    destruct (body_agree sign r1 v0 Eb) as (g & Hg & Hs & Hv & Hgood).
    rewrite (dec_dur_groups t g Ha (eq_trans Em Hg)).
    2:{ apply (groups_good_mono g (List.length r1)); auto. rewrite Et, app_length in Hlen. cbn [List.length] in Hlen. lia. }
    cbn zeta. rewrite Hv, Hs, Hsg.
    assert (0 <= v0).
    { rewrite <- Hv. unfold groups_val.
      assert (forall o, 0 <= gi o).
      { intros [ds|]; cbn [gi]; [|lia]. pose proof (digs_val_lower ds 0 ltac:(lia)). lia. }
      pose proof (H0 (g_w g)). pose proof (H0 (g_d g)). pose proof (H0 (g_h g)). pose proof (H0 (g_m g)).
      pose proof (H0 (g_s g)). lia. }
    unfold td_max, td_min in *. destruct neg.
    - rewrite Z.abs_neq by lia. rewrite Z.opp_involutive.
      destruct (999999999 * 86400 + 86399 <? v0) eqn:E1; cbn [orb]; [reflexivity|].
      destruct (- v0 <? - (999999999 * 86400)) eqn:E2; reflexivity.
    - rewrite Z.abs_eq by lia.
      destruct (999999999 * 86400 + 86399 <? v0) eqn:E1; cbn [orb]; [reflexivity|].
      replace (v0 <? - (999999999 * 86400)) with false by lia. reflexivity. }
  destruct t as [|c r]; [discriminate|].
  destruct (c =? 45)%N eqn:E45.
  - apply N.eqb_eq in E45. subst c. destruct r as [|p r1]; [discriminate|].
    destruct (p =? 80)%N eqn:E80; [|discriminate]. apply N.eqb_eq in E80. subst p.
    apply (Hcore [45%N] r1 true); try reflexivity. exact H.
  - destruct (c =? 43)%N eqn:E43.
    + apply N.eqb_eq in E43. subst c. destruct r as [|p r1]; [discriminate|].
      destruct (p =? 80)%N eqn:E80; [|discriminate]. apply N.eqb_eq in E80. subst p.
      apply (Hcore [43%N] r1 false); try reflexivity. exact H.
    + destruct (c =? 80)%N eqn:E80; [|discriminate]. apply N.eqb_eq in E80. subst c.
      apply (Hcore [] r false); try reflexivity. exact H.
Qed.

Lemma dur_grammar_dec t v : dur_value t = Some v -> all_ascii t = true ->
  (List.length t <=? 4300)%nat && td_ok v = true -> dec_dur t = Ok v.
Proof.
  intros H Ha G. apply andb_true_iff in G as [Hl Hok]. apply Nat.leb_le in Hl.
  rewrite (dur_grammar_dec_full t v H Ha Hl). apply td_ok_bounds in Hok. unfold td_max, td_min in *.
  replace ((999999999 * 86400 + 86399 <? Z.abs v) || (v <? - (999999999 * 86400))) with false by lia.
  reflexivity.
Qed.

Local Transparent Z.mul Z.add.

(* ---------------------------------------------------------------- the encoder's output is short ASCII *)
Lemma all_ascii_app a b : all_ascii (a ++ b) = all_ascii a && all_ascii b.
Proof. unfold all_ascii. apply forallb_app. Qed.

Lemma str_of_Z_ascii n : 0 <= n -> all_ascii (str_of_Z n) = true.
Proof. intros Hn. apply digits_ascii. now destruct (str_of_Z_nonneg n Hn) as (_ & H & _). Qed.

Local Transparent seg.
Lemma seg_ascii_len n c k : 0 <= n < 10 ^ k -> 0 < k -> (c <? 128)%N = true ->
  all_ascii (seg n c) = true /\ Z.of_nat (List.length (seg n c)) <= k + 1.
Proof.
  intros Hn Hk Hc. unfold seg. rewrite all_ascii_app, str_of_Z_ascii by lia. rewrite app_length.
  pose proof (str_of_Z_len n k Hn Hk). cbn [List.length]. split; [|lia].
  unfold all_ascii. cbn [forallb andb]. now rewrite Hc.
Qed.
Local Opaque seg.

Lemma timepart_ascii_len secs : 0 <= secs < 86400 ->
  all_ascii (dur_timepart secs) = true /\ Z.of_nat (List.length (dur_timepart secs)) <= 10.
Proof.
  intros Hs. unfold dur_timepart. destruct (secs =? 0); [split; [reflexivity|cbn; lia]|].
  destruct (hms_bounds secs Hs) as (Hh & Hm & Hse).
  destruct (seg_ascii_len (secs / 3600) 72 2 ltac:(lia) ltac:(lia) eq_refl) as (A1 & L1).
  destruct (seg_ascii_len (secs mod 3600 / 60) 77 2 ltac:(lia) ltac:(lia) eq_refl) as (A2 & L2).
  destruct (seg_ascii_len (secs mod 60) 83 2 ltac:(lia) ltac:(lia) eq_refl) as (A3 & L3).
  change (84%N :: ?x) with ([84%N] ++ x).
  repeat match goal with |- context [if ?b then _ else _] => destruct b end;
    rewrite ?all_ascii_app, ?app_length, ?A1, ?A2, ?A3; cbn [List.length all_ascii forallb andb N.ltb N.compare Pos.compare Pos.compare_cont];
    split; try reflexivity; lia.
Qed.

Lemma enc_dur_ascii_len s t : td_ok s = true -> enc_dur s = Ok t ->
  all_ascii t = true /\ (List.length t <= 4300)%nat.
Proof.
  intros Hok. unfold enc_dur. rewrite Hok. cbn [negb]. intros H. injection H as <-.
  rewrite neg_days.
  set (a := if s <? 0 then - s else s).
  assert (Ha : 0 <= a) by (unfold a; destruct (s <? 0) eqn:E; lia).
  destruct (days_bounds a Ha) as (Hdays & Hsec).
  destruct (timepart_ascii_len _ Hsec) as (At & Lt).
  assert (Hd10 : a / 86400 < 10 ^ 10).
  { apply td_ok_bounds in Hok. unfold td_min, td_max in Hok.
    apply Z.div_lt_upper_bound; [lia|]. unfold a. destruct (s <? 0) eqn:E; lia. }
  pose proof (str_of_Z_len (Z.abs (a / 86400)) 10 ltac:(rewrite Z.abs_eq; lia) ltac:(lia)) as Ld.
  pose proof (str_of_Z_ascii (Z.abs (a / 86400)) ltac:(lia)) as Ad.
  change (80%N :: ?x) with ([80%N] ++ x). change (68%N :: ?x) with ([68%N] ++ x).
  destruct (s <? 0); destruct ((a / 86400 =? 0) && _);
    rewrite ?all_ascii_app, ?app_length, ?At, ?Ad; cbn [List.length all_ascii forallb andb N.ltb N.compare Pos.compare Pos.compare_cont];
    split; try reflexivity; lia.
Qed.

(* every timedelta of whole seconds survives vDuration(...).to_ical() / from_ical, and what is
   written is an RFC dur-value denoting it *)
Lemma dur_rt s : td_ok s = true ->
  exists t, enc_dur s = Ok t /\ dec_dur t = Ok s /\ dur_value t = Some s.
Proof.
  intros Hok. destruct (enc_dur_grammar s Hok) as (t & He & Hv).
  destruct (enc_dur_ascii_len s t Hok He) as (Ha & Hl).
  exists t. split; [exact He|]. split; [|exact Hv].
  apply dur_grammar_dec; auto. rewrite Hok, andb_true_r. now apply Nat.leb_le.
Qed.

(* ---------------------------------------------------------------- UTC offsets *)
Local Opaque py_int zpad.

Lemma dec_offset_5 sg a b c d :
  (sg <? 128)%N = true -> is_digit a = true -> is_digit b = true -> is_digit c = true -> is_digit d = true ->
  dec_offset [sg; a; b; c; d] =
  let off := 3600 * num2 a b + 60 * num2 c d + 0 in
  if 86400 <=? off then ValueErr else if (sg =? 45)%N then Ok (- off) else Ok off.
Proof.
  intros. unfold dec_offset.
  assert (Hasc : all_ascii [sg; a; b; c; d] = true) by (repeat (apply all_ascii_cons; [first [assumption | apply digit_ascii; assumption] |]); reflexivity).
  rewrite Hasc. cbn [negb slice Nat.sub firstn skipn]. rewrite !py_int_2 by assumption. cbn [bind str_eqb].
  rewrite andb_true_r. reflexivity.
Qed.

Lemma dec_offset_7 sg a b c d e f :
  (sg <? 128)%N = true -> is_digit a = true -> is_digit b = true -> is_digit c = true -> is_digit d = true ->
  is_digit e = true -> is_digit f = true ->
  dec_offset [sg; a; b; c; d; e; f] =
  let off := 3600 * num2 a b + 60 * num2 c d + num2 e f in
  if 86400 <=? off then ValueErr else if (sg =? 45)%N then Ok (- off) else Ok off.
Proof.
  intros. unfold dec_offset.
  assert (Hasc : all_ascii [sg; a; b; c; d; e; f] = true) by (repeat (apply all_ascii_cons; [first [assumption | apply digit_ascii; assumption] |]); reflexivity).
  rewrite Hasc. cbn [negb slice Nat.sub firstn skipn]. rewrite !py_int_2 by assumption. cbn [bind str_eqb].
  rewrite andb_true_r. reflexivity.
Qed.

Lemma td_ok_small s : -86400 < s < 86400 -> td_ok s = true.
Proof. unfold td_ok, td_min, td_max. lia. Qed.

Lemma offset_arith a h m s : 0 <= a < 86400 -> h = a / 3600 -> m = a mod 3600 / 60 -> s = a mod 60 ->
  3600 * h + 60 * m + s = a /\ 0 <= h < 24 /\ 0 <= m < 60 /\ 0 <= s < 60.
Proof. intros Ha -> -> ->. pose proof (hms_decomp a). pose proof (hms_bounds a Ha). lia. Qed.

Lemma offset_value_5 sg a b c d v :
  is_digit a = true -> is_digit b = true -> is_digit c = true -> is_digit d = true ->
  num2 a b <= 23 -> num2 c d <= 59 -> v = 3600 * num2 a b + 60 * num2 c d ->
  offset_value [sg; a; b; c; d] =
  if ((sg =? 43) || (sg =? 45))%N then (if (sg =? 45)%N then (if v =? 0 then None else Some (- v)) else Some v) else None.
Proof.
  intros Ha Hb Hc Hd H1 H2 ->. unfold offset_value. cbn [forallb]. rewrite Ha, Hb, Hc, Hd. cbn [andb].
  assert (E1 : (num2 a b <=? 23) = true) by lia. assert (E2 : (num2 c d <=? 59) = true) by lia.
  rewrite E1, E2. change (0 <=? 59) with true. cbn [andb]. rewrite ?andb_true_r.
  destruct ((sg =? 43) || (sg =? 45))%N; [|reflexivity].
  replace (3600 * num2 a b + 60 * num2 c d + 0) with (3600 * num2 a b + 60 * num2 c d) by lia. reflexivity.
Qed.

Lemma offset_value_7 sg a b c d e f v :
  is_digit a = true -> is_digit b = true -> is_digit c = true -> is_digit d = true ->
  is_digit e = true -> is_digit f = true ->
  num2 a b <= 23 -> num2 c d <= 59 -> num2 e f <= 59 -> v = 3600 * num2 a b + 60 * num2 c d + num2 e f ->
  offset_value [sg; a; b; c; d; e; f] =
  if ((sg =? 43) || (sg =? 45))%N then (if (sg =? 45)%N then (if v =? 0 then None else Some (- v)) else Some v) else None.
Proof.
  intros Ha Hb Hc Hd He Hf H1 H2 H3 ->. unfold offset_value. cbn [forallb]. rewrite Ha, Hb, Hc, Hd, He, Hf. cbn [andb].
  assert (E1 : (num2 a b <=? 23) = true) by lia. assert (E2 : (num2 c d <=? 59) = true) by lia.
  assert (E3 : (num2 e f <=? 59) = true) by lia.
  rewrite E1, E2, E3. cbn [andb]. rewrite ?andb_true_r.
  destruct ((sg =? 43) || (sg =? 45))%N; reflexivity.
Qed.

(* every offset of whole seconds with |offset| < 24 h survives to_ical / from_ical; what is written is
   an RFC utc-offset denoting it (in particular never "-0000" / "-000000") *)
Lemma offset_rt s : -86400 < s < 86400 ->
  exists t, enc_offset s = Ok t /\ dec_offset t = Ok s /\ offset_value t = Some s.
Proof.
  intros Hs. unfold enc_offset. rewrite (td_ok_small s Hs). cbn [negb]. eexists. split; [reflexivity|].
  set (a := if s <? 0 then 0 - s else s).
  assert (Ha : 0 <= a < 86400) by (unfold a; destruct (s <? 0) eqn:E; lia).
  destruct (offset_fields a Ha) as (-> & -> & ->).
  destruct (offset_arith a _ _ _ Ha eq_refl eq_refl eq_refl) as (Hsum & Hh & Hm & Hse).
  set (h := a / 3600) in *. set (m := a mod 3600 / 60) in *. set (se := a mod 60) in *.
  assert (Bh : 0 <= h < 100) by lia. assert (Bm : 0 <= m < 100) by lia. assert (Bs : 0 <= se < 100) by lia.
  assert (Rh : h <= 23) by lia. assert (Rm : m <= 59) by lia. assert (Rs : se <= 59) by lia.
  assert (Hsa : s = if s <? 0 then - a else a) by (unfold a; destruct (s <? 0) eqn:E; lia).
  assert (Hnz : (s <? 0) = true -> a <> 0) by (unfold a; destruct (s <? 0) eqn:E; lia).
  clearbody a h m se. clear Hs Ha Hh Hm Hse.
  destruct (zpad2_spec h Bh) as (c1 & c2 & -> & D1 & D2 & N1).
  destruct (zpad2_spec m Bm) as (c3 & c4 & -> & D3 & D4 & N2).
  destruct (se =? 0) eqn:Ese.
  - assert (se = 0) by lia. subst se. cbn [app].
    rewrite dec_offset_5 by (assumption || (destruct (s <? 0); reflexivity)).
    rewrite (offset_value_5 _ _ _ _ _ a) by (assumption || lia).
    cbn zeta. rewrite N1, N2.
    replace (3600 * h + 60 * m + 0) with a by lia. replace (86400 <=? a) with false by lia.
    destruct (s <? 0) eqn:E; cbn [N.eqb Pos.eqb orb].
    + replace (a =? 0) with false by (specialize (Hnz eq_refl); lia). rewrite Hsa. auto.
    + rewrite Hsa. auto.
  - destruct (zpad2_spec se Bs) as (c5 & c6 & -> & D5 & D6 & N3). cbn [app].
    rewrite dec_offset_7 by (assumption || (destruct (s <? 0); reflexivity)).
    rewrite (offset_value_7 _ _ _ _ _ _ _ a) by (assumption || lia).
    cbn zeta. rewrite N1, N2, N3. rewrite Hsum. replace (86400 <=? a) with false by lia.
    destruct (s <? 0) eqn:E; cbn [N.eqb Pos.eqb orb].
    + replace (a =? 0) with false by (specialize (Hnz eq_refl); lia). rewrite Hsa. auto.
    + rewrite Hsa. auto.
Qed.

(* every grammar-valid UTC-OFFSET text is decoded to its value *)
Lemma offset_grammar_dec t v : offset_value t = Some v -> dec_offset t = Ok v.
Proof.
  unfold offset_value. intros H.
  destruct t as [|sg [|a [|b [|c [|d [|e [|f [|]]]]]]]]; try discriminate.
  - destruct (((sg =? 43) || (sg =? 45))%N && forallb is_digit [a; b; c; d] && true) eqn:G; [|discriminate].
    apply andb_true_iff in G as [G _]. apply andb_true_iff in G as [Gs Gd].
    cbn [forallb] in Gd. repeat (apply andb_true_iff in Gd as [? Gd]).
    destruct ((num2 a b <=? 23) && (num2 c d <=? 59) && (0 <=? 59)) eqn:R; [|discriminate].
    rewrite dec_offset_5 by (assumption || lia). cbn zeta.
    pose proof (num2_nonneg a b). pose proof (num2_nonneg c d).
    replace (86400 <=? 3600 * num2 a b + 60 * num2 c d + 0) with false by lia.
    destruct (sg =? 45)%N.
    + destruct (3600 * num2 a b + 60 * num2 c d + 0 =? 0); [discriminate|]. now injection H as <-.
    + now injection H as <-.
  - destruct (((sg =? 43) || (sg =? 45))%N && forallb is_digit [a; b; c; d] && (is_digit e && is_digit f)) eqn:G; [|discriminate].
    apply andb_true_iff in G as [G Gef]. apply andb_true_iff in G as [Gs Gd]. apply andb_true_iff in Gef as [Ge Gf].
    cbn [forallb] in Gd. repeat (apply andb_true_iff in Gd as [? Gd]).
    destruct ((num2 a b <=? 23) && (num2 c d <=? 59) && (num2 e f <=? 59)) eqn:R; [|discriminate].
    rewrite dec_offset_7 by (assumption || lia). cbn zeta.
    pose proof (num2_nonneg a b). pose proof (num2_nonneg c d). pose proof (num2_nonneg e f).
    replace (86400 <=? 3600 * num2 a b + 60 * num2 c d + num2 e f) with false by lia.
    destruct (sg =? 45)%N.
    + destruct (3600 * num2 a b + 60 * num2 c d + num2 e f =? 0); [discriminate|]. now injection H as <-.
    + now injection H as <-.
Qed.
