(* The guard of the first-parse theorem (Proofs/RfcLineProofs.v) is EXACT: for every well-formed
   syntax tree of the RFC 5545 content-line grammar, Contentline.parts returns the denotation of
   the printed text if AND ONLY IF [first_parse_guard] holds.  Necessity, clause by clause:
   (3) whatever parts() returns has pairwise different parameter names (it is a dict);
   (1) whatever parts() returns on ANY line contains at most as many backslashes and digits 5 as
       the line after escape_string, and every escape_string replacement loses one -- the
       decomposition of parts() on arbitrary lines is the one of Proofs/RecaseProofs.v (qfind);
   (2) without escape patterns parts() returns the denotation un-escaped once more
       ([first_parse_form]), and un-escaping a text that contains a placeholder loses a '%'. *)
Require Import Lib.Base Lib.Chain Gen.Gen_parser Gen.Gen_cal Model.Text Model.Params Model.Fold Model.Contentline Model.Tree Model.Rewrite Model.RfcLine.
Require Import Proofs.ChainProofs Proofs.ReplaceProofs Proofs.ParamsProofs Proofs.ContentlineProofs Proofs.RecaseProofs Proofs.RfcLineProofs.
From Coq Require Import Lia Arith.

(* ------------------------------------------------------------------ counting selected characters *)
Section Count.
  Variable hit : N -> bool.
  Definition w1 (c : N) : nat := if hit c then 1%nat else 0%nat.
  Fixpoint cnt (s : list N) : nat := match s with [] => 0%nat | c :: r => (w1 c + cnt r)%nat end.
  Fixpoint sumc (l : list (list N)) : nat := match l with [] => 0%nat | s :: r => (cnt s + sumc r)%nat end.

  Lemma cnt_app a b : cnt (a ++ b) = (cnt a + cnt b)%nat.
  Proof. induction a as [|c a IH]; [reflexivity|]. cbn [app cnt]. rewrite IH. lia. Qed.

  Lemma cnt_rev a : cnt (rev a) = cnt a.
  Proof. induction a as [|c a IH]; [reflexivity|]. cbn [rev]. rewrite cnt_app, IH. cbn [cnt]. lia. Qed.

  Lemma sumc_app a b : sumc (a ++ b) = (sumc a + sumc b)%nat.
  Proof. induction a as [|x a IH]; [reflexivity|]. cbn [app sumc]. rewrite IH. lia. Qed.

  Lemma replace_cnt pat rep : pat <> [] -> forall s,
    ((cnt rep <= cnt pat)%nat -> (cnt (py_replace pat rep s) <= cnt s)%nat) /\
    ((cnt rep < cnt pat)%nat -> has_sub pat s = true -> (cnt (py_replace pat rep s) < cnt s)%nat).
  Proof.
    intros Hne.
    apply (py_replace_ind pat rep (fun s o =>
      ((cnt rep <= cnt pat)%nat -> (cnt o <= cnt s)%nat) /\
      ((cnt rep < cnt pat)%nat -> has_sub pat s = true -> (cnt o < cnt s)%nat)) Hne).
    - split; [intros _; apply le_n|]. intros _ H. cbn [has_sub] in H. rewrite orb_false_r in H.
      destruct pat; [congruence|discriminate].
    - intros t [IH1 IH2]. rewrite !cnt_app. split.
      + intros H. specialize (IH1 H). lia.
      + intros H _. specialize (IH1 ltac:(lia)). lia.
    - intros c r E [IH1 IH2]. cbn [cnt]. split.
      + intros H. specialize (IH1 H). lia.
      + intros H Hs. cbn [has_sub] in Hs. rewrite E in Hs. cbn [orb] in Hs. specialize (IH2 H Hs). lia.
  Qed.

  Definition pyfold (ch : chain) (s : list N) : list N :=
    fold_left (fun acc (st : stage) => py_replace (fst st) (snd st) acc) ch s.
  Definition chain_le_ok (ch : chain) : bool :=
    forallb (fun st : stage => nonempty_b (fst st) && (cnt (snd st) <=? cnt (fst st))%nat) ch.
  Definition chain_lt_ok (ch : chain) : bool :=
    forallb (fun st : stage => nonempty_b (fst st) && (cnt (snd st) <? cnt (fst st))%nat) ch.

  Lemma nonempty_b_ne (p : list N) : nonempty_b p = true -> p <> [].
  Proof. destruct p; [discriminate|discriminate]. Qed.

  Lemma chain_cnt_le : forall ch s, chain_le_ok ch = true -> (cnt (pyfold ch s) <= cnt s)%nat.
  Proof.
    induction ch as [|[pat rep] ch IH]; intros s H; [apply le_n|].
    cbn [chain_le_ok forallb fst snd] in H. apply andb_true_iff in H. destruct H as [H1 H2].
    apply andb_true_iff in H1. destruct H1 as [Hne Hle]. apply Nat.leb_le in Hle.
    cbn [pyfold fold_left fst snd]. specialize (IH (py_replace pat rep s) H2). unfold pyfold in IH.
    pose proof (proj1 (replace_cnt pat rep (nonempty_b_ne _ Hne) s) Hle). lia.
  Qed.

  Lemma chain_lt_le ch : chain_lt_ok ch = true -> chain_le_ok ch = true.
  Proof.
    unfold chain_lt_ok, chain_le_ok. rewrite !forallb_forall. intros H st Hst. specialize (H st Hst).
    apply andb_true_iff in H. destruct H as [H1 H2]. rewrite H1. cbn [andb].
    apply Nat.ltb_lt in H2. apply Nat.leb_le. lia.
  Qed.

  Lemma chain_cnt_lt : forall ch s, chain_lt_ok ch = true -> avoids (map fst ch) s = false ->
    (cnt (pyfold ch s) < cnt s)%nat.
  Proof.
    induction ch as [|[pat rep] ch IH]; intros s H Hav; [discriminate|].
    pose proof (chain_lt_le _ H) as Hle0.
    cbn [chain_lt_ok forallb fst snd] in H. apply andb_true_iff in H. destruct H as [H1 H2].
    apply andb_true_iff in H1. destruct H1 as [Hne Hlt]. apply Nat.ltb_lt in Hlt.
    cbn [pyfold fold_left fst snd].
    unfold avoids in Hav. cbn [map fst forallb] in Hav.
    destruct (has_sub pat s) eqn:Hs.
    - pose proof (proj2 (replace_cnt pat rep (nonempty_b_ne _ Hne) s) Hlt Hs) as L.
      pose proof (chain_cnt_le ch (py_replace pat rep s) (chain_lt_le _ H2)) as L2. unfold pyfold in L2. lia.
    - cbn [negb andb] in Hav.
      assert (py_replace pat rep s = s) as -> by (unfold py_replace; apply py_replace_aux_id; exact Hs).
      apply IH; [exact H2|exact Hav].
  Qed.

  (* the pieces of q_split never hold more than the text *)
  Lemma qsplit_cnt sep ms : forall s inq n cur,
    (sumc (q_split_aux sep ms inq n cur s) <= cnt cur + cnt s)%nat.
  Proof.
    induction s as [|ch r IH]; intros inq n cur; [cbn; lia|].
    cbn [q_split_aux]. cbv zeta.
    destruct (negb (if ch =? 34 then negb inq else inq) && (ch =? sep)) eqn:E1; cbv iota.
    - match goal with |- context [if ?b then [r] else _] => destruct b end.
      + cbn [sumc cnt]. rewrite cnt_rev. lia.
      + cbn [sumc cnt]. rewrite cnt_rev.
        match goal with |- context [q_split_aux sep ms ?i ?k [] r] => specialize (IH i k []) end.
        cbn [cnt] in IH. lia.
    - match goal with |- context [if ?b then [_] else _] => destruct b end.
      + cbn [sumc]. rewrite cnt_app, cnt_rev. cbn [cnt]. lia.
      + match goal with |- context [q_split_aux sep ms ?i ?k (ch :: cur) r] => specialize (IH i k (ch :: cur)) end.
        cbn [cnt] in *. lia.
  Qed.

  Lemma lstrip_q_cnt s : (cnt (lstrip_q s) <= cnt s)%nat.
  Proof. induction s as [|c s IH]; [apply le_n|]. cbn [lstrip_q]. destruct (c =? 34); cbn [cnt]; lia. Qed.

  Lemma strip_q_cnt s : (cnt (strip_q s) <= cnt s)%nat.
  Proof.
    unfold strip_q. rewrite cnt_rev. pose proof (lstrip_q_cnt (rev (lstrip_q s))) as A.
    rewrite cnt_rev in A. pose proof (lstrip_q_cnt s). lia.
  Qed.

  Lemma parse_vals_cnt : forall vs out, parse_vals vs = Ok out -> (sumc out <= sumc vs)%nat.
  Proof.
    induction vs as [|v vs IH]; intros out H; [inversion H; apply le_n|].
    cbn [parse_vals] in H. cbv zeta in H.
    destruct (starts_q v && ends_q v).
    - destruct (validate_param_value (strip_q v) true); cbn [bind] in H; try discriminate.
      destruct (parse_vals vs) as [r'| | |]; cbn [bind] in H; try discriminate. inversion H; subst.
      cbn [sumc]. specialize (IH r' eq_refl). pose proof (strip_q_cnt v). lia.
    - destruct (validate_param_value v false); cbn [bind] in H; try discriminate.
      destruct (parse_vals vs) as [r'| | |]; cbn [bind] in H; try discriminate. inversion H; subst.
      cbn [sumc]. specialize (IH r' eq_refl). lia.
  Qed.

  Definition cntpv (v : pval) : nat := match v with PStr s => cnt s | PList l => sumc l end.
  Fixpoint mu (d : params) : nat := match d with [] => 0%nat | kv :: r => (cnt (fst kv) + cntpv (snd kv) + mu r)%nat end.

  Lemma mu_app a b : mu (a ++ b) = (mu a + mu b)%nat.
  Proof. induction a as [|x a IH]; [reflexivity|]. cbn [app mu]. rewrite IH. lia. Qed.

  Hypothesis hit_upper : forall c, hit (upper_chr c) = hit c.
  Lemma cnt_upper s : cnt (upper s) = cnt s.
  Proof. induction s as [|c s IH]; [reflexivity|]. cbn [upper map cnt]. unfold w1. rewrite hit_upper. fold (upper s). rewrite IH. reflexivity. Qed.

  Lemma parse_param_cnt p k pv : parse_param p = Ok (k, pv) -> (cnt k + cntpv pv <= cnt p)%nat.
  Proof.
    unfold parse_param. intros H.
    assert (sumc (q_split p 61 (Some 1%nat)) <= cnt p)%nat as Q.
    { unfold q_split. pose proof (qsplit_cnt 61 (Some 1%nat) p false 0 []). cbn [cnt] in H0. lia. }
    destruct (q_split p 61 (Some 1%nat)) as [|key [|val [|x r]]]; try discriminate.
    cbn [sumc] in Q.
    destruct (validate_token key); cbn [bind] in H; try discriminate.
    destruct (parse_vals (q_split val 44 None)) as [vals| | |] eqn:PV; cbn [bind] in H; try discriminate.
    pose proof (parse_vals_cnt _ _ PV) as V.
    assert (sumc (q_split val 44 None) <= cnt val)%nat as Q2.
    { rewrite q_split_none. pose proof (qsplit_cnt 44 None val false 0 []). cbn [cnt] in H0. lia. }
    destruct vals as [|v1 [|v2 vr]]; inversion H; subst; cbn [cntpv]; rewrite cnt_upper.
    - lia.
    - cbn [sumc] in V. lia.
    - lia.
  Qed.

  Lemma dict_set_mu k v : forall d, (mu (dict_set k v d) <= mu d + cnt k + cntpv v)%nat.
  Proof.
    induction d as [|[k' v'] d IH]; [cbn; lia|].
    cbn [dict_set]. destruct (str_eqb k k'); cbn [mu fst snd] in *; lia.
  Qed.

  Lemma parse_params_list_mu : forall l acc d, parse_params_list l acc = Ok d -> (mu d <= mu acc + sumc l)%nat.
  Proof.
    induction l as [|p l IH]; intros acc d H; [inversion H; cbn; lia|].
    cbn [parse_params_list] in H. destruct (parse_param p) as [[k pv]| | |] eqn:PP; cbn [bind] in H; try discriminate.
    cbn [fst snd] in H. specialize (IH _ _ H). pose proof (dict_set_mu k pv acc). pose proof (parse_param_cnt _ _ _ PP).
    cbn [sumc]. lia.
  Qed.

  Lemma params_from_ical_mu s ps : params_from_ical s = Ok ps -> (mu ps <= cnt s)%nat.
  Proof.
    unfold params_from_ical. intros H. apply parse_params_list_mu in H. rewrite q_split_none in H.
    pose proof (qsplit_cnt 59 None s false 0 []). cbn [mu cnt] in *. lia.
  Qed.

  Hypothesis unescape_le : forall s, (cnt (unescape_string s) <= cnt s)%nat.

  Lemma unescape_pval_cnt v : (cntpv (unescape_pval v) <= cntpv v)%nat.
  Proof.
    destruct v as [s|l]; cbn [unescape_pval cntpv]; [apply unescape_le|].
    induction l as [|x l IH]; [apply le_n|]. cbn [map sumc]. pose proof (unescape_le x). lia.
  Qed.

  Lemma rebuild_mu : forall l acc, (mu (rebuild_params l acc) <= mu acc + mu l)%nat.
  Proof.
    induction l as [|[k v] l IH]; intros acc; [cbn; lia|].
    cbn [rebuild_params]. specialize (IH (dict_set (upper (unescape_string k)) (unescape_pval v) acc)).
    pose proof (dict_set_mu (upper (unescape_string k)) (unescape_pval v) acc).
    rewrite cnt_upper in H. pose proof (unescape_le k). pose proof (unescape_pval_cnt v).
    cbn [mu fst snd]. lia.
  Qed.
End Count.

(* ------------------------------------------------------------------ parts() on an arbitrary line, cut at the delimiters it finds *)
Lemma F2_cveq_refl : forall s, Forall2 cveq s s.
Proof. induction s; constructor; [apply cveq_refl|assumption]. Qed.

Lemma parts_tokens line n D v : parts line = Ok (n, D, v) ->
  exists d1 ptok mid vtok ps,
    escape_string line = n ++ d1 :: ptok ++ mid ++ vtok /\
    params_from_ical ptok = Ok ps /\ D = rebuild_params ps [] /\ v = unescape_string vtok.
Proof.
  rewrite parts_alt. cbv zeta. set (st := escape_string line).
  destruct (scan 0 false None None st) as [ns vs] eqn:Esc.
  destruct (validate_token (unescape_string (name_part st ns))) as [u| | |] eqn:V; cbn [bind]; try discriminate.
  destruct (validate_name_variant _ _ (F2_cveq_refl (name_part st ns))) as [_ Hok].
  destruct (Hok u V) as (U1 & _ & Tk & Nne). rewrite U1. clear Hok V.
  destruct st as [|c0 r0] eqn:Est.
  { exfalso. apply Nne. unfold name_part. destruct ns as [k|]; [destruct k|]; reflexivity. }
  assert (is_token_chr c0 = true) as Hc0.
  { unfold name_part in Tk, Nne. destruct ns as [[|k]|]; [exfalso; apply Nne; reflexivity| |];
    cbn [firstn forallb] in Tk; apply andb_true_iff in Tk; tauto. }
  destruct (token_head_facts c0 Hc0) as (Q34 & Q58 & Q59).
  cbn [scan] in Esc. rewrite Q34, Q58, Q59 in Esc. cbn [orb andb negb] in Esc.
  rewrite (scan_name_find r0 1 false (le_n 1)) in Esc.
  destruct (qfind is_delim false r0) as [[[a d] b]|] eqn:F.
  2:{ injection Esc as <- <-. intros H. discriminate. }
  destruct (qfind_spec _ _ _ _ _ _ F) as [Er Hd]. subst r0. cbn [Nat.add] in Esc.
  assert (Hnm : forall x, firstn (S (length a)) (c0 :: a ++ x) = c0 :: a).
  { intros x. cbn [firstn]. rewrite firstn_app_exact. reflexivity. }
  apply orb_true_iff in Hd. destruct Hd as [Hd|Hd]; apply N.eqb_eq in Hd; subst d.
  - (* NAME:value *)
    cbn [N.eqb Pos.eqb] in Esc. rewrite scan_tail in Esc by reflexivity. injection Esc as <- <-.
    unfold name_part. rewrite Hnm, tail_colon. change (params_from_ical []) with (@Ok params []). cbn [bind].
    intros H. inversion H; subst. exists 58, [], [], b, []. cbn [app]. repeat split; reflexivity.
  - (* NAME;parameters *)
    cbn [N.eqb Pos.eqb] in Esc.
    rewrite (scan_colon_find b (S (S (length a))) false (S (length a))) in Esc by lia.
    destruct (qfind is_colon false b) as [[[a2 d2] b2]|] eqn:F2.
    + injection Esc as <- <-. destruct (qfind_spec _ _ _ _ _ _ F2) as [Er2 Hd2]. apply N.eqb_eq in Hd2. subst d2 b.
      unfold name_part. rewrite Hnm, tail_semi_colon.
      destruct a2 as [|x a2]; [discriminate|].
      destruct (params_from_ical (x :: a2)) as [ps| | |] eqn:PF; cbn [bind]; try discriminate.
      intros H. inversion H; subst. exists 59, (x :: a2), [58], b2, ps. repeat split; try reflexivity. exact PF.
    + injection Esc as <- <-. unfold name_part. rewrite Hnm, tail_semi_none.
      destruct b as [|x b]; [discriminate|].
      destruct (params_from_ical (x :: b)) as [ps| | |] eqn:PF; cbn [bind]; try discriminate.
      intros H. inversion H; subst. exists 59, (x :: b), [], [], ps. rewrite !app_nil_r. repeat split; try reflexivity. exact PF.
Qed.

(* ------------------------------------------------------------------ clause (3): the parameters parts() returns have distinct names *)
Lemma dict_set_keys {V} k (v : V) : forall d, nodup_strs (map fst d) = true -> nodup_strs (map fst (dict_set k v d)) = true /\
  (forall x, existsb (str_eqb x) (map fst (dict_set k v d)) = existsb (str_eqb x) (map fst d) || str_eqb x k).
Proof.
  induction d as [|[k' v'] d IH]; intros Hnd.
  - cbn. split; [reflexivity|]. intros x. rewrite orb_false_r. reflexivity.
  - cbn [map fst nodup_strs] in Hnd. apply andb_true_iff in Hnd. destruct Hnd as [H1 H2]. apply negb_true_iff in H1.
    cbn [dict_set]. destruct (str_eqb k k') eqn:E.
    + apply str_eqb_eq in E. subst k'. cbn [map fst nodup_strs existsb]. rewrite H1, H2. split; [reflexivity|].
      intros x. destruct (str_eqb x k); [reflexivity|]. rewrite orb_false_r. reflexivity.
    + destruct (IH H2) as [I1 I2]. cbn [map fst nodup_strs existsb]. rewrite I1, (I2 k'), H1, andb_true_r. split.
      * rewrite str_eqb_sym, E. reflexivity.
      * intros x. rewrite (I2 x). rewrite orb_assoc. reflexivity.
Qed.

Lemma rebuild_keys_nodup : forall l acc, nodup_strs (map fst acc) = true -> nodup_strs (map fst (rebuild_params l acc)) = true.
Proof.
  induction l as [|[k v] l IH]; intros acc H; [exact H|]. cbn [rebuild_params]. apply IH. apply dict_set_keys. exact H.
Qed.

Theorem parts_names_distinct line n D v : parts line = Ok (n, D, v) -> nodup_strs (map fst D) = true.
Proof.
  intros H. destruct (parts_tokens _ _ _ _ H) as (d1 & ptok & mid & vtok & ps & _ & _ & -> & _).
  apply rebuild_keys_nodup. reflexivity.
Qed.

(* ------------------------------------------------------------------ clause (1): backslashes and digits 5 *)
Definition hit_b (c : N) : bool := (c =? 92) || (c =? 53).
Definition hit_p (c : N) : bool := c =? 37.

Lemma hit_b_upper c : hit_b (upper_chr c) = hit_b c.
Proof.
  unfold hit_b, upper_chr, is_lower. destruct ((97 <=? c) && (c <=? 122)) eqn:E; [|reflexivity].
  apply andb_true_iff in E. destruct E as [E1 E2]. apply N.leb_le in E1, E2.
  assert ((c - 32 =? 92) = false) as -> by (apply N.eqb_neq; lia).
  assert ((c - 32 =? 53) = false) as -> by (apply N.eqb_neq; lia).
  assert ((c =? 92) = false) as -> by (apply N.eqb_neq; lia).
  assert ((c =? 53) = false) as -> by (apply N.eqb_neq; lia). reflexivity.
Qed.

Lemma escape_string_pyfold s : escape_string s = pyfold escape_string_chain s.
Proof. unfold escape_string, pyfold. apply seq_run_py_replace. apply pats_nonempty_Forall. exact esc_chain_nonempty. Qed.
Lemma unescape_string_pyfold s : unescape_string s = pyfold unescape_string_chain s.
Proof. unfold unescape_string, pyfold. apply seq_run_py_replace. apply pats_nonempty_Forall. exact unesc_chain_nonempty. Qed.

Lemma esc_chain_b_lt : chain_lt_ok hit_b escape_string_chain = true.
Proof. vm_compute. reflexivity. Qed.
Lemma unesc_chain_b_le : chain_le_ok hit_b unescape_string_chain = true.
Proof. vm_compute. reflexivity. Qed.
Lemma unesc_chain_p_lt : chain_lt_ok hit_p unescape_string_chain = true.
Proof. vm_compute. reflexivity. Qed.

Lemma unescape_b_le s : (cnt hit_b (unescape_string s) <= cnt hit_b s)%nat.
Proof. rewrite unescape_string_pyfold. apply chain_cnt_le. exact unesc_chain_b_le. Qed.

Lemma escape_b_lt s : avoids forb_esc s = false -> (cnt hit_b (escape_string s) < cnt hit_b s)%nat.
Proof. intros H. rewrite escape_string_pyfold. apply chain_cnt_lt; [exact esc_chain_b_lt|exact H]. Qed.

Lemma unescape_p_lt s : avoids forb_unesc s = false -> (cnt hit_p (unescape_string s) < cnt hit_p s)%nat.
Proof. intros H. rewrite unescape_string_pyfold. apply chain_cnt_lt; [exact unesc_chain_p_lt|exact H]. Qed.

Definition mo (hit : N -> bool) (o : list N * params * list N) : nat :=
  let '(n, D, v) := o in (cnt hit n + mu hit D + cnt hit v)%nat.

(* whatever parts() returns was in the escaped line *)
Theorem parts_cnt_b line o : parts line = Ok o -> (mo hit_b o <= cnt hit_b (escape_string line))%nat.
Proof.
  destruct o as [[n D] v]. intros H.
  destruct (parts_tokens _ _ _ _ H) as (d1 & ptok & mid & vtok & ps & E & PF & -> & ->).
  rewrite E. cbn [mo]. rewrite cnt_app. cbn [cnt]. rewrite !cnt_app.
  pose proof (rebuild_mu hit_b hit_b_upper unescape_b_le ps []) as R. cbn [mu] in R.
  pose proof (params_from_ical_mu hit_b hit_b_upper _ _ PF) as P.
  pose proof (unescape_b_le vtok). lia.
Qed.

(* the denotation holds every counted character of the printed line *)
Lemma cnt_print_pvalues hit vs : hit 34 = false -> hit 44 = false ->
  cnt hit (print_pvalues vs) = sumc hit (map pvalue_text vs).
Proof.
  intros H34 H44. induction vs as [|v vs IH]; [reflexivity|].
  assert (cnt hit (print_pvalue v) = cnt hit (pvalue_text v)) as Ev.
  { destruct v as [s|s]; cbn [print_pvalue pvalue_text]; [reflexivity|]. cbn [cnt]. rewrite cnt_app. cbn [cnt]. unfold w1. rewrite H34. lia. }
  destruct vs as [|w vs].
  - cbn [print_pvalues map sumc]. rewrite Ev. lia.
  - change (print_pvalues (v :: w :: vs)) with (print_pvalue v ++ 44 :: print_pvalues (w :: vs)).
    rewrite cnt_app. cbn [cnt]. rewrite IH, Ev. unfold w1. rewrite H44. cbn [map sumc]. lia.
Qed.

Lemma cntpv_denote hit vs : cntpv hit (denote_values vs) = sumc hit (map pvalue_text vs).
Proof. destruct vs as [|v [|w vs]]; cbn [denote_values cntpv map sumc]; lia. Qed.

Lemma cnt_print hit l : (forall c, hit (upper_chr c) = hit c) ->
  hit 34 = false -> hit 44 = false -> hit 58 = false -> hit 59 = false -> hit 61 = false ->
  cnt hit (rfc_print l) = mo hit (rfc_denote l).
Proof.
  intros Hup H34 H44 H58 H59 H61. unfold rfc_print, rfc_denote. cbn [mo]. rewrite !cnt_app. cbn [cnt]. unfold w1 at 1. rewrite H58.
  assert (cnt hit (flat_map (fun p => 59 :: print_param p) (rl_params l)) =
          mu hit (map (fun p : str * list pvalue => (upper (fst p), denote_values (snd p))) (rl_params l))) as E.
  { induction (rl_params l) as [|p ps IH]; [reflexivity|].
    cbn [flat_map map mu fst snd]. rewrite cnt_app. cbn [cnt]. unfold w1 at 1. rewrite H59.
    change (print_param p) with (fst p ++ 61 :: print_pvalues (snd p)). rewrite cnt_app. cbn [cnt]. unfold w1 at 1. rewrite H61.
    rewrite (cnt_print_pvalues hit _ H34 H44), (cnt_upper hit Hup), cntpv_denote, IH. lia. }
  rewrite E. lia.
Qed.

Theorem escape_clause_needed l : guard_no_escape l = false -> parts (rfc_print l) <> Ok (rfc_denote l).
Proof.
  unfold guard_no_escape. intros Hg H.
  pose proof (parts_cnt_b _ _ H) as A. pose proof (escape_b_lt _ Hg) as B.
  rewrite <- (cnt_print hit_b l hit_b_upper) in A by reflexivity. lia.
Qed.

(* ------------------------------------------------------------------ clause (3), for the printed line *)
Theorem names_clause_needed l : parts (rfc_print l) = Ok (rfc_denote l) -> guard_names_distinct l = true.
Proof.
  intros H. unfold rfc_denote in H. apply parts_names_distinct in H. unfold guard_names_distinct.
  rewrite map_map in H. exact H.
Qed.

(* ------------------------------------------------------------------ clause (2): a placeholder in the text is expanded *)
(* where a substring without separator characters lies in a text cut at a separator *)
Lemma is_prefix_before w d : mem_chr d w = false -> forall u b, is_prefix w (u ++ d :: b) = true -> is_prefix w u = true.
Proof.
  intros Hd. induction w as [|c w IH] in Hd |- *; intros u b H; [reflexivity|].
  cbn [mem_chr] in Hd. apply orb_false_iff in Hd. destruct Hd as [Hc Hw].
  destruct u as [|x u]; cbn [app is_prefix] in *.
  - rewrite N.eqb_sym in Hc. rewrite Hc in H. discriminate.
  - apply andb_true_iff in H. destruct H as [H1 H2]. rewrite H1. cbn [andb]. apply (IH Hw u b H2).
Qed.

Lemma has_sub_cut w d : mem_chr d w = false -> forall a b, has_sub w (a ++ d :: b) = true ->
  has_sub w a = true \/ has_sub w b = true.
Proof.
  intros Hd. induction a as [|c a IH]; intros b H.
  - cbn [app has_sub] in H. apply orb_true_iff in H. destruct H as [H|H]; [|right; exact H].
    left. apply (is_prefix_before w d Hd [] b) in H. cbn [has_sub]. rewrite H. reflexivity.
  - cbn [app has_sub] in H. apply orb_true_iff in H. destruct H as [H|H].
    + left. apply (is_prefix_before w d Hd (c :: a) b) in H. cbn [has_sub]. rewrite H. reflexivity.
    + destruct (IH b H) as [I|I]; [left|right; exact I]. cbn [has_sub]. rewrite I. apply orb_true_r.
Qed.

Definition sep_free (w : list N) : bool :=
  negb (mem_chr 34 w) && negb (mem_chr 44 w) && negb (mem_chr 58 w) && negb (mem_chr 59 w) && negb (mem_chr 61 w).

Lemma sep_free_inv w : sep_free w = true ->
  mem_chr 34 w = false /\ mem_chr 44 w = false /\ mem_chr 58 w = false /\ mem_chr 59 w = false /\ mem_chr 61 w = false.
Proof. unfold sep_free. rewrite !andb_true_iff, !negb_true_iff. tauto. Qed.

Lemma has_sub_pvalue w v : sep_free w = true -> has_sub w (print_pvalue v) = true -> w = [] \/ has_sub w (pvalue_text v) = true.
Proof.
  intros Hs H. destruct (sep_free_inv w Hs) as (M34 & _). destruct v as [s|s]; cbn [print_pvalue pvalue_text] in *; [right; exact H|].
  change (34 :: s ++ [34]) with ([] ++ 34 :: s ++ [34]) in H. apply (has_sub_cut w 34 M34) in H.
  destruct H as [H|H].
  - left. cbn [has_sub] in H. rewrite orb_false_r in H. destruct w; [reflexivity|discriminate].
  - apply (has_sub_cut w 34 M34) in H. destruct H as [H|H]; [right; exact H|].
    left. cbn [has_sub] in H. rewrite orb_false_r in H. destruct w; [reflexivity|discriminate].
Qed.

Lemma has_sub_pvalues w : sep_free w = true -> forall vs, has_sub w (print_pvalues vs) = true ->
  w = [] \/ exists v, In v vs /\ has_sub w (pvalue_text v) = true.
Proof.
  intros Hs. destruct (sep_free_inv w Hs) as (_ & M44 & _).
  induction vs as [|v vs IH]; intros H.
  - left. cbn [print_pvalues has_sub] in H. rewrite orb_false_r in H. destruct w; [reflexivity|discriminate].
  - destruct vs as [|x vs].
    + cbn [print_pvalues] in H. destruct (has_sub_pvalue w v Hs H) as [E|E]; [left; exact E|right].
      exists v. split; [left; reflexivity|exact E].
    + change (print_pvalues (v :: x :: vs)) with (print_pvalue v ++ 44 :: print_pvalues (x :: vs)) in H.
      apply (has_sub_cut w 44 M44) in H. destruct H as [H|H].
      * destruct (has_sub_pvalue w v Hs H) as [E|E]; [left; exact E|right]. exists v. split; [left; reflexivity|exact E].
      * destruct (IH H) as [E|(v' & Hin & E)]; [left; exact E|right]. exists v'. split; [right; exact Hin|exact E].
Qed.

Lemma has_sub_params w : sep_free w = true -> forall ps, has_sub w (flat_map (fun p => 59 :: print_param p) ps) = true ->
  w = [] \/ exists p, In p ps /\ (has_sub w (fst p) = true \/ exists v, In v (snd p) /\ has_sub w (pvalue_text v) = true).
Proof.
  intros Hs. destruct (sep_free_inv w Hs) as (_ & _ & _ & M59 & M61).
  induction ps as [|p ps IH]; intros H.
  - left. cbn [flat_map has_sub] in H. rewrite orb_false_r in H. destruct w; [reflexivity|discriminate].
  - cbn [flat_map] in H. change ((59 :: print_param p) ++ flat_map (fun p0 => 59 :: print_param p0) ps)
      with ([] ++ 59 :: (print_param p ++ flat_map (fun p0 => 59 :: print_param p0) ps)) in H.
    apply (has_sub_cut w 59 M59) in H. destruct H as [H|H].
    { left. cbn [has_sub] in H. rewrite orb_false_r in H. destruct w; [reflexivity|discriminate]. }
    destruct ps as [|q ps].
    + cbn [flat_map] in H. rewrite app_nil_r in H. unfold print_param in H.
      apply (has_sub_cut w 61 M61) in H. destruct H as [H|H].
      * right. exists p. split; [left; reflexivity|left; exact H].
      * destruct (has_sub_pvalues w Hs _ H) as [E|(v & Hin & E)]; [left; exact E|right].
        exists p. split; [left; reflexivity|right; exists v; split; assumption].
    + cbn [flat_map] in H. cbn [flat_map] in IH.
      change (print_param p ++ (59 :: print_param q) ++ flat_map (fun p0 => 59 :: print_param p0) ps)
        with (print_param p ++ 59 :: (print_param q ++ flat_map (fun p0 => 59 :: print_param p0) ps)) in H.
      apply (has_sub_cut w 59 M59) in H. destruct H as [H|H].
      * unfold print_param in H. apply (has_sub_cut w 61 M61) in H. destruct H as [H|H].
        -- right. exists p. split; [left; reflexivity|left; exact H].
        -- destruct (has_sub_pvalues w Hs _ H) as [E|(v & Hin & E)]; [left; exact E|right].
           exists p. split; [left; reflexivity|right; exists v; split; assumption].
      * assert (has_sub w ((59 :: print_param q) ++ flat_map (fun p0 => 59 :: print_param p0) ps) = true) as H'.
        { cbn [app has_sub]. rewrite H. apply orb_true_r. }
        destruct (IH H') as [E|(p' & Hin & E)]; [left; exact E|right]. exists p'. split; [right; exact Hin|exact E].
Qed.

Lemma has_sub_print w l : sep_free w = true -> has_sub w (rfc_print l) = true ->
  w = [] \/ has_sub w (rl_name l) = true \/ has_sub w (rl_value l) = true \/
  exists p, In p (rl_params l) /\ (has_sub w (fst p) = true \/ exists v, In v (snd p) /\ has_sub w (pvalue_text v) = true).
Proof.
  intros Hs H. destruct (sep_free_inv w Hs) as (_ & _ & M58 & M59 & _). unfold rfc_print in H.
  rewrite app_assoc in H. apply (has_sub_cut w 58 M58) in H. destruct H as [H|H]; [|right; right; left; exact H].
  destruct (rl_params l) as [|p ps] eqn:Eps.
  - cbn [flat_map] in H. rewrite app_nil_r in H. right; left; exact H.
  - cbn [flat_map] in H.
    change (rl_name l ++ (59 :: print_param p) ++ flat_map (fun p0 => 59 :: print_param p0) ps)
      with (rl_name l ++ 59 :: (print_param p ++ flat_map (fun p0 => 59 :: print_param p0) ps)) in H.
    apply (has_sub_cut w 59 M59) in H. destruct H as [H|H]; [right; left; exact H|].
    assert (has_sub w (flat_map (fun p0 => 59 :: print_param p0) (p :: ps)) = true) as H'.
    { cbn [flat_map app has_sub]. rewrite H. apply orb_true_r. }
    destruct (has_sub_params w Hs _ H') as [E|E]; [left; exact E|right; right; right; exact E].
Qed.

Lemma forb_unesc_sep_free : forallb (fun w => sep_free w && nonempty_b w && match w with c :: _ => c =? 37 | [] => false end) forb_unesc = true.
Proof. vm_compute. reflexivity. Qed.

Lemma unescape_fixed_avoids t : unescape_string t = t -> avoids forb_unesc t = true.
Proof.
  intros E. destruct (avoids forb_unesc t) eqn:A; [reflexivity|]. pose proof (unescape_p_lt t A) as L. rewrite E in L. lia.
Qed.

Lemma unescape_pval_fixed vs : unescape_pval (denote_values vs) = denote_values vs ->
  forall v, In v vs -> unescape_string (pvalue_text v) = pvalue_text v.
Proof.
  intros H.
  assert (map unescape_string (map pvalue_text vs) = map pvalue_text vs) as M.
  { destruct vs as [|a [|b r]]; cbn [denote_values unescape_pval] in H.
    - reflexivity.
    - apply (f_equal (fun x => match x with PStr t => t | PList _ => [] end)) in H. cbn [map]. rewrite H. reflexivity.
    - apply (f_equal (fun x => match x with PList t => t | PStr _ => [] end)) in H. exact H. }
  rewrite map_map in M. intros v Hv.
  assert (forall l, map (fun x => unescape_string (pvalue_text x)) l = map pvalue_text l -> In v l ->
                    unescape_string (pvalue_text v) = pvalue_text v) as G.
  { induction l as [|x l IH]; intros E Hin; [destruct Hin|]. cbn [map] in E. injection E as E1 E2.
    destruct Hin as [<-|Hin]; [exact E1|exact (IH E2 Hin)]. }
  exact (G vs M Hv).
Qed.

Theorem placeholder_clause_needed l : rfc_line_ok l = true -> guard_no_escape l = true -> guard_names_distinct l = true ->
  parts (rfc_print l) = Ok (rfc_denote l) -> guard_no_placeholder l = true.
Proof.
  intros Hok Hesc Hnd H. rewrite (first_parse_form l Hok Hesc Hnd) in H. inversion H as [[Eps Ev]]. clear H.
  unfold guard_no_placeholder. destruct (avoids forb_unesc (rfc_print l)) eqn:A; [reflexivity|exfalso].
  (* some placeholder occurs in the printed line *)
  unfold avoids in A.
  assert (exists w, In w forb_unesc /\ has_sub w (rfc_print l) = true) as (w & Hw & Hs).
  { destruct (forallb (fun f => negb (has_sub f (rfc_print l))) forb_unesc) eqn:F; [discriminate|].
    clear A. induction forb_unesc as [|f fs IH]; [discriminate|]. cbn [forallb] in F.
    destruct (has_sub f (rfc_print l)) eqn:Hf.
    - exists f. split; [left; reflexivity|exact Hf].
    - cbn [negb andb] in F. destruct (IH F) as (w & Hin & Hs). exists w. split; [right; exact Hin|exact Hs]. }
  pose proof forb_unesc_sep_free as SF. rewrite forallb_forall in SF. specialize (SF w Hw).
  rewrite !andb_true_iff in SF. destruct SF as [[SF Wne] W37].
  destruct w as [|c w0]; [discriminate|]. apply N.eqb_eq in W37. subst c.
  assert (forall t, has_sub (37 :: w0) t = true -> unescape_string t = t -> False) as Contra.
  { intros t Ht Et. pose proof (unescape_fixed_avoids t Et) as Av. unfold avoids in Av. rewrite forallb_forall in Av.
    specialize (Av _ Hw). rewrite Ht in Av. discriminate. }
  unfold rfc_line_ok in Hok. rewrite !andb_true_iff in Hok. destruct Hok as [[Hname Hps] _].
  assert (forall k, rfc_name_ok k = true -> has_sub (37 :: w0) k = true -> False) as NoName.
  { intros k Hk Hh. apply has_sub_hd in Hh. destruct (name_facts k Hk) as (_ & _ & _ & _ & _ & N37 & _).
    unfold no_chr in N37. rewrite Hh in N37. discriminate. }
  destruct (has_sub_print _ l SF Hs) as [E|[E|[E|(p & Hin & E)]]].
  - discriminate.
  - exact (NoName _ Hname E).
  - exact (Contra _ E Ev).
  - rewrite forallb_forall in Hps. destruct (param_ok_inv p (Hps p Hin)) as (Hk & _ & _).
    destruct E as [E|(v & Hv & E)]; [exact (NoName _ Hk E)|].
    apply (Contra _ E). apply (unescape_pval_fixed (snd p)); [|exact Hv].
    unfold unescape_params, denote_params in Eps. rewrite map_map in Eps. cbn [fst snd] in Eps.
    clear -Eps Hin. induction (rl_params l) as [|q qs IH]; [destruct Hin|].
    cbn [map] in Eps. inversion Eps as [[E1 E2]]. destruct Hin as [->|Hin]; [exact E1|]. apply IH; [exact E2|exact Hin].
Qed.

(* ------------------------------------------------------------------ the guard is exact *)
Theorem first_parse_exact l : rfc_line_ok l = true ->
  (parts (rfc_print l) = Ok (rfc_denote l) <-> first_parse_guard l = true).
Proof.
  intros Hok. split; [|apply first_parse_rfc; exact Hok].
  intros H. unfold first_parse_guard.
  destruct (guard_no_escape l) eqn:G1; [|exfalso; exact (escape_clause_needed l G1 H)].
  pose proof (names_clause_needed l H) as G3.
  rewrite (placeholder_clause_needed l Hok G1 G3 H), G3. reflexivity.
Qed.
