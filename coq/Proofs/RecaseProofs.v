(* Proofs for C09, letter case: a content line whose property name and parameter names are written in
   another letter case is split by Contentline.parts into the same parts (name equal after upper()),
   for EVERY line: the case relation is carried through the four replaces of escape_string (a position
   machine on the raw line knows that a ':' / ';' after a backslash is no delimiter), the scan, q_split and
   unescape_string; the component name of a BEGIN / END line without '%' may be recased too (placeholders
   stay intact through both chains); lifted to the line loop and to whole texts in every layout. *)
Require Import Lib.Base Lib.Chain Gen.Gen_parser Gen.Gen_cal Model.Fold Model.Params Model.Text Model.Contentline Model.Tree Model.Rewrite.
Require Import Proofs.ChainProofs Proofs.ReplaceProofs Proofs.ParamsProofs Proofs.ContentlineProofs Proofs.RewriteProofs.
From Coq Require Import Lia Arith.

(* ------------------------------------------------------------------ characters *)
Definition cveq (c c' : N) : Prop := c = c' \/ case_var c c' = true.

Lemma letter_range c : is_letter c = true -> (65 <= c <= 90) \/ (97 <= c <= 122).
Proof.
  unfold is_letter, is_lower, is_upper. rewrite orb_true_iff, !andb_true_iff, !N.leb_le. tauto.
Qed.

Lemma case_var_spec c c' : case_var c c' = true ->
  is_letter c = true /\ is_letter c' = true /\ upper_chr c = upper_chr c'.
Proof. unfold case_var. rewrite !andb_true_iff, N.eqb_eq. tauto. Qed.

(* a character that is not a letter is the same on both sides *)
Lemma cveq_nonletter c c' : cveq c c' -> is_letter c = false \/ is_letter c' = false -> c = c'.
Proof.
  intros [H|H] Hn; [exact H|]. apply case_var_spec in H. destruct H as (A & B & _).
  destruct Hn as [Hn|Hn]; congruence.
Qed.

Lemma cveq_eqb c c' k : cveq c c' -> is_letter k = false -> (c' =? k) = (c =? k).
Proof.
  intros H Hk. destruct H as [->|H]; [reflexivity|]. apply case_var_spec in H. destruct H as (A & B & _).
  destruct (N.eqb_spec c k) as [->|N1]; [congruence|]. destruct (N.eqb_spec c' k) as [->|N2]; [congruence|reflexivity].
Qed.

Lemma cveq_upper c c' : cveq c c' -> upper_chr c = upper_chr c'.
Proof. intros [->|H]; [reflexivity|]. apply case_var_spec in H. tauto. Qed.

Lemma cveq_ascii c c' : cveq c c' -> (c' <? 128) = (c <? 128).
Proof.
  intros [->|H]; [reflexivity|]. apply case_var_spec in H. destruct H as (A & B & _).
  apply letter_range in A, B. destruct (N.ltb_spec c 128); destruct (N.ltb_spec c' 128); try reflexivity; lia.
Qed.

Lemma cveq_token c c' : cveq c c' -> is_token_chr c' = is_token_chr c.
Proof.
  intros [->|H]; [reflexivity|]. apply case_var_spec in H. destruct H as (A & B & _).
  unfold is_token_chr. unfold is_letter in A, B.
  destruct (is_lower c) eqn:E1, (is_upper c) eqn:E2, (is_lower c') eqn:E3, (is_upper c') eqn:E4; cbn in A, B |- *; try reflexivity; discriminate.
Qed.

Lemma cveq_refl c : cveq c c. Proof. left. reflexivity. Qed.

Lemma flip_cveq c : cveq c (flip_chr c).
Proof.
  unfold flip_chr. destruct (is_lower c) eqn:E1.
  - right. unfold case_var, is_letter, upper_chr. rewrite E1. unfold is_lower, is_upper in *.
    apply andb_true_iff in E1. destruct E1 as [A B]. apply N.leb_le in A, B.
    assert ((97 <=? c - 32) = false) as F1 by (apply N.leb_gt; lia).
    assert ((65 <=? c - 32) = true) as F2 by (apply N.leb_le; lia).
    assert ((c - 32 <=? 90) = true) as F3 by (apply N.leb_le; lia).
    rewrite F1, F2, F3. cbn. apply N.eqb_refl.
  - destruct (is_upper c) eqn:E2; [|left; reflexivity].
    right. unfold case_var, is_letter, upper_chr. rewrite E1, E2. unfold is_lower, is_upper in *.
    apply andb_true_iff in E2. destruct E2 as [A B]. apply N.leb_le in A, B.
    assert ((97 <=? c + 32) = true) as F1 by (apply N.leb_le; lia).
    assert ((c + 32 <=? 122) = true) as F2 by (apply N.leb_le; lia).
    rewrite F1, F2. cbn. apply N.eqb_eq. lia.
Qed.

(* ------------------------------------------------------------------ strings related character by character *)
Lemma F2_length {A B} (R : A -> B -> Prop) l l' : Forall2 R l l' -> length l = length l'.
Proof. induction 1; [reflexivity|]. cbn. f_equal. assumption. Qed.

Lemma F2_firstn {A B} (R : A -> B -> Prop) : forall n l l', Forall2 R l l' -> Forall2 R (firstn n l) (firstn n l').
Proof.
  induction n as [|n IH]; intros l l' H; [constructor|]. destruct H; [constructor|]. cbn. constructor; [assumption|]. apply IH. assumption.
Qed.

Lemma F2_upper s s' : Forall2 cveq s s' -> upper s = upper s'.
Proof. unfold upper. induction 1 as [|c c' s s' H _ IH]; [reflexivity|]. cbn [map]. rewrite (cveq_upper c c' H), IH. reflexivity. Qed.

Lemma F2_all_ascii s s' : Forall2 cveq s s' -> all_ascii s' = all_ascii s.
Proof. unfold all_ascii. induction 1 as [|c c' s s' H _ IH]; [reflexivity|]. cbn [forallb]. rewrite (cveq_ascii c c' H), IH. reflexivity. Qed.

Lemma F2_token s s' : Forall2 cveq s s' -> forallb is_token_chr s' = forallb is_token_chr s.
Proof. induction 1 as [|c c' s s' H _ IH]; [reflexivity|]. cbn [forallb]. rewrite (cveq_token c c' H), IH. reflexivity. Qed.

(* ------------------------------------------------------------------ the position machine and the variant relation *)
Definition lrun (lv : level) (q : lstate) (s : list N) : lstate := fold_left (lstep lv) s q.

Lemma lstep_cveq lv q c c' : cveq c c' -> lstep lv q c' = lstep lv q c.
Proof.
  intros H. unfold lstep.
  rewrite (cveq_eqb c c' 58 H eq_refl), (cveq_eqb c c' 59 H eq_refl), (cveq_eqb c c' 61 H eq_refl),
          (cveq_eqb c c' 92 H eq_refl), (cveq_eqb c c' 34 H eq_refl). reflexivity.
Qed.

Lemma variant_cons here lv q c r c' r' : variant_from here lv q (c :: r) (c' :: r') = true <->
  (c = c' \/ (here q = true /\ case_var c c' = true)) /\ variant_from here lv (lstep lv q c) r r' = true.
Proof.
  cbn [variant_from]. rewrite andb_true_iff, orb_true_iff, andb_true_iff, N.eqb_eq. tauto.
Qed.

Lemma variant_head_cveq here lv q c r c' r' : variant_from here lv q (c :: r) (c' :: r') = true -> cveq c c'.
Proof. intros H. apply variant_cons in H. destruct H as [[H|[_ H]] _]; [left|right]; assumption. Qed.

Lemma variant_F2 here lv : forall s s' q, variant_from here lv q s s' = true -> Forall2 cveq s s'.
Proof.
  induction s as [|c r IH]; intros [|c' r'] q H; try discriminate; [constructor|].
  pose proof (variant_head_cveq _ _ _ _ _ _ _ H) as Hc. apply variant_cons in H. destruct H as [_ H].
  constructor; [exact Hc|]. apply (IH r' _ H).
Qed.

Lemma variant_refl here lv : forall s q, variant_from here lv q s s = true.
Proof. induction s as [|c r IH]; intros q; [reflexivity|]. apply variant_cons. split; [left; reflexivity|apply IH]. Qed.

Lemma variant_app here lv : forall a a' q b b', length a = length a' ->
  variant_from here lv q (a ++ b) (a' ++ b') = true <->
  variant_from here lv q a a' = true /\ variant_from here lv (lrun lv q a) b b' = true.
Proof.
  induction a as [|c a IH]; intros [|c' a'] q b b' Hl; try discriminate.
  - cbn [app lrun fold_left variant_from]. tauto.
  - cbn [app]. rewrite !variant_cons. cbn [length] in Hl. injection Hl as Hl.
    rewrite (IH a' (lstep lv q c) b b' Hl). unfold lrun. cbn [fold_left]. tauto.
Qed.

(* where [here] is false from now on, nothing may differ *)
Lemma variant_frozen here lv : forall s s' q, (forall t, here (lrun lv q t) = false) ->
  variant_from here lv q s s' = true -> s = s'.
Proof.
  induction s as [|c r IH]; intros [|c' r'] q Hf H; try discriminate; [reflexivity|].
  apply variant_cons in H. destruct H as [Hc H].
  destruct Hc as [Hc|[Hh _]]; [subst c'|pose proof (Hf []) as F0; cbn in F0; congruence].
  f_equal. apply (IH r' (lstep lv q c)); [|exact H]. intros t. apply (Hf (c :: t)).
Qed.

Lemma ph_value_step lv q c : l_ph q = PValue -> l_ph (lstep lv q c) = PValue.
Proof. intros H. unfold lstep. cbn [l_ph]. rewrite H. reflexivity. Qed.

Lemma ph_value_run lv : forall t q, l_ph q = PValue -> l_ph (lrun lv q t) = PValue.
Proof.
  induction t as [|c t IH]; intros q H; [exact H|]. unfold lrun in *. cbn [fold_left]. apply IH. apply ph_value_step. exact H.
Qed.

(* the function form produces a variant *)
Lemma recase_variant here lv f : forall s q i, variant_from here lv q s (recase_from here lv q f i s) = true.
Proof.
  induction s as [|c r IH]; intros q i; [reflexivity|]. cbn [recase_from]. apply variant_cons. split; [|apply IH].
  destruct (f i && here q) eqn:E; [|left; reflexivity]. apply andb_true_iff in E. destruct E as [_ E].
  destruct (flip_cveq c) as [H|H]; [left; exact H|right; split; assumption].
Qed.

(* ------------------------------------------------------------------ the variant relation through one str.replace *)
Lemma is_prefix_F2 : forall pat, forallb (fun c => negb (is_letter c)) pat = true ->
  forall s s', Forall2 cveq s s' -> is_prefix pat s' = is_prefix pat s.
Proof.
  induction pat as [|x pat IH]; intros Hp s s' H; [reflexivity|].
  cbn [forallb] in Hp. apply andb_true_iff in Hp. destruct Hp as [Hx Hp]. apply negb_true_iff in Hx.
  destruct H as [|c c' s s' Hc H]; [reflexivity|]. cbn [is_prefix].
  rewrite (N.eqb_sym x c'), (N.eqb_sym x c), (cveq_eqb c c' x Hc Hx), (IH Hp s s' H). reflexivity.
Qed.

Section Stage.
  Variable here : lstate -> bool.
  Variables (d : N) (rep : list N) (lv lv' : level) (np : bool).
  Hypothesis Hd : is_letter d = false.
  Hypothesis Hnp : np = true -> d <> 92.
  Hypothesis Hstep : forall q c, (np = true -> l_bs q = true -> c <> d) -> lstep lv' q c = lstep lv q c.
  Hypothesis Hrep : forall q x x', variant_from here lv' (lstep lv (lstep lv q 92) d) x x' = true ->
    variant_from here lv' q (rep ++ x) (rep ++ x') = true.

  Lemma stage_variant : forall n s s' q, (length s <= n)%nat -> variant_from here lv q s s' = true ->
    (np = true -> l_bs q = true -> hd_error s <> Some d) ->
    variant_from here lv' q (py_replace_aux [92; d] rep 0 s) (py_replace_aux [92; d] rep 0 s') = true.
  Proof.
    induction n as [|n IH]; intros s s' q Hl H Hpre.
    - destruct s; [|cbn [length] in Hl; lia]. destruct s'; [reflexivity|discriminate].
    - destruct s as [|c r]; [destruct s'; [reflexivity|discriminate]|]. destruct s' as [|c' r']; [discriminate|].
      pose proof (variant_F2 _ _ _ _ _ H) as HF.
      assert (is_prefix [92; d] (c' :: r') = is_prefix [92; d] (c :: r)) as Ep.
      { apply is_prefix_F2; [|exact HF]. cbn [forallb]. rewrite Hd. reflexivity. }
      cbn [py_replace_aux]. rewrite Ep. change (@length N [92%N; d] - 1)%nat with 1%nat.
      destruct (is_prefix [92; d] (c :: r)) eqn:E.
      + (* a match: c = backslash, r = d :: r2 *)
        cbn [is_prefix] in E. apply andb_true_iff in E. destruct E as [E1 E2]. apply N.eqb_eq in E1. subst c.
        destruct r as [|y r2]; [discriminate|]. apply andb_true_iff in E2. destruct E2 as [E2 _]. apply N.eqb_eq in E2. subst y.
        inversion HF as [|? ? ? ? Hc0 HF1]; subst. inversion HF1 as [|? ? ? ? Hc1 HF2]; subst.
        apply cveq_nonletter in Hc0; [|left; reflexivity]. subst c'.
        apply cveq_nonletter in Hc1; [|left; exact Hd]. subst.
        cbn [py_replace_aux]. apply Hrep.
        apply variant_cons in H. destruct H as [_ H]. apply variant_cons in H. destruct H as [_ H].
        apply IH; [cbn [length] in Hl; lia|exact H|].
        intros Hn Hb. exfalso. unfold lstep in Hb. cbn [l_bs] in Hb. apply N.eqb_eq in Hb. exact (Hnp Hn Hb).
      + apply variant_cons in H. destruct H as [Hc H]. apply variant_cons. split; [exact Hc|].
        rewrite Hstep.
        * apply IH; [cbn [length] in Hl; lia|exact H|].
          intros Hn Hb Hh. unfold lstep in Hb. cbn [l_bs] in Hb. apply N.eqb_eq in Hb. subst c.
          destruct r as [|y r2]; [discriminate|]. cbn [hd_error] in Hh. injection Hh as ->.
          cbn [is_prefix] in E. rewrite !N.eqb_refl in E. discriminate.
        * intros Hn Hb Hcd. subst c. apply (Hpre Hn Hb). reflexivity.
  Qed.
End Stage.

(* once the text is escaped the backslash flag plays no part *)
Definition same_pos (q q' : lstate) : Prop := l_inq q = l_inq q' /\ l_ph q = l_ph q'.
Definition pos_only (here : lstate -> bool) : Prop := forall q q', same_pos q q' -> here q = here q'.

Lemma lstep_esc_pos q q' c : same_pos q q' -> lstep esc_level q c = lstep esc_level q' c.
Proof. intros [A B]. unfold lstep, live, esc_level. cbn [fst snd andb negb]. rewrite A, B. reflexivity. Qed.

Lemma variant_esc_pos here : pos_only here -> forall s s' q q', same_pos q q' ->
  variant_from here esc_level q s s' = variant_from here esc_level q' s s'.
Proof.
  intros Hh. induction s as [|c r IH]; intros [|c' r'] q q' Hq; try reflexivity.
  cbn [variant_from]. rewrite (Hh q q' Hq), (lstep_esc_pos q q' c Hq). reflexivity.
Qed.

Lemma name_here_pos : pos_only name_here.
Proof. intros q q' [A B]. unfold name_here. rewrite A, B. reflexivity. Qed.
Lemma value_here_pos : pos_only value_here.
Proof. intros q q' [A B]. unfold value_here. rewrite B. reflexivity. Qed.

(* ------------------------------------------------------------------ through escape_string *)
Definition lv_mid : level := (false, true).

Lemma rep_variant here lv q (rep x x' : list N) q2 :
  lrun lv q rep = q2 -> variant_from here lv q2 x x' = true -> variant_from here lv q (rep ++ x) (rep ++ x') = true.
Proof.
  intros E H. apply variant_app; [reflexivity|]. split; [apply variant_refl|]. rewrite E. exact H.
Qed.

Section EscStages.
  Variable here : lstate -> bool.
  Hypothesis Hpos : pos_only here.

  Lemma esc_stage1 s s' q : variant_from here raw_level q s s' = true ->
    variant_from here raw_level q (py_replace [92; 44] [37; 50; 67] s) (py_replace [92; 44] [37; 50; 67] s') = true.
  Proof.
    intros H. unfold py_replace.
    apply (stage_variant here 44 [37; 50; 67] raw_level raw_level false eq_refl) with (n := length s).
    - intros Hn. discriminate.
    - intros q0 c _. reflexivity.
    - intros q0 x x' Hx. apply (rep_variant here raw_level q0 [37; 50; 67] x x' (lstep raw_level (lstep raw_level q0 92) 44)); [|exact Hx].
      destruct q0 as [b i p]; destruct b, i, p; reflexivity.
    - lia.
    - exact H.
    - intros Hn. discriminate.
  Qed.

  Lemma step_mid q c : (l_bs q = true -> c <> 58) -> lstep lv_mid q c = lstep raw_level q c.
  Proof.
    intros H. unfold lstep, live, lv_mid, raw_level. cbn [fst snd].
    destruct (N.eqb_spec c 58) as [->|Hc]; [|reflexivity].
    destruct (l_bs q); [exfalso; apply H; reflexivity|]. reflexivity.
  Qed.

  Lemma esc_stage2 s s' q : l_bs q = false -> variant_from here raw_level q s s' = true ->
    variant_from here lv_mid q (py_replace [92; 58] [37; 51; 65] s) (py_replace [92; 58] [37; 51; 65] s') = true.
  Proof.
    intros Hb H. unfold py_replace.
    apply (stage_variant here 58 [37; 51; 65] raw_level lv_mid true eq_refl) with (n := length s); [| | |lia|exact H|].
    - intros _. discriminate.
    - intros q0 c Hc. apply step_mid. intros Hb0. apply Hc; [reflexivity|exact Hb0].
    - intros q0 x x' Hx. apply (rep_variant here lv_mid q0 [37; 51; 65] x x' (lstep raw_level (lstep raw_level q0 92) 58)); [|exact Hx].
      destruct q0 as [b i p]; destruct b, i, p; reflexivity.
    - intros _ Hb0. congruence.
  Qed.

  Lemma step_esc q c : (l_bs q = true -> c <> 59) -> lstep esc_level q c = lstep lv_mid q c.
  Proof.
    intros H. unfold lstep, live, lv_mid, esc_level. cbn [fst snd].
    destruct (N.eqb_spec c 59) as [->|Hc]; [|reflexivity].
    destruct (l_bs q); [exfalso; apply H; reflexivity|]. reflexivity.
  Qed.

  Lemma esc_stage3 s s' q : l_bs q = false -> variant_from here lv_mid q s s' = true ->
    variant_from here esc_level q (py_replace [92; 59] [37; 51; 66] s) (py_replace [92; 59] [37; 51; 66] s') = true.
  Proof.
    intros Hb H. unfold py_replace.
    apply (stage_variant here 59 [37; 51; 66] lv_mid esc_level true eq_refl) with (n := length s); [| | |lia|exact H|].
    - intros _. discriminate.
    - intros q0 c Hc. apply step_esc. intros Hb0. apply Hc; [reflexivity|exact Hb0].
    - intros q0 x x' Hx. apply (rep_variant here esc_level q0 [37; 51; 66] x x' (lstep lv_mid (lstep lv_mid q0 92) 59)); [|exact Hx].
      destruct q0 as [b i p]; destruct b, i, p; reflexivity.
    - intros _ Hb0. congruence.
  Qed.

  Lemma esc_stage4 s s' q : variant_from here esc_level q s s' = true ->
    variant_from here esc_level q (py_replace [92; 92] [37; 53; 67] s) (py_replace [92; 92] [37; 53; 67] s') = true.
  Proof.
    intros H. unfold py_replace.
    apply (stage_variant here 92 [37; 53; 67] esc_level esc_level false eq_refl) with (n := length s).
    - intros Hn. discriminate.
    - intros q0 c _. reflexivity.
    - intros q0 x x' Hx. apply (rep_variant here esc_level q0 [37; 53; 67] x x' _ eq_refl).
      rewrite (variant_esc_pos here Hpos x x' _ (lstep esc_level (lstep esc_level q0 92) 92)); [exact Hx|].
      destruct q0 as [b i p]; destruct b, i, p; split; reflexivity.
    - lia.
    - exact H.
    - intros Hn. discriminate.
  Qed.

  Lemma escape_string_variant line line' : variant_from here raw_level lstart line line' = true ->
    variant_from here esc_level lstart (escape_string line) (escape_string line') = true.
  Proof.
    intros H. unfold escape_string.
    rewrite !seq_run_py_replace by (apply pats_nonempty_Forall; exact esc_chain_nonempty).
    change escape_string_chain with [([92; 44], [37; 50; 67]); ([92; 58], [37; 51; 65]); ([92; 59], [37; 51; 66]); ([92; 92], [37; 53; 67])].
    cbn [fold_left fst snd].
    apply esc_stage4, esc_stage3, esc_stage2, esc_stage1; try reflexivity. exact H.
  Qed.
End EscStages.

(* ------------------------------------------------------------------ the name: validate_token (unescape_string _) *)
Lemma py_replace_ind (pat rep : list N) (P : list N -> list N -> Prop) : pat <> [] ->
  P [] [] ->
  (forall t, P t (py_replace pat rep t) -> P (pat ++ t) (rep ++ py_replace pat rep t)) ->
  (forall c r, is_prefix pat (c :: r) = false -> P r (py_replace pat rep r) -> P (c :: r) (c :: py_replace pat rep r)) ->
  forall s, P s (py_replace pat rep s).
Proof.
  intros Hne H0 Hm Hc.
  assert (forall n s, (length s <= n)%nat -> P s (py_replace pat rep s)) as Hall.
  { induction n as [|n IH]; intros s Hl.
    - destruct s; [exact H0|cbn [length] in Hl; lia].
    - destruct s as [|c r]; [exact H0|].
      destruct (is_prefix pat (c :: r)) eqn:E.
      + apply is_prefix_spec in E. destruct E as [t Ht]. rewrite Ht. unfold py_replace. rewrite (aux_match pat rep t Hne).
        apply Hm. apply IH.
        assert (length (c :: r) = length pat + length t)%nat as Hlen by (rewrite Ht, app_length; reflexivity).
        destruct pat; [congruence|]. cbn [length] in *. lia.
      + unfold py_replace. cbn [py_replace_aux]. rewrite E. apply (Hc c r E). apply IH. cbn [length] in Hl. lia. }
  intros s. apply (Hall (length s)). lia.
Qed.

Lemma all_ascii_app a b : all_ascii (a ++ b) = all_ascii a && all_ascii b.
Proof. unfold all_ascii. apply forallb_app. Qed.

Lemma replace_ascii pat rep s : pat <> [] -> all_ascii pat = true -> all_ascii rep = true ->
  all_ascii (py_replace pat rep s) = all_ascii s.
Proof.
  intros Hne Hp Hr. apply (py_replace_ind pat rep (fun s o => all_ascii o = all_ascii s) Hne).
  - reflexivity.
  - intros t IH. rewrite !all_ascii_app, Hp, Hr, IH. reflexivity.
  - intros c r _ IH. unfold all_ascii in *. cbn [forallb]. rewrite IH. reflexivity.
Qed.

Lemma replace_token pat rep s : pat <> [] -> forallb is_token_chr rep = false ->
  forallb is_token_chr (py_replace pat rep s) = true -> forallb is_token_chr s = true.
Proof.
  intros Hne Hr. apply (py_replace_ind pat rep (fun s o => forallb is_token_chr o = true -> forallb is_token_chr s = true) Hne).
  - intros _. reflexivity.
  - intros t _ H. rewrite forallb_app, Hr in H. discriminate.
  - intros c r _ IH H. cbn [forallb] in *. apply andb_true_iff in H. destruct H as [H1 H2]. rewrite H1, (IH H2). reflexivity.
Qed.

Lemma unescape_string_unfold s : unescape_string s =
  py_replace [37; 53; 67] [92] (py_replace [37; 51; 66] [59] (py_replace [37; 51; 65] [58] (py_replace [37; 50; 67] [44] s))).
Proof.
  unfold unescape_string. rewrite seq_run_py_replace by (apply pats_nonempty_Forall; exact unesc_chain_nonempty). reflexivity.
Qed.

Lemma unescape_ascii s : all_ascii (unescape_string s) = all_ascii s.
Proof. rewrite unescape_string_unfold. rewrite !replace_ascii by (reflexivity || discriminate). reflexivity. Qed.

Lemma unescape_token s : forallb is_token_chr (unescape_string s) = true -> forallb is_token_chr s = true.
Proof.
  rewrite unescape_string_unfold. intros H.
  apply replace_token in H; [|discriminate|reflexivity]. apply replace_token in H; [|discriminate|reflexivity].
  apply replace_token in H; [|discriminate|reflexivity]. apply replace_token in H; [|discriminate|reflexivity]. exact H.
Qed.

Lemma token_no_chr k s : is_token_chr k = false -> forallb is_token_chr s = true -> no_chr k s = true.
Proof.
  intros Hk. induction s as [|c s IH]; intros H; [reflexivity|]. cbn [forallb] in H. apply andb_true_iff in H. destruct H as [H1 H2].
  apply no_chr_cons. split; [|apply IH; exact H2]. intros ->. congruence.
Qed.

Lemma token_unescape_id s : forallb is_token_chr s = true -> unescape_string s = s.
Proof. intros H. apply unescape_string_nopct. apply token_no_chr; [reflexivity|exact H]. Qed.

Lemma validate_name_variant nm nm' : Forall2 cveq nm nm' ->
  validate_token (unescape_string nm') = validate_token (unescape_string nm) /\
  (forall u, validate_token (unescape_string nm) = Ok u ->
     unescape_string nm = nm /\ unescape_string nm' = nm' /\ forallb is_token_chr nm = true /\ nm <> []).
Proof.
  intros HF.
  pose proof (F2_all_ascii _ _ HF) as Ha. pose proof (F2_token _ _ HF) as Ht.
  destruct (forallb is_token_chr nm) eqn:T.
  - rewrite (token_unescape_id nm T), (token_unescape_id nm' Ht). split.
    + unfold validate_token. rewrite Ha, Ht, T. destruct HF; reflexivity.
    + intros u Hu. repeat split; try reflexivity. intros ->. discriminate.
  - assert (forallb is_token_chr (unescape_string nm) = false) as U.
    { destruct (forallb is_token_chr (unescape_string nm)) eqn:E; [|reflexivity]. apply unescape_token in E. congruence. }
    assert (forallb is_token_chr (unescape_string nm') = false) as U'.
    { destruct (forallb is_token_chr (unescape_string nm')) eqn:E; [|reflexivity]. apply unescape_token in E. congruence. }
    unfold validate_token. rewrite !unescape_ascii, Ha, U, U'. split.
    + destruct (all_ascii nm); cbn [negb]; [|reflexivity]. destruct (unescape_string nm), (unescape_string nm'); reflexivity.
    + intros u Hu. destruct (all_ascii nm); cbn [negb] in Hu; [|discriminate]. destruct (unescape_string nm); discriminate.
Qed.

(* ------------------------------------------------------------------ the scan of parts(), as a decomposition *)
Definition parts_tail (st : list N) (ns vs : option nat) (name : list N) : res (list N * params * list N) :=
  let vsp := if falsy vs then length st else match vs with Some v => v | None => O end in
  match ns with
  | None => ValueErr
  | Some O => ValueErr
  | Some nsp =>
      if (S nsp =? vsp)%nat then ValueErr
      else bind (params_from_ical (slice (S nsp) vsp st)) (fun ps =>
           Ok (name, rebuild_params ps [], unescape_string (skipn (S vsp) st)))
  end.
Definition name_part (st : list N) (ns : option nat) : list N := match ns with Some n => firstn n st | None => st end.

Lemma parts_alt line : parts line =
  let st := escape_string line in
  let '(ns, vs) := scan 0 false None None st in
  let name := unescape_string (name_part st ns) in
  bind (validate_token name) (fun _ => parts_tail st ns vs name).
Proof.
  unfold parts, parts_tail, name_part. cbv zeta. destruct (scan 0 false None None (escape_string line)) as [ns vs].
  destruct (unescape_string match ns with Some n => firstn n (escape_string line) | None => escape_string line end); reflexivity.
Qed.

Lemma scan_F2 : forall s s' i inq ns vs, Forall2 cveq s s' -> scan i inq ns vs s' = scan i inq ns vs s.
Proof.
  intros s s' i inq ns vs H. revert i inq ns vs. induction H as [|c c' s s' Hc _ IH]; intros i inq ns vs; [reflexivity|].
  cbn [scan]. rewrite (cveq_eqb c c' 58 Hc eq_refl), (cveq_eqb c c' 59 Hc eq_refl), (cveq_eqb c c' 34 Hc eq_refl). apply IH.
Qed.

(* first character outside quotes that satisfies p *)
Fixpoint qfind (p : N -> bool) (inq : bool) (s : list N) : option (list N * N * list N) :=
  match s with
  | [] => None
  | c :: r => if negb inq && p c then Some ([], c, r)
              else match qfind p (if c =? 34 then negb inq else inq) r with
                   | Some (a, d, b) => Some (c :: a, d, b)
                   | None => None
                   end
  end.
Definition is_delim (c : N) : bool := (c =? 58) || (c =? 59).
Definition is_colon (c : N) : bool := c =? 58.

Lemma qfind_spec p : forall s inq a d b, qfind p inq s = Some (a, d, b) -> s = a ++ d :: b /\ p d = true.
Proof.
  induction s as [|c r IH]; intros inq a d b H; [discriminate|]. cbn [qfind] in H.
  destruct (negb inq && p c) eqn:E.
  - injection H as <- <- <-. apply andb_true_iff in E. split; [reflexivity|tauto].
  - destruct (qfind p (if c =? 34 then negb inq else inq) r) as [[[a0 d0] b0]|] eqn:F; [|discriminate].
    injection H as <- <- <-. destruct (IH _ _ _ _ F) as [-> Hp]. split; [reflexivity|exact Hp].
Qed.

Lemma scan_name_find : forall s i inq, (1 <= i)%nat ->
  scan i inq None None s =
  match qfind is_delim inq s with
  | None => (None, None)
  | Some (a, d, b) => scan (S (i + length a)) false (Some (i + length a)%nat) (if d =? 58 then Some (i + length a)%nat else None) b
  end.
Proof.
  induction s as [|c r IH]; intros i inq Hi; [reflexivity|]. cbn [scan qfind falsy]. rewrite !andb_true_r. unfold is_delim at 1.
  destruct (negb inq && ((c =? 58) || (c =? 59))) eqn:E.
  - apply andb_true_iff in E. destruct E as [E1 E2]. rewrite E1. cbn [andb length]. rewrite Nat.add_0_r.
    apply negb_true_iff in E1. subst inq.
    assert ((c =? 34) = false) as Q.
    { apply orb_true_iff in E2. destruct E2 as [E2|E2]; apply N.eqb_eq in E2; subst c; reflexivity. }
    rewrite Q. reflexivity.
  - assert (negb inq && (c =? 58) = false) as E'.
    { destruct (negb inq); [|reflexivity]. cbn [andb] in *. apply orb_false_iff in E. tauto. }
    rewrite E'. rewrite (IH (S i) _ ltac:(lia)).
    destruct (qfind is_delim (if c =? 34 then negb inq else inq) r) as [[[a d] b]|]; [|reflexivity].
    cbn [length]. rewrite !Nat.add_succ_r. reflexivity.
Qed.

Lemma scan_colon_find : forall s j inq k, (1 <= k)%nat -> (1 <= j)%nat ->
  scan j inq (Some k) None s =
  match qfind is_colon inq s with
  | None => (Some k, None)
  | Some (a, _, b) => (Some k, Some (j + length a)%nat)
  end.
Proof.
  induction s as [|c r IH]; intros j inq k Hk Hj; [reflexivity|]. cbn [scan qfind].
  assert (falsy (Some k) = false) as Fk by (destruct k; [lia|reflexivity]). rewrite Fk, andb_false_r.
  cbn [falsy]. rewrite andb_true_r. unfold is_colon at 1.
  destruct (negb inq && (c =? 58)) eqn:E.
  - cbn [length]. rewrite Nat.add_0_r. apply scan_tail; unfold nf; [exact Fk|]. destruct j; [lia|reflexivity].
  - rewrite (IH (S j) _ k Hk ltac:(lia)).
    destruct (qfind is_colon (if c =? 34 then negb inq else inq) r) as [[[a d] b]|]; [|reflexivity].
    cbn [length]. rewrite Nat.add_succ_r. reflexivity.
Qed.

(* the state of the position machine where qfind stops *)
Lemma qfind_inq p lv : forall s q a d b, qfind p (l_inq q) s = Some (a, d, b) -> l_inq (lrun lv q a) = false.
Proof.
  induction s as [|c r IH]; intros q a d b H; [discriminate|]. cbn [qfind] in H.
  destruct (negb (l_inq q) && p c) eqn:E.
  - injection H as <- <- <-. apply andb_true_iff in E. destruct E as [E _]. apply negb_true_iff in E. exact E.
  - destruct (qfind p (if c =? 34 then negb (l_inq q) else l_inq q) r) as [[[a0 d0] b0]|] eqn:F; [|discriminate].
    injection H as <- <- <-. unfold lrun. cbn [fold_left]. apply (IH (lstep lv q c) a0 d0 b0). exact F.
Qed.

Lemma qfind_name_ph : forall s q a d b, l_ph q = PName -> qfind is_delim (l_inq q) s = Some (a, d, b) ->
  l_ph (lrun esc_level q a) = PName.
Proof.
  induction s as [|c r IH]; intros q a d b Hq H; [discriminate|]. cbn [qfind] in H.
  destruct (negb (l_inq q) && is_delim c) eqn:E.
  - injection H as <- <- <-. exact Hq.
  - destruct (qfind is_delim (if c =? 34 then negb (l_inq q) else l_inq q) r) as [[[a0 d0] b0]|] eqn:F; [|discriminate].
    injection H as <- <- <-. unfold lrun. cbn [fold_left]. apply (IH (lstep esc_level q c) a0 d0 b0); [|exact F].
    unfold lstep, live, esc_level. cbn [fst snd l_ph andb negb]. rewrite Hq. rewrite andb_true_r.
    unfold is_delim in E. destruct (negb (l_inq q)); [|rewrite !andb_false_r; reflexivity].
    cbn [andb] in E. apply orb_false_iff in E. destruct E as [-> ->]. reflexivity.
Qed.

(* ------------------------------------------------------------------ q_split as repeated qfind *)
Definition is_semi (c : N) : bool := c =? 59.
Definition is_eq (c : N) : bool := c =? 61.

Lemma qsplit_one_find : forall s inq cur,
  q_split_aux 61 (Some 1%nat) inq 0 cur s =
  match s with
  | [] => []
  | _ => match qfind is_eq inq s with
         | None => [rev cur ++ s]
         | Some (a, _, b) => [rev cur ++ a; b]
         end
  end.
Proof.
  induction s as [|ch r IH]; intros inq cur; [reflexivity|]. cbn [q_split_aux qfind]. unfold is_eq at 1.
  destruct (N.eqb_spec ch 61) as [->|Hne].
  - cbn [N.eqb Pos.eqb]. rewrite !andb_true_r. destruct (negb inq); cbn [Nat.eqb orb].
    + rewrite orb_true_r, app_nil_r. reflexivity.
    + rewrite orb_false_r. destruct r as [|c2 r2]; [cbn [qfind rev]; rewrite ?app_nil_r; reflexivity|].
      rewrite IH. destruct (qfind is_eq inq (c2 :: r2)) as [[[a d] b]|]; cbn [rev]; rewrite <- app_assoc; reflexivity.
  - rewrite !andb_false_r. cbn [Nat.eqb]. rewrite orb_false_r. destruct r as [|c2 r2]; [cbn [qfind rev]; rewrite ?app_nil_r; reflexivity|].
    rewrite IH. destruct (qfind is_eq (if ch =? 34 then negb inq else inq) (c2 :: r2)) as [[[a d] b]|]; cbn [rev]; rewrite <- app_assoc; reflexivity.
Qed.

Lemma qsplit_none_find : forall s inq n cur,
  q_split_aux 59 None inq n cur s =
  match s with
  | [] => []
  | _ => match qfind is_semi inq s with
         | None => [rev cur ++ s]
         | Some (a, _, b) => (rev cur ++ a) :: match b with [] => [[]] | _ => q_split_aux 59 None false (S n) [] b end
         end
  end.
Proof.
  induction s as [|ch r IH]; intros inq n cur; [reflexivity|]. cbn [q_split_aux qfind]. unfold is_semi at 1.
  destruct (N.eqb_spec ch 59) as [->|Hne].
  - cbn [N.eqb Pos.eqb]. rewrite !andb_true_r. destruct inq; cbn [negb].
    + rewrite !orb_false_r. destruct r as [|c2 r2]; [cbn [qfind rev]; rewrite ?app_nil_r; reflexivity|].
      rewrite IH. destruct (qfind is_semi true (c2 :: r2)) as [[[a d] b]|]; cbn [rev]; rewrite <- app_assoc; reflexivity.
    + rewrite app_nil_r. rewrite orb_false_r. destruct r; reflexivity.
  - rewrite !andb_false_r. rewrite orb_false_r. destruct r as [|c2 r2]; [cbn [qfind rev]; rewrite ?app_nil_r; reflexivity|].
    rewrite IH. destruct (qfind is_semi (if ch =? 34 then negb inq else inq) (c2 :: r2)) as [[[a d] b]|]; cbn [rev]; rewrite <- app_assoc; reflexivity.
Qed.

(* ------------------------------------------------------------------ parameters: names in another case parse to the same Parameters *)

Lemma qfind_F2 p : (forall c c', cveq c c' -> p c' = p c) -> forall s s' inq, Forall2 cveq s s' ->
  qfind p inq s = None -> qfind p inq s' = None.
Proof.
  intros Hp s s' inq H. revert inq. induction H as [|c c' s s' Hc _ IH]; intros inq E; [reflexivity|].
  cbn [qfind] in *. rewrite (Hp c c' Hc), (cveq_eqb c c' 34 Hc eq_refl).
  destruct (negb inq && p c); [discriminate|].
  destruct (qfind p (if c =? 34 then negb inq else inq) s) as [[[a d] b]|] eqn:F; [discriminate|]. rewrite (IH _ F). reflexivity.
Qed.

Lemma ph_notname_step lv q c : l_ph q <> PName -> l_ph (lstep lv q c) <> PName.
Proof.
  intros H. unfold lstep. cbn [l_ph]. destruct (l_ph q); [congruence| | |discriminate].
  - destruct (_ && _); [discriminate|]. destruct (_ && _); [discriminate|]. destruct (_ && _); discriminate.
  - destruct (_ && _); [discriminate|]. destruct (_ && _); discriminate.
Qed.

Lemma ph_notname_run lv : forall t q, l_ph q <> PName -> l_ph (lrun lv q t) <> PName.
Proof.
  induction t as [|c t IH]; intros q H; [exact H|]. unfold lrun in *. cbn [fold_left]. apply IH. apply ph_notname_step. exact H.
Qed.

(* inside a parameter value without an unquoted ';' nothing may differ *)
Lemma frozen_val : forall v v' q, (l_ph q = PVal \/ l_ph q = PValue) -> qfind is_semi (l_inq q) v = None ->
  variant_from name_here esc_level q v v' = true -> v = v'.
Proof.
  induction v as [|c r IH]; intros [|c' r'] q Hq Hs H; try discriminate; [reflexivity|].
  apply variant_cons in H. destruct H as [Hc H].
  assert (name_here q = false) as Hn by (unfold name_here; destruct Hq as [-> | ->]; apply andb_false_r).
  destruct Hc as [Hc|[Hh _]]; [subst c'|congruence].
  cbn [qfind] in Hs. destruct (negb (l_inq q) && is_semi c) eqn:E; [discriminate|].
  destruct (qfind is_semi (if c =? 34 then negb (l_inq q) else l_inq q) r) as [[[a d] b]|] eqn:F; [discriminate|].
  f_equal. apply (IH r' (lstep esc_level q c)); [| exact F | exact H].
  unfold lstep, live, esc_level, is_semi in *. cbn [fst snd l_ph andb negb]. rewrite andb_true_r.
  rewrite (andb_comm (c =? 59)), E.
  destruct Hq as [-> | ->]; [|right; reflexivity]. destruct ((c =? 58) && negb (l_inq q)); [right|left]; reflexivity.
Qed.

Lemma validate_token_F2 k k' : Forall2 cveq k k' -> validate_token k' = validate_token k.
Proof.
  intros H. unfold validate_token. rewrite (F2_all_ascii _ _ H), (F2_token _ _ H). destruct H; reflexivity.
Qed.

Lemma is_eq_cveq c c' : cveq c c' -> is_eq c' = is_eq c.
Proof. intros H. apply (cveq_eqb c c' 61 H eq_refl). Qed.
Lemma is_semi_cveq c c' : cveq c c' -> is_semi c' = is_semi c.
Proof. intros H. apply (cveq_eqb c c' 59 H eq_refl). Qed.
Lemma is_colon_cveq c c' : cveq c c' -> is_colon c' = is_colon c.
Proof. intros H. apply (cveq_eqb c c' 58 H eq_refl). Qed.
Lemma is_delim_cveq c c' : cveq c c' -> is_delim c' = is_delim c.
Proof. intros H. unfold is_delim. rewrite (cveq_eqb c c' 58 H eq_refl), (cveq_eqb c c' 59 H eq_refl). reflexivity. Qed.

Lemma is_eq_nl c : is_eq c = true -> is_letter c = false.
Proof. intros H. apply N.eqb_eq in H. subst c. reflexivity. Qed.
Lemma is_semi_nl c : is_semi c = true -> is_letter c = false.
Proof. intros H. apply N.eqb_eq in H. subst c. reflexivity. Qed.
Lemma is_colon_nl c : is_colon c = true -> is_letter c = false.
Proof. intros H. apply N.eqb_eq in H. subst c. reflexivity. Qed.
Lemma is_delim_nl c : is_delim c = true -> is_letter c = false.
Proof. intros H. apply orb_true_iff in H. destruct H as [H|H]; apply N.eqb_eq in H; subst c; reflexivity. Qed.

(* qfind on the other side of a variant *)
Lemma qfind_variant p here lv : (forall c c', cveq c c' -> p c' = p c) -> (forall c, p c = true -> is_letter c = false) ->
  forall s s' q a d b, variant_from here lv q s s' = true -> qfind p (l_inq q) s = Some (a, d, b) ->
  exists a' b', qfind p (l_inq q) s' = Some (a', d, b') /\ s' = a' ++ d :: b' /\ length a = length a' /\
    variant_from here lv q a a' = true /\ variant_from here lv (lstep lv (lrun lv q a) d) b b' = true.
Proof.
  intros Hp Hl. induction s as [|c r IH]; intros s' q a d b H F; [discriminate|].
  destruct s' as [|c' r']; [discriminate|].
  pose proof (variant_head_cveq _ _ _ _ _ _ _ H) as Hc. apply variant_cons in H. destruct H as [Hc0 H].
  cbn [qfind] in *. rewrite (Hp c c' Hc), (cveq_eqb c c' 34 Hc eq_refl).
  destruct (negb (l_inq q) && p c) eqn:E.
  - injection F as <- <- <-. apply andb_true_iff in E. destruct E as [_ E].
    apply cveq_nonletter in Hc; [|left; apply Hl; exact E]. subst c'.
    exists [], r'. repeat split; try reflexivity. exact H.
  - destruct (qfind p (if c =? 34 then negb (l_inq q) else l_inq q) r) as [[[a0 d0] b0]|] eqn:F0; [|discriminate].
    injection F as <- <- <-.
    destruct (IH r' (lstep lv q c) a0 d0 b0 H F0) as (a' & b' & F' & Es & Hlen & Ha & Hb).
    cbn [lstep l_inq] in F'. rewrite F'. exists (c' :: a'), b'. repeat split.
    + rewrite Es. reflexivity.
    + cbn [length]. rewrite Hlen. reflexivity.
    + apply variant_cons. split; [exact Hc0|exact Ha].
    + exact Hb.
Qed.

Lemma qfind_none_app p lv : forall a q b, qfind p (l_inq q) (a ++ b) = None -> qfind p (l_inq (lrun lv q a)) b = None.
Proof.
  induction a as [|c a IH]; intros q b H; [exact H|]. cbn [app qfind] in H.
  destruct (negb (l_inq q) && p c); [discriminate|].
  destruct (qfind p (if c =? 34 then negb (l_inq q) else l_inq q) (a ++ b)) as [[[a0 d0] b0]|] eqn:F; [discriminate|].
  unfold lrun. cbn [fold_left]. apply (IH (lstep lv q c) b). exact F.
Qed.

Lemma qfind_prefix_none p : forall s inq a d b, qfind p inq s = Some (a, d, b) -> qfind p inq a = None.
Proof.
  induction s as [|c r IH]; intros inq a d b H; [discriminate|]. cbn [qfind] in H.
  destruct (negb inq && p c) eqn:E.
  - injection H as <- <- <-. reflexivity.
  - destruct (qfind p (if c =? 34 then negb inq else inq) r) as [[[a0 d0] b0]|] eqn:F; [|discriminate].
    injection H as <- <- <-. cbn [qfind]. rewrite E, (IH _ _ _ _ F). reflexivity.
Qed.

Lemma lstep_inq lv q c : l_inq (lstep lv q c) = if c =? 34 then negb (l_inq q) else l_inq q.
Proof. reflexivity. Qed.

Lemma parse_param_variant p p' q : variant_from name_here esc_level q p p' = true ->
  l_inq q = false -> l_ph q <> PName -> qfind is_semi false p = None -> parse_param p' = parse_param p.
Proof.
  intros H Hi Hph Hs. unfold parse_param, q_split. rewrite !qsplit_one_find.
  pose proof (variant_F2 _ _ _ _ _ H) as HF.
  destruct p as [|c r]; [inversion HF; reflexivity|]. destruct p' as [|c' r']; [inversion HF|].
  destruct (qfind is_eq false (c :: r)) as [[[k d] v]|] eqn:F.
  - rewrite <- Hi in F. destruct (qfind_variant is_eq name_here esc_level is_eq_cveq is_eq_nl _ _ q _ _ _ H F) as (k' & v' & F' & Es & Hlen & Hk & Hv).
    rewrite Hi in F, F'. rewrite F'. cbn [rev app].
    destruct (qfind_spec _ _ _ _ _ _ F) as [Ep Hd]. apply N.eqb_eq in Hd. subst d.
    assert (v = v') as <-.
    { apply (frozen_val v v' _) with (3 := Hv).
      - pose proof (ph_notname_run esc_level k q Hph) as Hn.
        assert (l_inq (lrun esc_level q k) = false) as Hq by (apply (qfind_inq is_eq esc_level (c :: r) q k 61 v); rewrite Hi; exact F).
        set (qk := lrun esc_level q k) in *.
        unfold lstep, live, esc_level. cbn [fst snd l_ph N.eqb Pos.eqb andb negb]. rewrite Hq. cbn [negb andb].
        destruct (l_ph qk); [congruence|left|left|right]; reflexivity.
      - rewrite lstep_inq. cbn [N.eqb Pos.eqb].
        rewrite Ep in Hs. rewrite <- Hi in Hs. apply (qfind_none_app is_semi esc_level k q) in Hs.
        cbn [qfind] in Hs. destruct (negb (l_inq (lrun esc_level q k)) && is_semi 61); [discriminate|].
        cbn [N.eqb Pos.eqb] in Hs.
        destruct (qfind is_semi (l_inq (lrun esc_level q k)) v) as [[[a0 d0] b0]|]; [discriminate|reflexivity]. }
    pose proof (variant_F2 _ _ _ _ _ Hk) as Fk.
    rewrite (validate_token_F2 _ _ Fk), (F2_upper _ _ Fk). reflexivity.
  - rewrite (qfind_F2 is_eq is_eq_cveq _ _ false HF F). reflexivity.
Qed.

Lemma params_list_variant : forall n s s' q m acc, (length s <= n)%nat ->
  variant_from name_here esc_level q s s' = true -> l_inq q = false -> l_ph q <> PName ->
  parse_params_list (q_split_aux 59 None false m [] s') acc = parse_params_list (q_split_aux 59 None false m [] s) acc.
Proof.
  induction n as [|n IH]; intros s s' q m acc Hl H Hi Hph; pose proof (variant_F2 _ _ _ _ _ H) as HF.
  - destruct s; [|cbn [length] in Hl; lia]. inversion HF. reflexivity.
  - rewrite !qsplit_none_find.
    destruct s as [|c r]; [inversion HF; reflexivity|]. destruct s' as [|c' r']; [inversion HF|].
    destruct (qfind is_semi false (c :: r)) as [[[a d] b]|] eqn:F.
    + rewrite <- Hi in F. destruct (qfind_variant is_semi name_here esc_level is_semi_cveq is_semi_nl _ _ q _ _ _ H F) as (a' & b' & F' & Es & Hlen & Ha & Hb).
      rewrite Hi in F, F'. rewrite F'. cbn [rev app parse_params_list].
      destruct (qfind_spec _ _ _ _ _ _ F) as [Ep Hd]. apply N.eqb_eq in Hd. subst d.
      rewrite (parse_param_variant a a' q Ha Hi Hph (qfind_prefix_none _ _ _ _ _ _ F)).
      destruct (parse_param a) as [kv| | |]; cbn [bind]; try reflexivity.
      pose proof (F2_length _ _ _ (variant_F2 _ _ _ _ _ Hb)) as Lb.
      destruct b as [|b0 br]; destruct b' as [|b0' br']; try discriminate; [reflexivity|].
      apply (IH _ _ (lstep esc_level (lrun esc_level q a) 59)); [| exact Hb | |].
      * assert (length (c :: r) = length a + S (length (b0 :: br)))%nat as E by (rewrite Ep, app_length; reflexivity). lia.
      * rewrite lstep_inq. cbn [N.eqb Pos.eqb]. apply (qfind_inq is_semi esc_level (c :: r) q a 59 (b0 :: br)). rewrite Hi. exact F.
      * apply ph_notname_step, ph_notname_run. exact Hph.
    + rewrite (qfind_F2 is_semi is_semi_cveq _ _ false HF F). cbn [rev app parse_params_list].
      rewrite (parse_param_variant _ _ q H Hi Hph F). reflexivity.
Qed.

Lemma params_from_ical_variant s s' q : variant_from name_here esc_level q s s' = true -> l_inq q = false -> l_ph q <> PName ->
  params_from_ical s' = params_from_ical s.
Proof.
  intros H Hi Hph. unfold params_from_ical. rewrite !q_split_none. apply (params_list_variant (length s) s s' q); [lia|exact H|exact Hi|exact Hph].
Qed.

(* ------------------------------------------------------------------ what parts() returns for a line cut at its delimiters *)
Lemma skipn_past {A} (a : list A) d b : skipn (S (length a)) (a ++ d :: b) = b.
Proof. induction a as [|x a IH]; [reflexivity|]. cbn [length app]. rewrite skipn_cons. exact IH. Qed.

Lemma tail_colon c0 a b nm :
  parts_tail (c0 :: a ++ 58 :: b) (Some (S (length a))) (Some (S (length a))) nm =
  bind (params_from_ical []) (fun ps => Ok (nm, rebuild_params ps [], unescape_string b)).
Proof.
  unfold parts_tail. cbn [falsy].
  assert ((S (S (length a)) =? S (length a))%nat = false) as E by (apply Nat.eqb_neq; lia). rewrite E.
  unfold slice. replace (S (length a) - S (S (length a)))%nat with O by lia. cbn [firstn].
  rewrite skipn_cons, skipn_past. reflexivity.
Qed.

Lemma tail_semi_none c0 a b nm :
  parts_tail (c0 :: a ++ 59 :: b) (Some (S (length a))) None nm =
  match b with
  | [] => ValueErr
  | _ => bind (params_from_ical b) (fun ps => Ok (nm, rebuild_params ps [], unescape_string []))
  end.
Proof.
  unfold parts_tail. cbn [falsy length]. rewrite app_length. cbn [length].
  destruct b as [|b0 br].
  - cbn [length]. assert ((S (S (length a)) =? S (length a + 1))%nat = true) as E by (apply Nat.eqb_eq; lia). rewrite E. reflexivity.
  - assert ((S (S (length a)) =? S (length a + S (length (b0 :: br))))%nat = false) as E by (apply Nat.eqb_neq; cbn [length]; lia). rewrite E.
    unfold slice. rewrite skipn_cons, skipn_past.
    replace (S (length a + S (length (b0 :: br))) - S (S (length a)))%nat with (length (b0 :: br)) by lia.
    rewrite firstn_all.
    rewrite (skipn_all2 (n := S (S (length a + S (length (b0 :: br)))))); [reflexivity|].
    cbn [length]. rewrite app_length. cbn [length]. lia.
Qed.

Lemma tail_semi_colon c0 a a2 b2 nm :
  parts_tail (c0 :: a ++ 59 :: a2 ++ 58 :: b2) (Some (S (length a))) (Some (S (S (length a)) + length a2)%nat) nm =
  match a2 with
  | [] => ValueErr
  | _ => bind (params_from_ical a2) (fun ps => Ok (nm, rebuild_params ps [], unescape_string b2))
  end.
Proof.
  unfold parts_tail. cbn [falsy Nat.add].
  destruct a2 as [|x a2].
  - cbn [length]. rewrite Nat.add_0_r, Nat.eqb_refl. reflexivity.
  - assert ((S (S (length a)) =? S (S (length a + length (x :: a2))))%nat = false) as E by (apply Nat.eqb_neq; cbn [length]; lia). rewrite E.
    unfold slice. rewrite !skipn_cons, skipn_past.
    replace (S (S (length a + length (x :: a2))) - S (S (length a)))%nat with (length (x :: a2)) by lia.
    rewrite firstn_app_exact.
    replace (S (length a + length (x :: a2))) with (length (a ++ 59 :: x :: a2)) by (rewrite app_length; cbn [length]; lia).
    change (a ++ 59 :: (x :: a2) ++ 58 :: b2) with (a ++ (59 :: x :: a2) ++ 58 :: b2). rewrite app_assoc, skipn_past. reflexivity.
Qed.

(* ------------------------------------------------------------------ placeholders stay intact: the value of a line without '%' *)
(* two texts that differ in the case of letters only, in which every '%' starts a placeholder that is the
   same on both sides *)
Definition is_ph (x y : N) : bool :=
  ((x =? 50) && (y =? 67)) || ((x =? 51) && (y =? 65)) || ((x =? 51) && (y =? 66)) || ((x =? 53) && (y =? 67)).

Inductive brel : list N -> list N -> Prop :=
| br_nil : brel [] []
| br_chr c c' s s' : c <> 37 -> cveq c c' -> brel s s' -> brel (c :: s) (c' :: s')
| br_blk x y s s' : is_ph x y = true -> brel s s' -> brel (37 :: x :: y :: s) (37 :: x :: y :: s').

Lemma is_ph_cases x y : is_ph x y = true -> (x = 50 /\ y = 67) \/ (x = 51 /\ y = 65) \/ (x = 51 /\ y = 66) \/ (x = 53 /\ y = 67).
Proof. unfold is_ph. rewrite !orb_true_iff, !andb_true_iff, !N.eqb_eq. tauto. Qed.

Lemma brel_F2 s s' : brel s s' -> Forall2 cveq s s'.
Proof.
  induction 1 as [|c c' s s' _ Hc _ IH|x y s s' _ _ IH]; [constructor|constructor; assumption|].
  constructor; [apply cveq_refl|]. constructor; [apply cveq_refl|]. constructor; [apply cveq_refl|exact IH].
Qed.

Lemma brel_of_F2 s s' : no_chr 37 s = true -> Forall2 cveq s s' -> brel s s'.
Proof.
  intros Hn H. induction H as [|c c' s s' Hc _ IH]; [constructor|].
  apply no_chr_cons in Hn. destruct Hn as [H1 H2]. apply br_chr; [exact H1|exact Hc|apply IH; exact H2].
Qed.

(* one stage of escape_string *)
Lemma brel_esc_stage d x y : is_letter d = false -> d <> 37 -> is_ph x y = true ->
  forall n s s', (length s <= n)%nat -> brel s s' ->
  brel (py_replace_aux [92; d] [37; x; y] 0 s) (py_replace_aux [92; d] [37; x; y] 0 s').
Proof.
  intros Hd Hd37 Hxy. induction n as [|n IH]; intros s s' Hl H.
  - destruct s; [|cbn [length] in Hl; lia]. inversion H. constructor.
  - pose proof (brel_F2 _ _ H) as HF.
    assert (is_prefix [92; d] s' = is_prefix [92; d] s) as Ep.
    { apply is_prefix_F2; [|exact HF]. cbn [forallb]. rewrite Hd. reflexivity. }
    destruct H as [|c c' t t' Hc37 Hc Ht|x0 y0 t t' Hph Ht].
    + constructor.
    + cbn [py_replace_aux]. rewrite Ep. change (@length N [92%N; d] - 1)%nat with 1%nat.
      destruct (is_prefix [92; d] (c :: t)) eqn:E.
      * cbn [is_prefix] in E. apply andb_true_iff in E. destruct E as [E1 E2]. apply N.eqb_eq in E1. subst c.
        destruct t as [|e t2]; [discriminate|]. apply andb_true_iff in E2. destruct E2 as [E2 _]. apply N.eqb_eq in E2. subst e.
        apply cveq_nonletter in Hc; [|left; reflexivity]. subst c'.
        inversion Ht as [|e e' u u' He37 He Hu|]; subst; [|congruence].
        apply cveq_nonletter in He; [|left; exact Hd]. subst e'.
        cbn [py_replace_aux app]. apply br_blk; [exact Hxy|]. apply IH; [cbn [length] in Hl; lia|exact Hu].
      * apply br_chr; [exact Hc37|exact Hc|]. apply IH; [cbn [length] in Hl; lia|exact Ht].
    + assert (brel (py_replace_aux [92; d] [37; x; y] 0 t) (py_replace_aux [92; d] [37; x; y] 0 t')) as Hr
        by (apply IH; [cbn [length] in Hl; lia|exact Ht]).
      destruct (is_ph_cases x0 y0 Hph) as [[-> ->]|[[-> ->]|[[-> ->]|[-> ->]]]];
        cbn [py_replace_aux is_prefix N.eqb Pos.eqb andb]; apply br_blk; try reflexivity; exact Hr.
Qed.

(* one stage of unescape_string *)
Lemma brel_unesc_stage X Y c : is_ph X Y = true -> c <> 37 ->
  forall n s s', (length s <= n)%nat -> brel s s' ->
  brel (py_replace_aux [37; X; Y] [c] 0 s) (py_replace_aux [37; X; Y] [c] 0 s').
Proof.
  intros HXY Hc37. induction n as [|n IH]; intros s s' Hl H.
  - destruct s; [|cbn [length] in Hl; lia]. inversion H. constructor.
  - destruct H as [|c0 c0' t t' H37 Hc Ht|x0 y0 t t' Hph Ht].
    + constructor.
    + assert (c0' <> 37) as H37'.
      { intros ->. apply H37. apply cveq_nonletter in Hc; [exact Hc|right; reflexivity]. }
      cbn [py_replace_aux is_prefix].
      assert ((37 =? c0) = false) as E1 by (apply N.eqb_neq; congruence).
      assert ((37 =? c0') = false) as E2 by (apply N.eqb_neq; congruence).
      rewrite E1, E2. cbn [andb]. apply br_chr; [exact H37|exact Hc|]. apply IH; [cbn [length] in Hl; lia|exact Ht].
    + assert (brel (py_replace_aux [37; X; Y] [c] 0 t) (py_replace_aux [37; X; Y] [c] 0 t')) as Hr
        by (apply IH; [cbn [length] in Hl; lia|exact Ht]).
      destruct (is_ph_cases X Y HXY) as [[-> ->]|[[-> ->]|[[-> ->]|[-> ->]]]];
      destruct (is_ph_cases x0 y0 Hph) as [[-> ->]|[[-> ->]|[[-> ->]|[-> ->]]]];
        cbn [py_replace_aux is_prefix N.eqb Pos.eqb andb app length Nat.sub];
        first [apply br_blk; [reflexivity|exact Hr] | apply br_chr; [exact Hc37|apply cveq_refl|exact Hr]].
Qed.

Lemma brel_esc_stage' d x y s s' : is_letter d = false -> d <> 37 -> is_ph x y = true -> brel s s' ->
  brel (py_replace [92; d] [37; x; y] s) (py_replace [92; d] [37; x; y] s').
Proof. intros A B C H. exact (brel_esc_stage d x y A B C (length s) s s' (Nat.le_refl _) H). Qed.

Lemma brel_unesc_stage' X Y c s s' : is_ph X Y = true -> c <> 37 -> brel s s' ->
  brel (py_replace [37; X; Y] [c] s) (py_replace [37; X; Y] [c] s').
Proof. intros A B H. exact (brel_unesc_stage X Y c A B (length s) s s' (Nat.le_refl _) H). Qed.

Lemma brel_escape s s' : brel s s' -> brel (escape_string s) (escape_string s').
Proof.
  intros H. unfold escape_string.
  rewrite !seq_run_py_replace by (apply pats_nonempty_Forall; exact esc_chain_nonempty).
  change escape_string_chain with [([92; 44], [37; 50; 67]); ([92; 58], [37; 51; 65]); ([92; 59], [37; 51; 66]); ([92; 92], [37; 53; 67])].
  cbn [fold_left fst snd].
  apply brel_esc_stage'; [reflexivity|discriminate|reflexivity|].
  apply brel_esc_stage'; [reflexivity|discriminate|reflexivity|].
  apply brel_esc_stage'; [reflexivity|discriminate|reflexivity|].
  apply brel_esc_stage'; [reflexivity|discriminate|reflexivity|]. exact H.
Qed.

Lemma brel_unescape s s' : brel s s' -> Forall2 cveq (unescape_string s) (unescape_string s').
Proof.
  intros H. rewrite !unescape_string_unfold. apply brel_F2.
  apply brel_unesc_stage'; [reflexivity|discriminate|].
  apply brel_unesc_stage'; [reflexivity|discriminate|].
  apply brel_unesc_stage'; [reflexivity|discriminate|].
  apply brel_unesc_stage'; [reflexivity|discriminate|]. exact H.
Qed.

(* the text after a colon that both sides have at the same place *)
Lemma brel_cons_inv c s c' s' : brel (c :: s) (c' :: s') ->
  (c <> 37 /\ cveq c c' /\ brel s s') \/
  (c = 37 /\ c' = 37 /\ exists x y t t', s = x :: y :: t /\ s' = x :: y :: t' /\ is_ph x y = true /\ brel t t').
Proof.
  intros H. inversion H; subst; [left; repeat split; assumption|right].
  repeat split. do 4 eexists. repeat split; eassumption.
Qed.

Lemma brel_suffix : forall n p p' b b', (length p <= n)%nat -> length p = length p' ->
  brel (p ++ 58 :: b) (p' ++ 58 :: b') -> brel b b'.
Proof.
  induction n as [|n IH]; intros p p' b b' Hl Hlen H.
  - destruct p; [|cbn [length] in Hl; lia]. destruct p'; [|discriminate]. cbn [app] in H.
    apply brel_cons_inv in H. destruct H as [(_ & _ & H)|(E & _)]; [exact H|discriminate].
  - destruct p as [|c p1]; destruct p' as [|c' p1']; try discriminate; cbn [app] in H;
      apply brel_cons_inv in H; destruct H as [(_ & _ & H)|(E & E' & x & y & t & t' & Es & Es' & Hph & Ht)]; try exact H; try discriminate.
    + cbn [length] in Hl, Hlen. injection Hlen as Hlen. apply (IH p1 p1'); [lia|exact Hlen|exact H].
    + cbn [length] in Hl, Hlen. injection Hlen as Hlen. apply is_ph_cases in Hph.
      destruct p1 as [|x1 [|y1 p3]]; destruct p1' as [|x1' [|y1' p3']]; try discriminate; cbn [app] in Es, Es'.
      * exfalso. injection Es as <- _. destruct Hph as [[? ?]|[[? ?]|[[? ?]|[? ?]]]]; discriminate.
      * exfalso. injection Es as _ <- _. destruct Hph as [[? ?]|[[? ?]|[[? ?]|[? ?]]]]; discriminate.
      * injection Es as _ _ <-. injection Es' as _ _ <-. cbn [length] in Hl, Hlen.
        apply (IH p3 p3'); [lia|lia|exact Ht].
Qed.

(* ------------------------------------------------------------------ the line theorem *)
Lemma token_head_facts c : is_token_chr c = true -> (c =? 34) = false /\ (c =? 58) = false /\ (c =? 59) = false.
Proof.
  intros H. repeat split; apply N.eqb_neq; intros ->; discriminate.
Qed.

(* what parts() makes of two lines that differ in the case of letters in names and in the value: the
   value texts are equal when the value was not touched; with all placeholders intact they are equal
   after upper() *)
Definition same_parts_gen (frozen : Prop) (st st' : list N) (r r' : res (list N * params * list N)) : Prop :=
  match r, r' with
  | Ok (n, ps, v), Ok (n', ps', v') =>
      upper n = upper n' /\ ps = ps' /\ (frozen -> v = v') /\
      (brel st st' -> upper v = upper v')
  | ValueErr, ValueErr => True
  | Unsup, Unsup => True
  | Escape k, Escape k' => k = k'
  | _, _ => False
  end.

Section GenParts.
  Variable here : lstate -> bool.
  Hypothesis Hpos : pos_only here.
  Hypothesis Hsub : forall q, here q = true -> name_here q = true \/ l_ph q = PValue.
  Definition value_frozen : Prop := forall q, l_ph q = PValue -> here q = false.

  (* before the first unquoted colon only names may differ *)
  Lemma variant_to_name : forall s s' q, variant_from here esc_level q s s' = true -> l_ph q <> PValue ->
    qfind is_colon (l_inq q) s = None -> variant_from name_here esc_level q s s' = true.
  Proof.
    induction s as [|c r IH]; intros [|c' r'] q H Hph F; try discriminate; [reflexivity|].
    apply variant_cons in H. destruct H as [Hc H]. apply variant_cons.
    cbn [qfind] in F. destruct (negb (l_inq q) && is_colon c) eqn:E; [discriminate|].
    destruct (qfind is_colon (if c =? 34 then negb (l_inq q) else l_inq q) r) as [[[a0 d0] b0]|] eqn:F0; [discriminate|].
    split.
    - destruct Hc as [Hc|[Hh Hv]]; [left; exact Hc|right]. split; [|exact Hv].
      destruct (Hsub q Hh) as [Hn|Hn]; [exact Hn|congruence].
    - apply IH; [exact H| |exact F0].
      unfold lstep, live, esc_level, is_colon in *. cbn [fst snd l_ph andb negb]. rewrite andb_true_r.
      rewrite (andb_comm (c =? 58)), E. destruct (l_ph q); try congruence; repeat (destruct (_ && _)); discriminate.
  Qed.

  Lemma value_result st st' nm nm' (r : res params) (b b' : list N) :
    upper nm = upper nm' -> Forall2 cveq b b' -> (value_frozen -> b = b') ->
    (brel st st' -> brel b b') ->
    same_parts_gen value_frozen st st' (bind r (fun ps => Ok (nm, rebuild_params ps [], unescape_string b)))
                                       (bind r (fun ps => Ok (nm', rebuild_params ps [], unescape_string b'))).
  Proof.
    intros Hup HF Hfr N1. destruct r; cbn [bind same_parts_gen]; auto.
    repeat split; [exact Hup| |].
    - intros Hz. rewrite (Hfr Hz). reflexivity.
    - intros A. apply F2_upper. apply brel_unescape. exact (N1 A).
  Qed.

  Lemma frozen_eq lv b b' q : l_ph q = PValue -> variant_from here lv q b b' = true -> value_frozen -> b = b'.
  Proof.
    intros Hq H Hz. apply (variant_frozen here lv b b' q); [|exact H]. intros t. apply Hz. apply ph_value_run. exact Hq.
  Qed.

  Theorem parts_variant_gen line line' : variant_from here raw_level lstart line line' = true ->
    same_parts_gen value_frozen (escape_string line) (escape_string line') (parts line) (parts line').
  Proof.
    intros H0.
    pose proof (escape_string_variant here Hpos line line' H0) as H.
    pose proof (variant_F2 _ _ _ _ _ H) as HF.
    rewrite !parts_alt. cbv zeta.
    set (st := escape_string line) in *. set (st' := escape_string line') in *.
    rewrite (scan_F2 st st' 0 false None None HF).
    destruct (scan 0 false None None st) as [ns vs] eqn:Esc.
    assert (Forall2 cveq (name_part st ns) (name_part st' ns)) as Hnm.
    { unfold name_part. destruct ns; [apply F2_firstn|]; exact HF. }
    destruct (validate_name_variant _ _ Hnm) as [Ev Hok]. rewrite Ev.
    destruct (validate_token (unescape_string (name_part st ns))) as [u| |k|] eqn:V; cbn [bind same_parts_gen]; auto.
    destruct (Hok u eq_refl) as (U1 & U2 & Tk & Nne). rewrite U1, U2.
    pose proof (F2_upper _ _ Hnm) as Hup.
    (* the line starts with a name character *)
    destruct st as [|c0 r0] eqn:Est.
    { exfalso. apply Nne. unfold name_part. destruct ns as [n|]; [destruct n|]; reflexivity. }
    destruct st' as [|c0' r0'] eqn:Est'; [inversion HF|].
    assert (is_token_chr c0 = true) as Hc0.
    { unfold name_part in Tk, Nne. destruct ns as [[|n]|]; [exfalso; apply Nne; reflexivity| |];
      cbn [firstn forallb] in Tk; apply andb_true_iff in Tk; tauto. }
    destruct (token_head_facts c0 Hc0) as (Q34 & Q58 & Q59).
    apply variant_cons in H. destruct H as [_ H].
    set (q1 := lstep esc_level lstart c0) in *.
    assert (l_inq q1 = false) as I1 by (unfold q1; rewrite lstep_inq, Q34; reflexivity).
    assert (l_ph q1 = PName) as P1.
    { unfold q1, lstep, lstart. cbn [l_ph]. rewrite Q58, Q59. reflexivity. }
    cbn [scan] in Esc. rewrite Q34, Q58, Q59 in Esc. cbn [orb andb negb] in Esc.
    rewrite (scan_name_find r0 1 false (le_n 1)) in Esc.
    destruct (qfind is_delim false r0) as [[[a d] b]|] eqn:F.
    2:{ injection Esc as <- <-. exact I. }
    rewrite <- I1 in F.
    destruct (qfind_variant is_delim here esc_level is_delim_cveq is_delim_nl _ _ q1 _ _ _ H F) as (a' & b' & F' & Es & Hlen & Ha & Hb).
    destruct (qfind_spec _ _ _ _ _ _ F) as [Er Hd].
    assert (l_inq (lrun esc_level q1 a) = false) as Ia by (apply (qfind_inq is_delim esc_level r0 q1 a d b); exact F).
    pose proof (qfind_name_ph r0 q1 a d b P1 F) as Pa.
    set (qa := lrun esc_level q1 a) in *. set (q2 := lstep esc_level qa d) in *.
    subst r0 r0'. cbn [Nat.add] in Esc.
    apply orb_true_iff in Hd. destruct Hd as [Hd|Hd]; apply N.eqb_eq in Hd; subst d.
    - (* NAME:value *)
      cbn [N.eqb Pos.eqb] in Esc. rewrite scan_tail in Esc by reflexivity. injection Esc as <- <-.
      assert (l_ph q2 = PValue) as P2.
      { unfold q2, lstep, live, esc_level. cbn [fst snd l_ph N.eqb Pos.eqb andb negb]. rewrite Pa, Ia. reflexivity. }
      rewrite tail_colon. rewrite Hlen. rewrite tail_colon. rewrite Hlen in Hup.
      apply value_result; [exact Hup|exact (variant_F2 _ _ _ _ _ Hb)|exact (frozen_eq _ _ _ _ P2 Hb)|].
      intros N0. apply (brel_suffix (length (c0 :: a)) (c0 :: a) (c0' :: a') b b'); [lia|cbn [length]; rewrite Hlen; reflexivity|exact N0].
    - (* NAME;parameters... *)
      cbn [N.eqb Pos.eqb] in Esc.
      assert (l_inq q2 = false) as I2 by (unfold q2; rewrite lstep_inq; exact Ia).
      assert (l_ph q2 = PKey) as P2.
      { unfold q2, lstep, live, esc_level. cbn [fst snd l_ph N.eqb Pos.eqb andb negb]. rewrite Pa, Ia. reflexivity. }
      assert (l_ph q2 <> PName) as P2n by (rewrite P2; discriminate).
      assert (l_ph q2 <> PValue) as P2v by (rewrite P2; discriminate).
      rewrite (scan_colon_find b (S (S (length a))) false (S (length a))) in Esc by lia.
      destruct (qfind is_colon false b) as [[[a2 d2] b2]|] eqn:F2.
      + injection Esc as <- <-.
        rewrite <- I2 in F2.
        destruct (qfind_variant is_colon here esc_level is_colon_cveq is_colon_nl _ _ q2 _ _ _ Hb F2) as (a2' & b2' & F2' & Es2 & Hlen2 & Ha2 & Hb2).
        destruct (qfind_spec _ _ _ _ _ _ F2) as [Er2 Hd2]. apply N.eqb_eq in Hd2. subst d2.
        assert (l_inq (lrun esc_level q2 a2) = false) as Ia2 by (apply (qfind_inq is_colon esc_level b q2 a2 58 b2); exact F2).
        set (qb := lrun esc_level q2 a2) in *.
        assert (l_ph (lstep esc_level qb 58) = PValue) as P3.
        { unfold lstep, live, esc_level. cbn [fst snd l_ph N.eqb Pos.eqb andb negb]. rewrite Ia2. cbn [negb].
          destruct (l_ph qb); reflexivity. }
        pose proof (variant_to_name a2 a2' q2 Ha2 P2v (qfind_prefix_none _ _ _ _ _ _ F2)) as Ha2n.
        subst b b'. rewrite tail_semi_colon. rewrite Hlen, Hlen2. rewrite tail_semi_colon. rewrite Hlen in Hup.
        pose proof (params_from_ical_variant a2 a2' q2 Ha2n I2 P2n) as Ep. rewrite Ep.
        destruct a2 as [|x a2]; destruct a2' as [|x' a2']; try discriminate; [exact I|].
        apply value_result; [exact Hup|exact (variant_F2 _ _ _ _ _ Hb2)|exact (frozen_eq _ _ _ _ P3 Hb2)|].
        intros N0.
        apply (brel_suffix (length (c0 :: a ++ 59 :: x :: a2)) (c0 :: a ++ 59 :: x :: a2) (c0' :: a' ++ 59 :: x' :: a2') b2 b2'); [lia| |].
        { cbn [length]. rewrite !app_length. cbn [length]. cbn [length] in Hlen2. rewrite Hlen. lia. }
        cbn [app]. rewrite <- !app_assoc. exact N0.
      + injection Esc as <- <-.
        rewrite tail_semi_none. rewrite Hlen. rewrite tail_semi_none. rewrite Hlen in Hup.
        rewrite <- I2 in F2. pose proof (variant_to_name b b' q2 Hb P2v F2) as Hbn.
        pose proof (params_from_ical_variant b b' q2 Hbn I2 P2n) as Ep. rewrite Ep.
        pose proof (F2_length _ _ _ (variant_F2 _ _ _ _ _ Hb)) as Lb.
        destruct b as [|x b]; destruct b' as [|x' b']; try discriminate; [exact I|].
        apply value_result; [exact Hup|constructor|reflexivity|intros _; constructor].
  Qed.
End GenParts.

(* names only: the parameters and the value text are the same *)
Theorem parts_variant line line' : name_variant line line' = true -> same_parts (parts line) (parts line').
Proof.
  intros H.
  assert (value_frozen name_here) as Hz.
  { intros q Hq. unfold name_here. rewrite Hq. apply andb_false_r. }
  pose proof (parts_variant_gen name_here name_here_pos (fun q h => or_introl h) line line' H) as G.
  unfold same_parts_gen, same_parts in *.
  destruct (parts line) as [[[n ps] v]| | |], (parts line') as [[[n' ps'] v']| | |]; try exact G.
  destruct G as (A & B & C & _). repeat split; [exact A|exact B|exact (C Hz)].
Qed.

Theorem parts_recase f line : same_parts (parts line) (parts (recase f line)).
Proof. apply parts_variant. apply recase_variant. Qed.

(* ------------------------------------------------------------------ the line loop *)
Theorem step_name_variant dec s l l' : name_variant l l' = true -> step dec s l' = step dec s l.
Proof.
  intros H. pose proof (parts_variant l l' H) as G. unfold step, same_parts in *.
  destruct (parts l) as [[[n ps] v]| | |], (parts l') as [[[n' ps'] v']| | |]; try contradiction; try reflexivity.
  - destruct G as (A & <- & <-). symmetry. apply step_name_case. exact A.
  - subst. reflexivity.
Qed.

Lemma begin_end_line_spec m : begin_end_line m = true ->
  no_chr 37 m = true /\
  exists n ps v, parts m = Ok (n, ps, v) /\ (str_is (upper n) "BEGIN" = true \/ str_is (upper n) "END" = true).
Proof.
  unfold begin_end_line. rewrite !andb_true_iff. intros [A C]. split; [exact A|].
  destruct (parts m) as [[[n ps] v]| | |]; try discriminate. exists n, ps, v. split; [reflexivity|].
  apply orb_true_iff in C. exact C.
Qed.

Lemma value_here_sub q : value_here q = true -> name_here q = true \/ l_ph q = PValue.
Proof. unfold value_here. destruct (l_ph q); try discriminate. right. reflexivity. Qed.

Theorem step_value_variant dec s m l' : begin_end_line m = true -> value_variant m l' = true -> step dec s l' = step dec s m.
Proof.
  intros Hg H. destruct (begin_end_line_spec m Hg) as (N37 & n & ps & v & Ep & Hbe).
  pose proof (variant_F2 _ _ _ _ _ H) as HF.
  pose proof (parts_variant_gen value_here value_here_pos value_here_sub m l' H) as G.
  rewrite Ep in G. unfold step. rewrite Ep.
  unfold same_parts_gen in G. destruct (parts l') as [[[n' ps'] v']| | |]; try contradiction.
  destruct G as (A & <- & _ & D). specialize (D (brel_escape _ _ (brel_of_F2 _ _ N37 HF))).
  rewrite <- (step_name_case dec s n n' ps v' A). symmetry. apply step_begin_end_case; [exact D|exact Hbe].
Qed.

Theorem step_line_variant dec s l l' : line_variant l l' -> step dec s l' = step dec s l.
Proof.
  intros (m & Hn & [<-|[Hg Hv]]).
  - apply step_name_variant. exact Hn.
  - rewrite (step_value_variant dec s m l' Hg Hv). apply step_name_variant. exact Hn.
Qed.

Lemma recase_line_variant f g l : line_variant l (recase_line f g l).
Proof.
  unfold recase_line. exists (recase f l). split; [apply recase_variant|].
  destruct (begin_end_line (recase f l)) eqn:E; [right|left; reflexivity].
  split; [reflexivity|apply recase_variant].
Qed.

(* ------------------------------------------------------------------ whole texts *)
Theorem run_lines_variant dec : forall ls ls', Forall2 line_variant ls ls' -> forall s, run_lines dec s ls' = run_lines dec s ls.
Proof.
  induction 1 as [|l l' ls ls' Hl _ IH]; intros s; [reflexivity|].
  cbn [run_lines]. rewrite (step_line_variant dec s l l' Hl). destruct (step dec s l) as [s1|s1|e]; [apply IH|reflexivity|reflexivity].
Qed.

Lemma recase_lines_variant f g : forall ls i, Forall2 line_variant ls (recase_lines f g i ls).
Proof. induction ls as [|l r IH]; intros i; constructor; [apply recase_line_variant|apply IH]. Qed.

Theorem parse_case_layout dec cache multiple nl ws nl' ws' segs segs' k k' :
  is_nl nl = true -> is_ws ws = true -> is_nl nl' = true -> is_ws ws' = true ->
  forallb segs_ok segs = true -> forallb segs_ok segs' = true ->
  Forall2 line_variant (map (@concat N) segs) (map (@concat N) segs') ->
  parse dec cache multiple (phys_text nl' ws' segs' ++ blank_lines nl' k') =
  parse dec cache multiple (phys_text nl ws segs ++ blank_lines nl k).
Proof.
  intros H1 H2 H3 H4 H5 H6 HV. unfold parse.
  rewrite (layout_invariant nl ws H1 H2 segs k H5), (layout_invariant nl' ws' H3 H4 segs' k' H6).
  rewrite (run_lines_variant dec _ _ HV). reflexivity.
Qed.

Theorem parse_recase_layout dec cache multiple nl ws nl' ws' segs segs' k k' f g :
  is_nl nl = true -> is_ws ws = true -> is_nl nl' = true -> is_ws ws' = true ->
  forallb segs_ok segs = true -> forallb segs_ok segs' = true ->
  map (@concat N) segs' = recase_lines f g 0 (map (@concat N) segs) ->
  parse dec cache multiple (phys_text nl' ws' segs' ++ blank_lines nl' k') =
  parse dec cache multiple (phys_text nl ws segs ++ blank_lines nl k).
Proof.
  intros H1 H2 H3 H4 H5 H6 E. apply parse_case_layout; try assumption. rewrite E. apply recase_lines_variant.
Qed.

(* ------------------------------------------------------------------ the guard of the BEGIN / END clause is needed *)
(* "%3a" is text, "%3A" is the placeholder parts() expands to ':' : the case of a letter after '%' is visible *)
Lemma begin_value_percent_refuted : exists m l',
  value_variant m l' = true /\
  (exists n ps v v', parts m = Ok (n, ps, v) /\ parts l' = Ok (n, ps, v') /\ str_is (upper n) "BEGIN" = true /\
                     upper v <> upper v') /\
  forall dec, step dec {| stack := []; done := []; cache := [] |} l' <> step dec {| stack := []; done := []; cache := [] |} m.
Proof.
  exists (s2l "BEGIN:A%3aB"), (s2l "BEGIN:A%3AB"). split; [vm_compute; reflexivity|]. split.
  - exists (s2l "BEGIN"), [], (s2l "A%3aB"), (s2l "A:B"). vm_compute. repeat split; discriminate.
  - intros dec. vm_compute. discriminate.
Qed.
