(* Proofs about Model/Fold.v (property C06). *)
Require Import Lib.Base Gen.Gen_parser Model.Fold.
From Coq Require Import Lia Arith.

Local Notation sep := ([13; 10; 32]%N : str).

Lemma ulen_bounds c : (1 <= ulen c <= 4)%nat.
Proof. unfold ulen. repeat destruct (_ <? _); lia. Qed.

Definition hd_not_lf (x : str) : Prop :=
  match x with d :: _ => d <> 10 | [] => True end.

Lemma no_lf_cons c r : no_lf (c :: r) = true <-> c <> 10 /\ no_lf r = true.
Proof.
  unfold no_lf. cbn [mem_chr]. rewrite negb_orb, andb_true_iff, negb_true_iff, N.eqb_neq.
  intuition congruence.
Qed.

Lemma phys_lines_cons c x :
  (c <> 13 \/ hd_not_lf x) -> phys_lines (c :: x) = cons_head c (phys_lines x).
Proof.
  intros H. cbn [phys_lines]. destruct x as [|d r]; [reflexivity|].
  destruct (N.eqb_spec c 13) as [Hc|Hc]; cbn [andb]; [|reflexivity].
  destruct (N.eqb_spec d 10) as [Hd|Hd]; [|reflexivity].
  exfalso. destruct H as [H|H]; [congruence|]. cbn in H. congruence.
Qed.

Lemma phys_lines_sep x :
  hd_not_lf x -> forall c, phys_lines (sep ++ c :: x) = [] :: cons_head 32 (cons_head c (phys_lines x)).
Proof.
  intros H c. change (sep ++ c :: x) with (13 :: 10 :: 32 :: c :: x).
  change (phys_lines (13 :: 10 :: 32 :: c :: x)) with ([] :: phys_lines (32 :: c :: x)).
  f_equal. rewrite phys_lines_cons by (left; discriminate).
  rewrite (phys_lines_cons c x) by (right; exact H). reflexivity.
Qed.

Lemma fold_gen_hd lim l : forall bc, no_lf l = true -> hd_not_lf (fold_gen lim sep bc l).
Proof.
  destruct l as [|c r]; intros bc H; cbn [fold_gen]; [exact I|].
  apply no_lf_cons in H. destruct H as [Hc _].
  destruct (lim <=? bc + ulen c)%nat; cbn; [discriminate|exact Hc].
Qed.

Lemma fold_ascii_hd lim l : forall k, no_lf l = true -> hd_not_lf (fold_ascii lim sep k l).
Proof.
  destruct l as [|c r]; intros k H; cbn [fold_ascii]; [exact I|].
  apply no_lf_cons in H. destruct H as [Hc _].
  destruct (k =? lim)%nat; cbn; [discriminate|exact Hc].
Qed.

Definition seg_ok (s : str) : Prop := (bytes s <= 74)%nat /\ s <> [].

Lemma fold_gen_lines : forall l bc, no_lf l = true -> (bc <= 74)%nat ->
  exists h segs, phys_lines (fold_gen 75 sep bc l) = h :: map (cons 32) segs
    /\ h ++ concat segs = l /\ (bc + bytes h <= 74)%nat /\ Forall seg_ok segs.
Proof.
  induction l as [|c r IH]; intros bc Hl Hbc.
  - exists [], []. cbn. repeat split; [lia|constructor].
  - apply no_lf_cons in Hl. destruct Hl as [Hc Hr].
    pose proof (ulen_bounds c) as Hu.
    cbn [fold_gen]. cbv zeta.
    destruct (Nat.leb_spec 75 (bc + ulen c)) as [E|E].
    + destruct (IH (ulen c) Hr ltac:(lia)) as (h' & segs' & Hp & Hcat & Hb & Hs).
      rewrite phys_lines_sep by (apply fold_gen_hd; exact Hr).
      rewrite Hp. exists [], ((c :: h') :: segs'). cbn [cons_head map concat app bytes].
      repeat split; try lia.
      * f_equal. exact Hcat.
      * constructor; [|exact Hs]. split; [cbn [bytes]; lia|discriminate].
    + destruct (IH (bc + ulen c)%nat Hr ltac:(lia)) as (h' & segs' & Hp & Hcat & Hb & Hs).
      rewrite phys_lines_cons by (right; apply fold_gen_hd; exact Hr).
      rewrite Hp. exists (c :: h'), segs'. cbn [cons_head app bytes].
      repeat split; try lia; try assumption. f_equal. exact Hcat.
Qed.

Lemma is_ascii_cons c r : is_ascii (c :: r) = true <-> c < 128 /\ is_ascii r = true.
Proof. unfold is_ascii. cbn [forallb]. rewrite andb_true_iff, N.ltb_lt. reflexivity. Qed.

Lemma ulen_ascii c : c < 128 -> ulen c = 1%nat.
Proof. intros H. unfold ulen. apply N.ltb_lt in H. rewrite H. reflexivity. Qed.

Lemma fold_ascii_lines : forall l k, no_lf l = true -> is_ascii l = true -> (k <= 74)%nat ->
  exists h segs, phys_lines (fold_ascii 74 sep k l) = h :: map (cons 32) segs
    /\ h ++ concat segs = l /\ (k + bytes h <= 74)%nat /\ Forall seg_ok segs.
Proof.
  induction l as [|c r IH]; intros k Hl Ha Hk.
  - exists [], []. cbn. repeat split; [lia|constructor].
  - apply no_lf_cons in Hl. destruct Hl as [Hc Hr].
    apply is_ascii_cons in Ha. destruct Ha as [Hca Hra].
    pose proof (ulen_ascii c Hca) as Hu.
    cbn [fold_ascii].
    destruct (Nat.eqb_spec k 74) as [E|E].
    + destruct (IH 1%nat Hr Hra ltac:(lia)) as (h' & segs' & Hp & Hcat & Hb & Hs).
      rewrite phys_lines_sep by (apply fold_ascii_hd; exact Hr).
      rewrite Hp. exists [], ((c :: h') :: segs'). cbn [cons_head map concat app bytes].
      repeat split; try lia.
      * f_equal. exact Hcat.
      * constructor; [|exact Hs]. split; [cbn [bytes]; lia|discriminate].
    + destruct (IH (S k) Hr Hra ltac:(lia)) as (h' & segs' & Hp & Hcat & Hb & Hs).
      rewrite phys_lines_cons by (right; apply fold_ascii_hd; exact Hr).
      rewrite Hp. exists (c :: h'), segs'. cbn [cons_head app bytes].
      repeat split; try lia; try assumption. f_equal. exact Hcat.
Qed.

(* The full structure of a folded line: first segment, then continuation lines each made of
   exactly one added SPACE and the next segment; segments concatenate to the input; every
   segment has at most 74 octets. *)
Lemma fold_structure l : no_lf l = true ->
  exists h segs, phys_lines (foldline l) = h :: map (cons 32) segs
    /\ h ++ concat segs = l /\ (bytes h <= 74)%nat /\ Forall seg_ok segs.
Proof.
  intros Hl. unfold foldline, foldline_with.
  change fold_limit with 75%nat. change fold_sep with sep.
  destruct (is_ascii l) eqn:Ha.
  - destruct (fold_ascii_lines l 0 Hl Ha ltac:(lia)) as (h & segs & H1 & H2 & H3 & H4).
    exists h, segs. repeat split; try assumption; try lia.
  - destruct (fold_gen_lines l 0 Hl ltac:(lia)) as (h & segs & H1 & H2 & H3 & H4).
    exists h, segs. repeat split; try assumption; try lia.
Qed.

Lemma fold_width l : no_lf l = true ->
  Forall (fun ln => (bytes ln <= 75)%nat) (phys_lines (foldline l)).
Proof.
  intros Hl. destruct (fold_structure l Hl) as (h & segs & H1 & _ & H3 & H4).
  rewrite H1. constructor; [lia|].
  apply Forall_map. eapply Forall_impl; [|exact H4].
  intros s [Hs _]. cbn [bytes]. unfold ulen. cbn. lia.
Qed.

(* ---------------------------------------------------------------- unfolding *)
Lemma unfold_sep x : unfold_aux 0 (sep ++ x) = unfold_aux 0 x.
Proof. reflexivity. Qed.

Lemma fold_match_len_keep c x : c <> 10 -> hd_not_lf x -> fold_match_len (c :: x) = O.
Proof.
  intros Hc Hx. unfold fold_match_len.
  destruct (N.eqb_spec c 10); [congruence|].
  destruct (c =? 13); [|reflexivity].
  destruct x as [|d r]; [reflexivity|]. cbn in Hx.
  destruct (N.eqb_spec d 10); [congruence|reflexivity].
Qed.

Lemma unfold_keep c x : c <> 10 -> hd_not_lf x -> unfold_aux 0 (c :: x) = c :: unfold_aux 0 x.
Proof.
  intros Hc Hx. cbn [unfold_aux]. rewrite fold_match_len_keep by assumption. reflexivity.
Qed.

Lemma unfold_fold_gen lim : forall l bc, no_lf l = true ->
  unfold_aux 0 (fold_gen lim sep bc l) = l.
Proof.
  induction l as [|c r IH]; intros bc Hl; [reflexivity|].
  apply no_lf_cons in Hl. destruct Hl as [Hc Hr].
  cbn [fold_gen]. cbv zeta. destruct (lim <=? bc + ulen c)%nat.
  - rewrite unfold_sep. rewrite unfold_keep; [|exact Hc|apply fold_gen_hd; exact Hr].
    f_equal. apply IH. exact Hr.
  - rewrite unfold_keep; [|exact Hc|apply fold_gen_hd; exact Hr].
    f_equal. apply IH. exact Hr.
Qed.

Lemma unfold_fold_ascii lim : forall l k, no_lf l = true ->
  unfold_aux 0 (fold_ascii lim sep k l) = l.
Proof.
  induction l as [|c r IH]; intros k Hl; [reflexivity|].
  apply no_lf_cons in Hl. destruct Hl as [Hc Hr].
  cbn [fold_ascii]. destruct (k =? lim)%nat.
  - rewrite unfold_sep. rewrite unfold_keep; [|exact Hc|apply fold_ascii_hd; exact Hr].
    f_equal. apply IH. exact Hr.
  - rewrite unfold_keep; [|exact Hc|apply fold_ascii_hd; exact Hr].
    f_equal. apply IH. exact Hr.
Qed.

Lemma fold_unfold l : no_lf l = true -> unfold (foldline l) = l.
Proof.
  intros Hl. unfold unfold, foldline, foldline_with. change fold_sep with sep.
  destruct (is_ascii l); [apply unfold_fold_ascii|apply unfold_fold_gen]; exact Hl.
Qed.

(* the RFC's own unfolding gives the same *)
Lemma rfc_unfold_sep x : rfc_unfold_aux 0 (sep ++ x) = rfc_unfold_aux 0 x.
Proof. destruct x; reflexivity. Qed.

Lemma rfc_unfold_keep c x : c <> 10 -> hd_not_lf x ->
  rfc_unfold_aux 0 (c :: x) = c :: rfc_unfold_aux 0 x.
Proof.
  intros Hc Hx. cbn [rfc_unfold_aux]. unfold rfc_fold_here.
  destruct x as [|d [|e r]]; try reflexivity.
  cbn in Hx. destruct (N.eqb_spec d 10); [congruence|].
  rewrite andb_false_r. reflexivity.
Qed.

Lemma rfc_unfold_fold_gen lim : forall l bc, no_lf l = true ->
  rfc_unfold_aux 0 (fold_gen lim sep bc l) = l.
Proof.
  induction l as [|c r IH]; intros bc Hl; [reflexivity|].
  apply no_lf_cons in Hl. destruct Hl as [Hc Hr].
  cbn [fold_gen]. cbv zeta. destruct (lim <=? bc + ulen c)%nat.
  - rewrite rfc_unfold_sep. rewrite rfc_unfold_keep; [|exact Hc|apply fold_gen_hd; exact Hr].
    f_equal. apply IH. exact Hr.
  - rewrite rfc_unfold_keep; [|exact Hc|apply fold_gen_hd; exact Hr].
    f_equal. apply IH. exact Hr.
Qed.

Lemma rfc_unfold_fold_ascii lim : forall l k, no_lf l = true ->
  rfc_unfold_aux 0 (fold_ascii lim sep k l) = l.
Proof.
  induction l as [|c r IH]; intros k Hl; [reflexivity|].
  apply no_lf_cons in Hl. destruct Hl as [Hc Hr].
  cbn [fold_ascii]. destruct (k =? lim)%nat.
  - rewrite rfc_unfold_sep. rewrite rfc_unfold_keep; [|exact Hc|apply fold_ascii_hd; exact Hr].
    f_equal. apply IH. exact Hr.
  - rewrite rfc_unfold_keep; [|exact Hc|apply fold_ascii_hd; exact Hr].
    f_equal. apply IH. exact Hr.
Qed.

Lemma fold_rfc_unfold l : no_lf l = true -> rfc_unfold (foldline l) = l.
Proof.
  intros Hl. unfold rfc_unfold, foldline, foldline_with. change fold_sep with sep.
  destruct (is_ascii l); [apply rfc_unfold_fold_ascii|apply rfc_unfold_fold_gen]; exact Hl.
Qed.

(* On ASCII input the fast path equals the general path. *)
Lemma fold_fast_eq_aux : forall l k, is_ascii l = true -> (k <= 74)%nat ->
  fold_ascii 74 sep k l = fold_gen 75 sep k l.
Proof.
  induction l as [|c r IH]; intros k Ha Hk; [reflexivity|].
  apply is_ascii_cons in Ha. destruct Ha as [Hc Hr].
  cbn [fold_ascii fold_gen]. cbv zeta. rewrite (ulen_ascii c Hc).
  destruct (Nat.eqb_spec k 74) as [E|E].
  - subst k. cbn [Nat.leb Nat.add]. rewrite IH by (try exact Hr; lia). reflexivity.
  - destruct (Nat.leb_spec 75 (k + 1)) as [E2|E2]; [lia|].
    rewrite Nat.add_1_r. rewrite IH by (try exact Hr; lia). reflexivity.
Qed.

Lemma fold_fast_eq l : is_ascii l = true ->
  foldline l = fold_gen fold_limit fold_sep 0 l.
Proof.
  intros Ha. unfold foldline, foldline_with. rewrite Ha.
  change fold_limit with 75%nat. change fold_sep with sep.
  apply fold_fast_eq_aux; [exact Ha|lia].
Qed.
