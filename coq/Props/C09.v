(* C09 -- the parse result is invariant under line endings, folds, trailing blank lines and name case.
   Statements only.  [phys_text nl ws ls] lays the logical lines [ls] (each given as its segments) out
   with line ending [nl] (CRLF or LF) and a fold [nl ++ [ws]] (ws = SPACE or TAB) between consecutive
   segments; [blank_lines nl k] are k trailing empty lines.  [segs_ok]: no CR/LF inside a line, the line
   starts with a name character, every fold stands between two characters. *)
Require Import Lib.Base Gen.Gen_parser Gen.Gen_cal Model.Fold Model.Params Model.Text Model.Contentline Model.Tree Model.Rewrite.
Require Import Proofs.ParamsProofs Proofs.RewriteProofs.

(* EVERY physical layout of the same logical lines yields exactly those content lines: the parser
   (which only sees Contentlines.from_ical) cannot tell CRLF from LF, cannot see where folds were placed
   or whether they used SPACE or TAB, and ignores trailing blank lines *)
Theorem C09_layout_invariant : forall nl ws, is_nl nl = true -> is_ws ws = true ->
  forall ls k, forallb segs_ok ls = true ->
  contentlines_from_ical (phys_text nl ws ls ++ blank_lines nl k) = map (@concat N) ls.
Proof. exact layout_invariant. Qed.
Print Assumptions C09_layout_invariant.

(* hence two layouts of the same lines parse identically, for every decoder and both modes *)
Theorem C09_parse_layout : forall dec cache multiple nl ws nl' ws' ls ls' k k',
  is_nl nl = true -> is_ws ws = true -> is_nl nl' = true -> is_ws ws' = true ->
  forallb segs_ok ls = true -> forallb segs_ok ls' = true -> map (@concat N) ls = map (@concat N) ls' ->
  parse dec cache multiple (phys_text nl ws ls ++ blank_lines nl k) =
  parse dec cache multiple (phys_text nl' ws' ls' ++ blank_lines nl' k').
Proof.
  intros dec cache multiple nl ws nl' ws' ls ls' k k' H1 H2 H3 H4 H5 H6 E. unfold parse.
  rewrite (layout_invariant nl ws H1 H2 ls k H5), (layout_invariant nl' ws' H3 H4 ls' k' H6), E. reflexivity.
Qed.
Print Assumptions C09_parse_layout.

(* names: the line loop depends on a property name, and on the value of a BEGIN / END line, only through
   the upper-cased spelling (after the fix in /repo, commit 238e963); parameter names likewise *)
Theorem C09_step_name_case : forall dec s name name' ps vals, upper name = upper name' ->
  step_parts dec s (Ok (name, ps, vals)) = step_parts dec s (Ok (name', ps, vals)).
Proof. exact step_name_case. Qed.
Print Assumptions C09_step_name_case.

Theorem C09_step_begin_end_case : forall dec s name ps vals vals', upper vals = upper vals' ->
  (str_is (upper name) "BEGIN" = true \/ str_is (upper name) "END" = true) ->
  step_parts dec s (Ok (name, ps, vals)) = step_parts dec s (Ok (name, ps, vals')).
Proof. exact step_begin_end_case. Qed.
Print Assumptions C09_step_begin_end_case.

Theorem C09_param_name_case : forall k k' v, is_token k = true -> is_token k' = true -> upper k = upper k' ->
  parse_param (k ++ 61 :: v) = parse_param (k' ++ 61 :: v).
Proof. exact parse_param_case. Qed.
Print Assumptions C09_param_name_case.

Example C09_nonvacuous :
  let ls := [[s2l "BEGIN:VEV"; s2l "ENT"]; [s2l "SUMMARY:a"; s2l " b"; [99; 13]]; [s2l "END:VEVENT"]] in
  forallb segs_ok [[s2l "BEGIN:VEV"; s2l "ENT"]; [s2l "SUMMARY:a"; s2l " b"; [99]]; [s2l "END:VEVENT"]] = true /\
  contentlines_from_ical (phys_text [10] 9 [[s2l "BEGIN:VEV"; s2l "ENT"]; [s2l "SUMMARY:a"; s2l " b"; [99]]; [s2l "END:VEVENT"]] ++ blank_lines [10] 2)
  = [s2l "BEGIN:VEVENT"; s2l "SUMMARY:a bc"; s2l "END:VEVENT"].
Proof. vm_compute. split; reflexivity. Qed.
