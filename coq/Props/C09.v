(* C09 -- the parse result is invariant under line endings, folds, trailing blank lines and name case.
   Statements only.  [phys_text nl ws ls] lays the logical lines [ls] (each given as its segments) out
   with line ending [nl] (CRLF or LF) and a fold [nl ++ [ws]] (ws = SPACE or TAB) between consecutive
   segments; [blank_lines nl k] are k trailing empty lines.  [segs_ok]: no CR/LF inside a line, the line
   starts with a name character, every fold stands between two characters. *)
Require Import Lib.Base Gen.Gen_parser Gen.Gen_cal Model.Fold Model.Params Model.Text Model.Contentline Model.Tree Model.Rewrite.
Require Import Proofs.ParamsProofs Proofs.RewriteProofs Proofs.RecaseProofs.

(* EVERY physical layout of the same logical lines yields exactly those content lines: the parser
   (which only sees Contentlines.from_ical) cannot tell CRLF from LF, cannot see where folds were placed
   or whether they used SPACE or TAB, and ignores trailing blank lines *)
Theorem C09_layout_invariant : forall nl ws, is_nl nl = true -> is_ws ws = true ->
  forall ls k, forallb segs_ok ls = true ->
  contentlines_from_ical (phys_text nl ws ls ++ blank_lines nl k) = map (@concat N) ls.
Proof. exact layout_invariant. Qed.
Print Assumptions C09_layout_invariant.

(* hence two layouts of the same lines parse identically, for every decoder and both modes *)
Theorem C09_parse_layout : forall dec cache multiple nl ws nl' ws' ls ls' k k',
  is_nl nl = true -> is_ws ws = true -> is_nl nl' = true -> is_ws ws' = true ->
  forallb segs_ok ls = true -> forallb segs_ok ls' = true -> map (@concat N) ls = map (@concat N) ls' ->
  parse dec cache multiple (phys_text nl ws ls ++ blank_lines nl k) =
  parse dec cache multiple (phys_text nl' ws' ls' ++ blank_lines nl' k').
Proof.
  intros dec cache multiple nl ws nl' ws' ls ls' k k' H1 H2 H3 H4 H5 H6 E. unfold parse.
  rewrite (layout_invariant nl ws H1 H2 ls k H5), (layout_invariant nl' ws' H3 H4 ls' k' H6), E. reflexivity.
Qed.
Print Assumptions C09_parse_layout.

(* names: the line loop depends on a property name, and on the value of a BEGIN / END line, only through
   the upper-cased spelling (after the fix in /repo, commit 238e963); parameter names likewise *)
Theorem C09_step_name_case : forall dec s name name' ps vals, upper name = upper name' ->
  step_parts dec s (Ok (name, ps, vals)) = step_parts dec s (Ok (name', ps, vals)).
Proof. exact step_name_case. Qed.
Print Assumptions C09_step_name_case.

Theorem C09_step_begin_end_case : forall dec s name ps vals vals', upper vals = upper vals' ->
  (str_is (upper name) "BEGIN" = true \/ str_is (upper name) "END" = true) ->
  step_parts dec s (Ok (name, ps, vals)) = step_parts dec s (Ok (name, ps, vals')).
Proof. exact step_begin_end_case. Qed.
Print Assumptions C09_step_begin_end_case.

Theorem C09_param_name_case : forall k k' v, is_token k = true -> is_token k' = true -> upper k = upper k' ->
  parse_param (k ++ 61 :: v) = parse_param (k' ++ 61 :: v).
Proof. exact parse_param_case. Qed.
Print Assumptions C09_param_name_case.

Example C09_nonvacuous :
  let ls := [[s2l "BEGIN:VEV"; s2l "ENT"]; [s2l "SUMMARY:a"; s2l " b"; [99; 13]]; [s2l "END:VEVENT"]] in
  forallb segs_ok [[s2l "BEGIN:VEV"; s2l "ENT"]; [s2l "SUMMARY:a"; s2l " b"; [99]]; [s2l "END:VEVENT"]] = true /\
  contentlines_from_ical (phys_text [10] 9 [[s2l "BEGIN:VEV"; s2l "ENT"]; [s2l "SUMMARY:a"; s2l " b"; [99]]; [s2l "END:VEVENT"]] ++ blank_lines [10] 2)
  = [s2l "BEGIN:VEVENT"; s2l "SUMMARY:a bc"; s2l "END:VEVENT"].
Proof. vm_compute. split; reflexivity. Qed.

(* ------------------------------------------------------------------ letter case of names, whole lines and whole texts *)
(* [name_variant line line'] (Model/Rewrite.v): line' is line with some letters written in the other case, all
   of them inside the property name or inside a parameter name -- read on the RAW line by a one-pass machine:
   outside quoted strings, before the first ':' that does not follow a backslash, and not between a '=' and
   the next ';' (a ';' / ':' directly after a backslash is no delimiter: parts() turns it into a placeholder
   before it scans).  [recase f line] is the function form: flip the letters at the positions i with f i = true
   that lie in a name ([name_positions line] is the mask).
   For EVERY line (well formed or not, any characters, including lines starting with ':' or ';' where the
   scan's "index 0 is unset" quirk applies): Contentline.parts gives the same outcome -- the same exception
   class, or the same Parameters (names are stored upper-cased), the same value text, and names that are
   equal after upper(). *)
Theorem C09_line_case : forall line line', name_variant line line' = true ->
  same_parts (parts line) (parts line').
Proof. exact parts_variant. Qed.
Print Assumptions C09_line_case.

Theorem C09_line_recase : forall f line, same_parts (parts line) (parts (recase f line)).
Proof. exact parts_recase. Qed.
Print Assumptions C09_line_recase.

(* hence the line loop takes the same step, for every decoder (no hypothesis on dec is needed: it receives
   the type key computed from the upper-cased name, the value text and the TZID parameter, all unchanged) *)
Theorem C09_step_line_case : forall dec s l l', name_variant l l' = true -> step dec s l' = step dec s l.
Proof. exact step_name_variant. Qed.
Print Assumptions C09_step_line_case.

(* BEGIN / END lines: the value is a component name and may be recased as a whole ([value_variant]: any letters
   after the first unquoted ':'), provided the line contains no '%' ... *)
Theorem C09_step_begin_end_value_case : forall dec s m l', begin_end_line m = true -> value_variant m l' = true ->
  step dec s l' = step dec s m.
Proof. exact step_value_variant. Qed.
Print Assumptions C09_step_begin_end_value_case.

(* ... a guard that is needed: "%3a" is text, "%3A" is the placeholder that parts() expands to ':', so the
   components of BEGIN:A%3aB and BEGIN:A%3AB are called A%3AB and A:B (the implementation agrees) *)
Theorem C09_begin_end_value_percent_refuted : exists m l',
  value_variant m l' = true /\
  (exists n ps v v', parts m = Ok (n, ps, v) /\ parts l' = Ok (n, ps, v') /\ str_is (upper n) "BEGIN" = true /\
                     upper v <> upper v') /\
  forall dec, step dec {| stack := []; done := []; cache := [] |} l' <> step dec {| stack := []; done := []; cache := [] |} m.
Proof. exact begin_value_percent_refuted. Qed.
Print Assumptions C09_begin_end_value_percent_refuted.

(* whole texts.  [line_variant l l']: names recased, and on a BEGIN / END line the component name too;
   [recase_lines f g 0 ls] rewrites line i with the selections f i (names) and g i (component name) *)
Theorem C09_run_lines_case : forall dec ls ls', Forall2 line_variant ls ls' ->
  forall s, run_lines dec s ls' = run_lines dec s ls.
Proof. exact run_lines_variant. Qed.
Print Assumptions C09_run_lines_case.

(* every layout of the recased lines parses to the same result (the same tree or the same exception class) as
   every layout of the original lines, for every decoder, every outcome of the time zone cache, both modes *)
Theorem C09_parse_case_layout : forall dec cache multiple nl ws nl' ws' segs segs' k k',
  is_nl nl = true -> is_ws ws = true -> is_nl nl' = true -> is_ws ws' = true ->
  forallb segs_ok segs = true -> forallb segs_ok segs' = true ->
  Forall2 line_variant (map (@concat N) segs) (map (@concat N) segs') ->
  parse dec cache multiple (phys_text nl' ws' segs' ++ blank_lines nl' k') =
  parse dec cache multiple (phys_text nl ws segs ++ blank_lines nl k).
Proof. exact parse_case_layout. Qed.
Print Assumptions C09_parse_case_layout.

Theorem C09_parse_recase_layout : forall dec cache multiple nl ws nl' ws' segs segs' k k' f g,
  is_nl nl = true -> is_ws ws = true -> is_nl nl' = true -> is_ws ws' = true ->
  forallb segs_ok segs = true -> forallb segs_ok segs' = true ->
  map (@concat N) segs' = recase_lines f g 0 (map (@concat N) segs) ->
  parse dec cache multiple (phys_text nl' ws' segs' ++ blank_lines nl' k') =
  parse dec cache multiple (phys_text nl ws segs ++ blank_lines nl k).
Proof. exact parse_recase_layout. Qed.
Print Assumptions C09_parse_recase_layout.

(* non-vacuity.  A mixed-case line with two parameters, one of them a quoted value containing ';' ':' and
   letters: every letter of the three names is flipped, nothing else *)
Definition ex_line : list N := s2l "Attendee;cn=""Smith; John: x"";RoLe=Chair:mailto:a@B.c".
Definition ex_line' : list N := Eval vm_compute in recase (fun _ => true) ex_line.
Definition ex_parts := Eval vm_compute in parts ex_line.
Definition ex_parts' := Eval vm_compute in parts ex_line'.
Example C09_line_case_nonvacuous :
  ex_line' = s2l "aTTENDEE;CN=""Smith; John: x"";rOlE=Chair:mailto:a@B.c" /\
  name_variant ex_line ex_line' = true /\
  ex_parts = Ok (s2l "Attendee", [(s2l "CN", PStr (s2l "Smith; John: x")); (s2l "ROLE", PStr (s2l "Chair"))], s2l "mailto:a@B.c") /\
  ex_parts' = Ok (s2l "aTTENDEE", [(s2l "CN", PStr (s2l "Smith; John: x")); (s2l "ROLE", PStr (s2l "Chair"))], s2l "mailto:a@B.c").
Proof. vm_compute. repeat split; reflexivity. Qed.

(* a backslash-escaped ';' inside a parameter value is no delimiter: "bc" after it is value text, not a name *)
Definition ex_esc : list N := s2l "x-a;p=a\;bc;q=D:v".
Definition ex_esc' : list N := Eval vm_compute in recase (fun _ => true) ex_esc.
Definition ex_esc_mask : list bool := Eval vm_compute in name_positions ex_esc.
Definition ex_esc_parts' := Eval vm_compute in parts ex_esc'.
Example C09_line_case_escaped :
  ex_esc' = s2l "X-A;P=a\;bc;Q=D:v" /\
  ex_esc_mask = [true; false; true; false; true; false; false; false; false; false; false; false; true; false; false; false; false] /\
  ex_esc_parts' = Ok (s2l "X-A", [(s2l "P", PStr (s2l "a;bc")); (s2l "Q", PStr (s2l "D"))], s2l "v").
Proof. vm_compute. repeat split; reflexivity. Qed.

(* a whole text: names and component names recased, another layout; both parse to the same tree *)
Definition ex_text : list (list N) := [s2l "begin:vevent"; s2l "Summary;Language=en:Hi"; s2l "end:VEVENT"].
Definition ex_text' : list (list N) := Eval vm_compute in recase_lines (fun _ _ => true) (fun _ _ => true) 0 ex_text.
Definition ex_tree := Eval vm_compute in parse dec_basic [] false (phys_text [13; 10] 32 (map (fun l => [l]) ex_text)).
Definition ex_tree' := Eval vm_compute in parse dec_basic [] false (phys_text [10] 9 (map (fun l => [firstn 3 l; skipn 3 l]) ex_text')).
Example C09_text_case_nonvacuous :
  ex_text' = [s2l "BEGIN:VEVENT"; s2l "sUMMARY;lANGUAGE=en:Hi"; s2l "END:vevent"] /\
  ex_tree' = ex_tree /\
  ex_tree = Ok [Comp (s2l "VEVENT")
                  [(s2l "SUMMARY", One {| v_class := s2l "vText"; v_params := [(s2l "LANGUAGE", PStr (s2l "en"))]; v_text := s2l "Hi" |})]
                  [] []].
Proof. vm_compute. repeat split; reflexivity. Qed.
