(* C17 -- components and parameter maps are dicts keyed by upper-cased names.  Statements only. *)
Require Import Lib.Base Model.Params Model.Sort Model.Caseless.
