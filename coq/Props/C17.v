(* C17 -- components and parameter maps are dicts keyed by upper-cased names.  Statements only.

   [step veqb s o] is the model of CaselessDict (every overridden method as written, the
   inherited ones as CPython executes them), [rstep] the reference: an insertion-ordered
   dictionary keyed by [ckey k = upper (to_unicode k)].  A state is the list of stored items
   in order.  [V] is any type of values, [veqb] any comparison of values (Python's ==).
   [op_ok s o] excludes exactly: pop(k) without default on a missing key (finding C17-F1),
   ==/!= with a mapping that has a non-upper-case key or with a non-mapping (C17-F2), and
   move_to_end with a key that is not already upper-case (OrderedDict-specific, not an
   operation the property lists; it bypasses the folding). *)
Require Import Lib.Base Model.Params Model.Sort Model.Caseless Proofs.SortPerm Proofs.CaselessProofs Proofs.CaselessUpdateProofs.
From Coq Require Import Sorting.Sorted Sorting.Permutation.

(* results and states equal those of the reference map, for operation sequences of ANY length
   and all key spellings (str or bytes, any letter case) *)
Theorem C17_caseless_refines : forall (V : Type) (veqb : V -> V -> bool) (ops : list (op V)),
  ops_ok veqb [] ops = true -> run veqb [] ops = rrun veqb [] ops.
Proof. intros V veqb ops. apply run_refines. apply inv_nil. Qed.
Print Assumptions C17_caseless_refines.

(* the same, one operation from any reachable state *)
Theorem C17_step_refines : forall (V : Type) (veqb : V -> V -> bool) (ops : list (op V)) (o : op V),
  let s := fst (run veqb [] ops) in
  op_ok s o = true -> step veqb s o = rstep veqb s o.
Proof. intros V veqb ops o s. apply step_refines. apply run_inv. apply inv_nil. Qed.
Print Assumptions C17_step_refines.

(* after ANY sequence of operations (inside the guard or not) every stored key is its own
   upper-case form ... *)
Theorem C17_keys_upper : forall (V : Type) (veqb : V -> V -> bool) (ops : list (op V)),
  Forall (fun k => upper k = k) (keys (fst (run veqb [] ops))).
Proof. intros V veqb ops. exact (proj1 (run_inv V veqb ops [] (inv_nil V))). Qed.
Print Assumptions C17_keys_upper.

(* ... and no key is stored twice *)
Theorem C17_no_duplicate_keys : forall (V : Type) (veqb : V -> V -> bool) (ops : list (op V)),
  NoDup (keys (fst (run veqb [] ops))).
Proof. intros V veqb ops. exact (proj2 (run_inv V veqb ops [] (inv_nil V))). Qed.
Print Assumptions C17_no_duplicate_keys.

(* first insertion order: storing items (constructor, update, |=, item by item) into a map d
   leaves the keys of d in place and appends the new upper-cased names in the order of their
   first occurrence *)
Theorem C17_first_insertion_order : forall (V : Type) (d : list (list N * V)) (ps : list (key * V)),
  keys (c_update d ps)
  = keys d ++ filter (fun x => negb (mem_str x (keys d))) (dedup_first (map (fun kv => ckey (fst kv)) ps)).
Proof. intros V d ps. apply c_update_order. Qed.
Print Assumptions C17_first_insertion_order.

Theorem C17_constructor_order : forall (V : Type) (ps : list (key * V)),
  keys (c_init ps) = dedup_first (map (fun kv => ckey (fst kv)) ps).
Proof. exact c_init_order. Qed.
Print Assumptions C17_constructor_order.

(* update()/constructor/|= store pair after pair: the state after ANY prefix of the pairs is the state the
   call would leave had it been given that prefix only (so a call that fails at a later, malformed pair
   leaves what dict.update leaves: everything before it), and processing resumes from there *)
Theorem C17_update_prefix : forall (V : Type) (n : nat) (ps : list (key * V)) (d : list (list N * V)),
  c_update d ps = c_update (c_update d (firstn n ps)) (skipn n ps).
Proof. intros V n ps d. apply c_update_firstn_skipn. Qed.
Print Assumptions C17_update_prefix.

Theorem C17_update_append : forall (V : Type) (ps qs : list (key * V)) (d : list (list N * V)),
  c_update d (ps ++ qs) = c_update (c_update d ps) qs.
Proof. intros V ps qs d. apply c_update_app. Qed.
Print Assumptions C17_update_append.

(* reads after an update: the last pair that spells a name (in any letter case, str or bytes) decides its
   value; a name no pair spells keeps the value it had *)
Theorem C17_update_last_wins : forall (V : Type) (ps qs : list (key * V)) (k : key) (v : V) (d : list (list N * V)),
  (forall kv, In kv qs -> str_eqb (ckey k) (ckey (fst kv)) = false) ->
  dict_get (ckey k) (c_update d (ps ++ (k, v) :: qs)) = Some v.
Proof. intros V ps qs k v d. apply c_update_last_wins. Qed.
Print Assumptions C17_update_last_wins.

Theorem C17_update_untouched : forall (V : Type) (K : list N) (ps : list (key * V)) (d : list (list N * V)),
  (forall kv, In kv ps -> str_eqb K (ckey (fst kv)) = false) ->
  dict_get K (c_update d ps) = dict_get K d.
Proof. intros V K ps d. apply c_update_untouched. Qed.
Print Assumptions C17_update_untouched.

(* one store / one delete *)
Theorem C17_setitem_order : forall (V : Type) (k : key) (v : V) (d : list (list N * V)),
  keys (c_setitem d k v) = if dict_mem (ckey k) d then keys d else keys d ++ [ckey k].
Proof. intros V k v d. apply set_order. Qed.
Print Assumptions C17_setitem_order.

Theorem C17_delitem_order : forall (V : Type) (k : list N) (d : list (list N * V)),
  NoDup (keys d) -> keys (dict_del k d) = filter (fun x => negb (str_eqb k x)) (keys d).
Proof. exact del_keys_filter. Qed.
Print Assumptions C17_delitem_order.

(* canonsort_keys, for every key list and every declared order: the result is a permutation
   of the input; it consists of the priority names sorted by declared position followed by
   the other names in str order *)
Theorem C17_canonsort_spec : forall ks order : list (list N),
  Permutation (canonsort_keys ks order) ks /\
  exists h t, canonsort_keys ks order = h ++ t
    /\ Forall (fun k => In k order) h
    /\ StronglySorted (fun a b => (idx_or order a <= idx_or order b)%nat) h
    /\ Forall (fun k => ~ In k order) t
    /\ StronglySorted (fun a b => str_leb a b = true) t.
Proof. intros ks order. split; [apply canonsort_perm|apply canonsort_structure]. Qed.
Print Assumptions C17_canonsort_spec.

(* with duplicate-free inputs: exactly the declared priority names that occur, in declared
   order, then the rest sorted *)
Theorem C17_canonsort_declared_order : forall ks order : list (list N),
  NoDup order -> NoDup ks ->
  canonsort_keys ks order
  = filter (fun c => mem_str c ks) order ++ sort_by str_leb (filter (fun k => negb (mem_str k order)) ks).
Proof. exact canonsort_declared_order. Qed.
Print Assumptions C17_canonsort_declared_order.

(* independent of the order of the input keys (i.e. of the insertion order of the dict) *)
Theorem C17_canonsort_order_independent : forall ks ks' order : list (list N),
  Permutation ks ks' -> canonsort_keys ks order = canonsort_keys ks' order.
Proof. exact canonsort_perm_invariant. Qed.
Print Assumptions C17_canonsort_order_independent.

(* the reusable lemma behind it (Proofs/SortPerm.v) *)
Theorem C17_sorted_perm_unique : forall (A : Type) (le : A -> A -> Prop) (l1 l2 : list A),
  Permutation l1 l2 -> StronglySorted le l1 -> StronglySorted le l2 ->
  (forall a b, In a l1 -> In b l1 -> le a b -> le b a -> a = b) -> l1 = l2.
Proof. exact sorted_perm_eq. Qed.
Print Assumptions C17_sorted_perm_unique.

(* ---------------------------------------------------------------- outside the guard: known findings *)
Local Notation "'K' s" := (KStr (s2l s)) (at level 9).

(* C17-F1: pop of a missing key returns None where the dictionary raises KeyError *)
Theorem C17_pop_missing_refuted : exists (ops : list (op Z)) (o : op Z),
  let s := fst (run Z.eqb [] ops) in
  snd (step Z.eqb s o) = RNone /\ snd (rstep Z.eqb s o) = RKeyError.
Proof. exists [OInit [(K"a", 1%Z)]], (OPop K"zz" None). vm_compute. split; reflexivity. Qed.
Print Assumptions C17_pop_missing_refuted.

(* C17-F2: CaselessDict(a=1) == {'a': 1} is False although the upper-cased content is the same *)
Theorem C17_eq_upper_content_refuted : exists (ops : list (op Z)) (other : list (list N * Z)),
  let s := fst (run Z.eqb [] ops) in
  snd (step Z.eqb s (OEq other)) = RBool false /\ snd (rstep Z.eqb s (OEq other)) = RBool true.
Proof. exists [OInit [(K"a", 1%Z)]], [(s2l "a", 1%Z)]. vm_compute. split; reflexivity. Qed.
Print Assumptions C17_eq_upper_content_refuted.

(* C17-F2: comparing with a non-mapping raises AttributeError where a dictionary answers False *)
Theorem C17_eq_nonmapping_refuted :
  snd (step Z.eqb [] OEqNonMapping) = RErr (s2l "AttributeError")
  /\ snd (rstep Z.eqb [] OEqNonMapping) = RBool false.
Proof. vm_compute. split; reflexivity. Qed.
Print Assumptions C17_eq_nonmapping_refuted.

(* the inherited move_to_end looks the key up as written: not found in lower case *)
Theorem C17_move_to_end_not_folded : exists ops : list (op Z),
  let s := fst (run Z.eqb [] ops) in
  snd (step Z.eqb s (OMoveToEnd K"a" true)) = RKeyError
  /\ snd (rstep Z.eqb s (OMoveToEnd K"a" true)) = RNone.
Proof. exists [OInit [(K"a", 1%Z); (K"b", 2%Z)]]. vm_compute. split; reflexivity. Qed.
Print Assumptions C17_move_to_end_not_folded.

(* non-vacuity: a guarded sequence over case variants, str and bytes, with overwrite, delete,
   merge and copy; final keys upper-case in first-insertion order *)
Example C17_nonvacuous :
  let ops := [OInit [(K"a", 1%Z); (K"Ab", 2%Z); (K"A", 3%Z)]; OSetItem (KBytes (s2l "x-y")) 4%Z;
              OSetItem K"aB" 5%Z; ODelItem K"A"; OSetDefault K"a" 6%Z; OPop K"X-Y" None;
              OIor [(K"ab", 7%Z); (K"q", 8%Z)]; OEq [(s2l "AB", 7%Z); (s2l "A", 6%Z); (s2l "Q", 8%Z)]; OCopy] in
  ops_ok Z.eqb [] ops = true
  /\ fst (run Z.eqb [] ops) = [(s2l "AB", 7%Z); (s2l "A", 6%Z); (s2l "Q", 8%Z)]
  /\ nth 7 (snd (run Z.eqb [] ops)) RNone = RBool true.
Proof. vm_compute. repeat split; reflexivity. Qed.
Print Assumptions C17_nonvacuous.

Example C17_canonsort_nonvacuous :
  canonsort_keys [s2l "UID"; s2l "X-B"; s2l "DTSTART"; s2l "ATTENDEE"; s2l "SUMMARY"]
                 [s2l "SUMMARY"; s2l "DTSTART"; s2l "DTEND"; s2l "UID"]
  = [s2l "SUMMARY"; s2l "DTSTART"; s2l "UID"; s2l "ATTENDEE"; s2l "X-B"].
Proof. vm_compute. reflexivity. Qed.
Print Assumptions C17_canonsort_nonvacuous.
