Require Import Lib.Base Model.TzGen Proofs.TzGenProofs.
