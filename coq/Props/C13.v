(* C13 -- a generated VTIMEZONE (Timezone.from_tzinfo) against its source zone.  Statements only.
   The source zone is an ORACLE: [off, dstv, name : Z -> _] on an axis of seconds (wall time with
   fold=0 for zoneinfo, instants for pytz); every theorem quantifies over it.  [H] = datetime.max.
   [from_tzinfo_skips] is generated from cal.Timezone._from_tzinfo_skip_search on every run
   (64 d ... 1 s).  What is proved: the coarse-to-fine search and the loop around it.  What is NOT
   proved: the grouping/DTSTART/RDATE emission against the RFC interpretation (correspondence and
   direct oracle only), and nothing about zoneinfo/pytz/tzdata themselves.
   PARTIAL: the faithfulness clause of the property is REFUTED for the pinned code (C13-F1..F3). *)
Require Import Lib.Base Model.Params Model.TzRules Model.TzGen Gen.Gen_tz Proofs.TzGenProofs.
Open Scope Z_scope.

(* search_finds_transition: if the offset is a from the start point up to (excluding) c, and differs
   from a for the 64 days from c on, the search returns c - 1: the next interval starts exactly at c.
   (64 days = the largest skip; the bound c - e <= 100000 * 64 d is the model's step cap.) *)
Theorem C13_search_finds_transition : forall (off : Z -> Z) (H a e c : Z),
  e < c -> c - e <= fuel_cap * 5529600 -> c + 5529600 <= H + 1 ->
  (forall x, e < x < c -> off x = a) -> (forall x, c <= x < c + 5529600 -> off x <> a) ->
  search off H from_tzinfo_skips a e = Some (c - 1).
Proof. exact search_finds_gen. Qed.
Print Assumptions C13_search_finds_transition.

(* the same for any skip list: positive steps of at most M, consecutive steps shrinking by a factor
   of at most 2000: the result r satisfies e <= r < c <= r + (last skip) *)
Theorem C13_search_finds_transition_any : forall (off : Z -> Z) (H : Z) skips a e c M,
  skips <> [] -> Forall (fun k => 0 < k <= M) skips -> chain skips ->
  c - e <= fuel_cap * hd 1 skips -> e < c -> c + M <= H + 1 ->
  (forall x, e < x < c -> off x = a) -> (forall x, c <= x < c + M -> off x <> a) ->
  exists r, search off H skips a e = Some r /\ e <= r < c /\ c <= r + last skips 1.
Proof. exact search_finds. Qed.
Print Assumptions C13_search_finds_transition_any.

(* a zone that keeps its offset to the horizon: the 64-day level runs into OverflowError *)
Theorem C13_search_to_horizon : forall (off : Z -> Z) (H k : Z) r a e,
  0 < k -> e <= H -> H - e + 1 <= fuel_cap * k -> (forall x, e < x <= H -> off x = a) ->
  exists x, search off H (k :: r) a e = Some x /\ H - k < x.
Proof. exact search_const. Qed.
Print Assumptions C13_search_to_horizon.

(* gen_faithful, as far as it is proved: for every zone whose offset changes exactly at the points
   cps after s, never returns to the previous value within 64 days of a change ([pieces]), the
   loop records exactly one entry per interval that starts before [lst]:
   (previous offset, offset, tzname(), dst() = 0, wall clock) taken AT the change point *)
Theorem C13_gen_records : forall off dstv name wall_of H lst cps s prev fuel,
  lst <= H - 5529600 -> pieces off H 5529600 5529600 s cps -> (length cps + 2 <= fuel)%nat ->
  loop off dstv name wall_of H fuel from_tzinfo_skips lst s prev =
  Some (expected off dstv name wall_of lst s prev cps).
Proof. exact loop_correct_gen. Qed.
Print Assumptions C13_gen_records.

(* the facts about the generated list the two theorems above rest on *)
Theorem C13_skips_facts :
  from_tzinfo_skips <> [] /\ Forall (fun k => 0 < k <= 5529600) from_tzinfo_skips /\
  last from_tzinfo_skips 1 = 1 /\ chain from_tzinfo_skips /\ hd 1 from_tzinfo_skips = 5529600.
Proof. exact skips_facts. Qed.
Print Assumptions C13_skips_facts.

(* non-vacuity: a zone with two transitions a year apart, pytz axis; all three intervals are emitted
   (note the DTSTART values: 10007200 = instant 10^7 + NEW offset, see C13-F1) *)
Example C13_nonvacuous :
  from_tzinfo_tab good_tab dS true 1000000000 50 0 60000000 60048000 =
  Ok [mkGobs true 3600 3600 (s2l "S") 3600 []; mkGobs false 3600 7200 (s2l "D") 10007200 [];
      mkGobs true 7200 3600 (s2l "S") 40003600 []].
Proof. exact good_gen. Qed.
Print Assumptions C13_nonvacuous.

(* the refutations (known findings) ------------------------------------------------------- *)
(* C13-F1: DTSTART is the wall clock AFTER the change (instant + new offset under pytz; first wall
   time after the gap under zoneinfo) but is paired with TZOFFSETFROM: under the RFC onset rule the
   onset moves by the size of the change.  Source: +1h -> +2h at instant 10^7; the generated
   component still says +1h at 10^7 and switches only at 10^7 + 3600. *)
Theorem C13_gen_refuted_shift :
  let g := [mkGobs true 3600 3600 (s2l "S") 3600 []; mkGobs false 3600 7200 (s2l "D") 10007200 []] in
  shift_gen_pytz = Ok g /\ shift_gen_zoneinfo = Ok g /\
  tab_off shift_tab dS 10000000 = 7200 /\
  rfc_offset (to_vtz g) 10000000 = Some (3600, Some (s2l "S"), false) /\
  rfc_offset (to_vtz g) 10003600 = Some (7200, Some (s2l "D"), true).
Proof. exact shift_refutes. Qed.
Print Assumptions C13_gen_refuted_shift.

(* C13-F2: an interval shorter than the largest skip is lost with both its transitions *)
Theorem C13_gen_refuted_short :
  short_gen = Ok [mkGobs true 0 0 (s2l "S") 0 []] /\
  tab_off short_tab d0 1728000 = 3600 /\
  rfc_offset (to_vtz [mkGobs true 0 0 (s2l "S") 0 []]) 1728000 = Some (0, Some (s2l "S"), false).
Proof. exact short_refutes. Qed.
Print Assumptions C13_gen_refuted_short.

(* C13-F3: a change of abbreviation / DST flag at constant offset is invisible to the search *)
Theorem C13_gen_refuted_name :
  name_gen = Ok [mkGobs true 3600 3600 (s2l "S") 0 []] /\
  tab_name name_tab dS 15000000 = s2l "X" /\ tab_dst name_tab dS 15000000 = 3600 /\
  rfc_offset (to_vtz [mkGobs true 3600 3600 (s2l "S") 0 []]) 15000000 = Some (3600, Some (s2l "S"), false).
Proof. exact name_refutes. Qed.
Print Assumptions C13_gen_refuted_name.
