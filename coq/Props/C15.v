(* C15 -- An alarm is active iff not acknowledged at/after its (snoozed) trigger.
   Statements only.  Model: Model/Alarm.v (AlarmTime, Alarms.active, Alarms._alarm_time).
   An alarm time [x] carries its trigger (a date, a floating, UTC or zoned date-time), the
   alarm's ACKNOWLEDGED, the component-level acknowledgement (DTSTAMP, or Thunderbird's
   X-MOZ-LASTACK) and the snooze time, the last three optional UTC instants.
     spec_active t aa ca sn   the property's decision rule on instants: with acknowledged-until
                              = the later of aa and ca, active iff nothing is acknowledged, or
                              snoozed until after the acknowledgement, or the trigger is later
                              than the acknowledgement
     needs_trigger aa ca sn   something is acknowledged and the snooze does not settle it
     spec_trigger o t sn      the snooze time when it is later than the trigger, else the trigger
   Every statement holds for every zone oracle and all instants (all orderings, ties included). *)
Require Import Lib.Base Model.Params Gen.Gen_sched Model.StartEnd Model.Alarm Proofs.AckProofs.
From Coq Require Import ZArith.
Local Open Scope Z_scope.

(* acknowledged-until is the later of the two acknowledgements, each possibly absent *)
Theorem C15_acknowledged : forall x,
  acknowledged x = match at_alarm_ack x, at_last_ack x with
                   | None, None => None
                   | Some a, None => Some a
                   | None, Some b => Some b
                   | Some a, Some b => Some (Z.max a b)
                   end.
Proof. exact acknowledged_spec. Qed.
Print Assumptions C15_acknowledged.

(* the decision table: is_active is the property's rule; the only error is
   LocalTimezoneMissing, raised exactly for a floating trigger when the comparison with the
   trigger is needed *)
Theorem C15_active_table : forall o x,
  not_date_trigger x = true ->       (* C15-F1 excluded *)
  snooze_ok x = true ->              (* C15-F2 excluded *)
  is_active o x =
  if needs_trigger (at_alarm_ack x) (at_last_ack x) (at_snooze x) && floating x
  then SVal LocalTzMissing
  else SOk (spec_active (instant o (at_trigger x)) (at_alarm_ack x) (at_last_ack x) (at_snooze x)).
Proof. exact active_table. Qed.
Print Assumptions C15_active_table.

(* once a local zone is set no alarm time of a component is floating, so (dates aside)
   is_active is the decision rule without any error *)
Theorem C15_local_zone_no_floating : forall o p L als ts,
  component_times o p (Some L) als = SOk ts -> Forall (fun x => floating x = false) ts.
Proof. exact local_zone_no_floating. Qed.
Print Assumptions C15_local_zone_no_floating.

Theorem C15_active_defined : forall o x,
  not_date_trigger x = true -> floating x = false ->
  is_active o x = SOk (spec_active (instant o (at_trigger x)) (at_alarm_ack x) (at_last_ack x) (at_snooze x)).
Proof. exact local_zone_active_defined. Qed.
Print Assumptions C15_active_defined.

(* the active list is a sub-list of all times, and consists of exactly the active ones *)
Theorem C15_active_sublist : forall o times act,
  active_of o (SOk times) = SOk act -> sublist act times.
Proof. exact active_sublist. Qed.
Print Assumptions C15_active_sublist.

Theorem C15_component_active_sublist : forall o p local als act,
  component_active o p local als = SOk act ->
  exists times, component_times o p local als = SOk times /\ sublist act times.
Proof. exact component_active_sublist. Qed.
Print Assumptions C15_component_active_sublist.

Theorem C15_active_members : forall o times act x,
  active_of o (SOk times) = SOk act -> (In x act <-> In x times /\ is_active o x = SOk true).
Proof. exact active_members. Qed.
Print Assumptions C15_active_members.

(* moving either acknowledgement later (or adding one) never activates an alarm *)
Theorem C15_ack_monotone : forall o tr aa la sn aa' la',
  ack_later aa aa' -> ack_later la la' ->
  is_active o {| at_trigger := tr; at_alarm_ack := aa; at_last_ack := la; at_snooze := sn |} = SOk false ->
  is_active o {| at_trigger := tr; at_alarm_ack := aa'; at_last_ack := la'; at_snooze := sn |} = SOk false.
Proof. exact ack_monotone. Qed.
Print Assumptions C15_ack_monotone.

(* a snooze later than the trigger moves the reported trigger to the snooze time *)
Theorem C15_snooze_moves_trigger : forall o x,
  not_date_trigger x = true -> snooze_ok x = true ->
  at_trigger_prop o x = SOk (spec_trigger o (at_trigger x) (at_snooze x)).
Proof. exact snooze_moves_trigger. Qed.
Print Assumptions C15_snooze_moves_trigger.

(* a floating trigger takes the local zone keeping its wall clock (zoneinfo zone objects) *)
Theorem C15_localize_keeps_wall : forall o L s, zfix L = None ->
  localize o (Some L) (Naive s) = SOk (Zoned L s).
Proof. exact localize_keeps_wall. Qed.
Print Assumptions C15_localize_keeps_wall.

(* outside the guards the property fails -- the known findings *)
(* C15-F3: under pytz the local zone is attached with replace(tzinfo=...), i.e. with the zone's
   first (LMT) offset, and normalize() then moves the wall clock: 10:00 becomes 10:07 *)
Theorem C15_localize_pytz_refuted : exists o L s t,
  localize o (Some L) (Naive s) = SOk t /\ wall t <> s.
Proof. exact localize_pytz_refuted. Qed.
Print Assumptions C15_localize_pytz_refuted.

(* C15-F1: a date-valued trigger (all-day start, whole-day relative trigger): is_active raises
   AttributeError, .trigger with a snooze raises TypeError, and setting a local zone makes
   Alarms.times itself raise TypeError *)
Theorem C15_date_trigger_refuted : exists o x L,
  not_date_trigger x = false /\
  is_active o x = SEsc AttributeErr /\
  at_trigger_prop o (mk_at (at_trigger x) None None (Some 0)) = SEsc TypeErr /\
  localize o (Some L) (at_trigger x) = SEsc TypeErr.
Proof. exact date_trigger_refuted. Qed.
Print Assumptions C15_date_trigger_refuted.

(* C15-F2: a floating trigger with a snooze time and no local zone: TypeError from the
   comparison `snooze > trigger` where the table says LocalTimezoneMissing *)
Theorem C15_floating_snooze_refuted : exists o x,
  not_date_trigger x = true /\ snooze_ok x = false /\
  needs_trigger (at_alarm_ack x) (at_last_ack x) (at_snooze x) = true /\
  is_active o x = SEsc TypeErr /\ at_trigger_prop o x = SEsc TypeErr.
Proof. exact floating_snooze_refuted. Qed.
Print Assumptions C15_floating_snooze_refuted.

(* non-vacuity: a zoned trigger between the two acknowledgements with a snooze after both is
   inside the guards and active; with the component acknowledgement moved past the snooze it is
   not; the reported trigger is the snooze time *)
Example C15_nonvacuous :
  let o := {| off_wall := fun _ _ => 3600; off_utc := fun _ _ => 3600 |} in
  let z := {| zid := 1; zfix := None |} in
  let x := mk_at (Zoned z 36000) (Some 30000) (Some 33000) (Some 34000) in
  let y := mk_at (Zoned z 36000) (Some 30000) (Some 34000) (Some 34000) in
  not_date_trigger x = true /\ snooze_ok x = true /\
  is_active o x = SOk true /\ is_active o y = SOk false /\ at_trigger_prop o x = SOk (Utc 34000).
Proof. vm_compute. repeat split; reflexivity. Qed.
Print Assumptions C15_nonvacuous.
