(* C01 -- parse, serialise, parse is stable and lossless.  Statements only.
   Trees are [comp] (Model/Tree.v): name, insertion-ordered properties (name -> one value or a
   list), subcomponents, error list; a typed value is (class name, parameters, wire text).
   [parse dec cache multiple text] is Component.from_ical over a value decoder [dec] (the codecs:
   C03/C07/C19) and the recorded time-zone cache outcomes; [ser sorted t] is Component.to_ical.
   [tree_ok dec sorted t] is the boolean guard: names are upper-case tokens, property names
   pairwise different, and for every value: its content line splits back into the same name and
   parameters (the C05 guards), it has the class its property name selects, and the decoder maps
   what Contentline.parts makes of its wire text back to a value with the same wire text.  [norm sorted t] = properties in emission order, canonical parameters, one-element
   lists as single values, no error list.  [tree_upper]: parameter names stored upper-case. *)
Require Import Lib.Base Lib.Chain Gen.Gen_parser Gen.Gen_cal Model.Text Model.Params Model.Fold Model.Contentline Model.Tree.
Require Import Proofs.LinesProofs Proofs.TreeProofs.

(* parsing the serialisation of ANY tree inside the guard, for ANY decoder, gives its normal form *)
Theorem C01_reparse : forall dec sorted multiple t text, tree_ok dec sorted t = true ->
  ser sorted t = Ok text -> parse dec [] multiple text = Ok [norm sorted t].
Proof. exact reparse. Qed.
Print Assumptions C01_reparse.

(* the normal form serialises to the same text (hence the same octets) *)
Theorem C01_ser_norm : forall dec sorted t, tree_ok dec sorted t = true -> tree_upper t = true ->
  ser sorted (norm sorted t) = ser sorted t.
Proof. exact ser_norm. Qed.
Print Assumptions C01_ser_norm.

(* stability: parse(serialise(t)) is the normal form of t and serialises to identical bytes *)
Theorem C01_stable : forall dec sorted multiple t text, tree_ok dec sorted t = true -> tree_upper t = true ->
  ser sorted t = Ok text ->
  exists t', parse dec [] multiple text = Ok [t'] /\ t' = norm sorted t /\ ser sorted t' = Ok text.
Proof. exact stable. Qed.
Print Assumptions C01_stable.

(* Contentlines.from_ical inverts Contentlines.to_ical (folding, CRLF joining) on every list of lines
   without LF that begin with a name character -- every line of every serialised component (C06) *)
Theorem C01_lines_roundtrip : forall ls, forallb good_line ls = true ->
  contentlines_from_ical (contentlines_to_ical ls) = ls.
Proof. exact lines_roundtrip. Qed.
Print Assumptions C01_lines_roundtrip.

(* sorting the emission order twice changes nothing (serialisation order is a function of the key set) *)
Theorem C01_canonsort_idem : forall keys canon,
  canonsort_keys (canonsort_keys keys canon) canon = canonsort_keys keys canon.
Proof. exact canonsort_idem. Qed.
Print Assumptions C01_canonsort_idem.

(* every registered component class is found under its own name (generated table) *)
Theorem C01_classes_registered :
  forallb (fun c => match class_of (cc_name c) with Some c' => str_eqb (cc_name c') (cc_name c) | None => false end)
          component_classes = true.
Proof. vm_compute. reflexivity. Qed.

(* outside the guard (value text with an escaped comma after an escaped backslash): the second
   serialisation differs from the first -- known finding C01-F1 *)
Definition ex_bad : comp :=
  Comp (s2l "VEVENT") [(s2l "URL", One {| v_class := s2l "vUri"; v_params := []; v_text := [97; 92; 92; 92; 44; 98] |})] [] [].
Definition ex_bad_text : list N := Eval vm_compute in match ser true ex_bad with Ok x => x | _ => [] end.
Definition ex_bad_t2 : comp := Eval vm_compute in match parse dec_basic [] false ex_bad_text with Ok [c] => c | _ => ex_bad end.
Theorem C01_refuted :
  ser true ex_bad = Ok ex_bad_text /\ parse dec_basic [] false ex_bad_text = Ok [ex_bad_t2] /\ ser true ex_bad_t2 <> Ok ex_bad_text.
Proof. split; [vm_compute; reflexivity|]. split; [vm_compute; reflexivity|]. vm_compute. discriminate. Qed.

(* non-vacuity: a nested tree with TEXT (escaped comma, semicolon, newline), URI, multi-valued and
   parameterised properties is inside the guards, and the theorem's conclusion is observed on it *)
Definition ex_txt (s : list N) : value := {| v_class := s2l "vText"; v_params := []; v_text := s |}.
Definition ex_good : comp :=
  Comp (s2l "VCALENDAR")
    [(s2l "PRODID", One (ex_txt (s2l "-//x//EN"))); (s2l "VERSION", One (ex_txt (s2l "2.0")))]
    [Comp (s2l "VEVENT")
       [(s2l "SUMMARY", One (ex_txt (s2l "a\, b\; c\nd")));
        (s2l "ATTENDEE", Many [{| v_class := s2l "vCalAddress"; v_params := [(s2l "CN", PStr (s2l "Doe, J")); (s2l "ROLE", PStr (s2l "CHAIR"))]; v_text := s2l "mailto:j@x" |};
                               {| v_class := s2l "vCalAddress"; v_params := []; v_text := s2l "mailto:k@x" |}]);
        (s2l "URL", One {| v_class := s2l "vUri"; v_params := []; v_text := s2l "http://x/?a=b;c" |})]
       [Comp (s2l "X-SUB") [(s2l "X-P", One (ex_txt (s2l "v")))] [] []] []] [].
Definition ex_good_text : list N := Eval vm_compute in match ser true ex_good with Ok x => x | _ => [] end.
Example C01_nonvacuous_guard : tree_ok dec_basic true ex_good && tree_upper ex_good = true.
Proof. vm_compute. reflexivity. Qed.
Example C01_nonvacuous_ser : ser true ex_good = Ok ex_good_text.
Proof. vm_compute. reflexivity. Qed.
Example C01_nonvacuous_parse : parse dec_basic [] false ex_good_text = Ok [norm true ex_good].
Proof. vm_compute. reflexivity. Qed.
