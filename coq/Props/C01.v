(* C01 -- parse, serialise, parse is stable and lossless.  Statements only (grown as proofs are added). *)
Require Import Lib.Base Gen.Gen_parser Gen.Gen_cal Model.Params Model.Contentline Model.Tree.

(* every registered component class is found under its own name *)
Theorem C01_classes_registered :
  forallb (fun c => match class_of (cc_name c) with Some c' => str_eqb (cc_name c') (cc_name c) | None => false end)
          component_classes = true.
Proof. vm_compute. reflexivity. Qed.
Print Assumptions C01_classes_registered.
