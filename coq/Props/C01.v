(* C01 -- parse, serialise, parse is stable and lossless.  Statements only.
   Trees are [comp] (Model/Tree.v): name, insertion-ordered properties (name -> one value or a
   list), subcomponents, error list; a typed value is (class name, parameters, wire text).
   [parse dec cache multiple text] is Component.from_ical over a value decoder [dec] (the codecs:
   C03/C07/C19) and the recorded time-zone cache outcomes; [ser sorted t] is Component.to_ical.
   [tree_ok dec sorted t] is the boolean guard: names are upper-case tokens, property names
   pairwise different, and for every value: its content line splits back into the same name and
   parameters (the C05 guards), it has the class its property name selects, and the decoder maps
   what Contentline.parts makes of its wire text back to a value with the same wire text.  [norm sorted t] = properties in emission order, canonical parameters, one-element
   lists as single values, no error list.  [tree_upper]: parameter names stored upper-case. *)
Require Import Lib.Base Lib.Chain Gen.Gen_parser Gen.Gen_cal Model.Text Model.Params Model.Fold Model.Contentline Model.Tree Model.Rewrite Model.RfcLine.
Require Import Proofs.LinesProofs Proofs.TreeProofs Proofs.RfcLineProofs Proofs.RfcExactProofs.

(* parsing the serialisation of ANY tree inside the guard, for ANY decoder, gives its normal form *)
Theorem C01_reparse : forall dec sorted multiple t text, tree_ok dec sorted t = true ->
  ser sorted t = Ok text -> parse dec [] multiple text = Ok [norm sorted t].
Proof. exact reparse. Qed.
Print Assumptions C01_reparse.

(* the normal form serialises to the same text (hence the same octets) *)
Theorem C01_ser_norm : forall dec sorted t, tree_ok dec sorted t = true -> tree_upper t = true ->
  ser sorted (norm sorted t) = ser sorted t.
Proof. exact ser_norm. Qed.
Print Assumptions C01_ser_norm.

(* stability: parse(serialise(t)) is the normal form of t and serialises to identical bytes *)
Theorem C01_stable : forall dec sorted multiple t text, tree_ok dec sorted t = true -> tree_upper t = true ->
  ser sorted t = Ok text ->
  exists t', parse dec [] multiple text = Ok [t'] /\ t' = norm sorted t /\ ser sorted t' = Ok text.
Proof. exact stable. Qed.
Print Assumptions C01_stable.

(* Contentlines.from_ical inverts Contentlines.to_ical (folding, CRLF joining) on every list of lines
   without LF that begin with a name character -- every line of every serialised component (C06) *)
Theorem C01_lines_roundtrip : forall ls, forallb good_line ls = true ->
  contentlines_from_ical (contentlines_to_ical ls) = ls.
Proof. exact lines_roundtrip. Qed.
Print Assumptions C01_lines_roundtrip.

(* sorting the emission order twice changes nothing (serialisation order is a function of the key set) *)
Theorem C01_canonsort_idem : forall keys canon,
  canonsort_keys (canonsort_keys keys canon) canon = canonsort_keys keys canon.
Proof. exact canonsort_idem. Qed.
Print Assumptions C01_canonsort_idem.

(* every registered component class is found under its own name (generated table) *)
Theorem C01_classes_registered :
  forallb (fun c => match class_of (cc_name c) with Some c' => str_eqb (cc_name c') (cc_name c) | None => false end)
          component_classes = true.
Proof. vm_compute. reflexivity. Qed.

(* outside the guard (value text with an escaped comma after an escaped backslash): the second
   serialisation differs from the first -- known finding C01-F1 *)
Definition ex_bad : comp :=
  Comp (s2l "VEVENT") [(s2l "URL", One {| v_class := s2l "vUri"; v_params := []; v_text := [97; 92; 92; 92; 44; 98] |})] [] [].
Definition ex_bad_text : list N := Eval vm_compute in match ser true ex_bad with Ok x => x | _ => [] end.
Definition ex_bad_t2 : comp := Eval vm_compute in match parse dec_basic [] false ex_bad_text with Ok [c] => c | _ => ex_bad end.
Theorem C01_refuted :
  ser true ex_bad = Ok ex_bad_text /\ parse dec_basic [] false ex_bad_text = Ok [ex_bad_t2] /\ ser true ex_bad_t2 <> Ok ex_bad_text.
Proof. split; [vm_compute; reflexivity|]. split; [vm_compute; reflexivity|]. vm_compute. discriminate. Qed.

(* non-vacuity: a nested tree with TEXT (escaped comma, semicolon, newline), URI, multi-valued and
   parameterised properties is inside the guards, and the theorem's conclusion is observed on it *)
Definition ex_txt (s : list N) : value := {| v_class := s2l "vText"; v_params := []; v_text := s |}.
Definition ex_good : comp :=
  Comp (s2l "VCALENDAR")
    [(s2l "PRODID", One (ex_txt (s2l "-//x//EN"))); (s2l "VERSION", One (ex_txt (s2l "2.0")))]
    [Comp (s2l "VEVENT")
       [(s2l "SUMMARY", One (ex_txt (s2l "a\, b\; c\nd")));
        (s2l "ATTENDEE", Many [{| v_class := s2l "vCalAddress"; v_params := [(s2l "CN", PStr (s2l "Doe, J")); (s2l "ROLE", PStr (s2l "CHAIR"))]; v_text := s2l "mailto:j@x" |};
                               {| v_class := s2l "vCalAddress"; v_params := []; v_text := s2l "mailto:k@x" |}]);
        (s2l "URL", One {| v_class := s2l "vUri"; v_params := []; v_text := s2l "http://x/?a=b;c" |})]
       [Comp (s2l "X-SUB") [(s2l "X-P", One (ex_txt (s2l "v")))] [] []] []] [].
Definition ex_good_text : list N := Eval vm_compute in match ser true ex_good with Ok x => x | _ => [] end.
Example C01_nonvacuous_guard : tree_ok dec_basic true ex_good && tree_upper ex_good = true.
Proof. vm_compute. reflexivity. Qed.
Example C01_nonvacuous_ser : ser true ex_good = Ok ex_good_text.
Proof. vm_compute. reflexivity. Qed.
Example C01_nonvacuous_parse : parse dec_basic [] false ex_good_text = Ok [norm true ex_good].
Proof. vm_compute. reflexivity. Qed.

(* ------------------------------------------------------------------ the FIRST parse against an independent reading of RFC 5545 *)
(* Model/RfcLine.v reads the content-line grammar of RFC 5545 section 3.1 as functions over the
   syntax tree [rfc_line] of a well-formed line (name, parameters each with >= 1 paramtext /
   quoted-string values, value): [rfc_line_ok] = the character classes of the grammar,
   [rfc_print] = the text the grammar generates, [rfc_denote] = (name as written, parameter names
   in upper case with the text of each value -- a quoted-string denotes its content, one value a
   string, several a list --, value text).  [parts] is Contentline.parts as written.
   [first_parse_guard l] = the printed line contains no backslash followed by , ; : or backslash
   [guard_no_escape], none of the texts %2C %3A %3B %5C [guard_no_placeholder], and no parameter
   name twice [guard_names_distinct].  For ALL syntax trees: *)
Theorem C01_first_parse_rfc : forall l, rfc_line_ok l = true -> first_parse_guard l = true ->
  parts (rfc_print l) = Ok (rfc_denote l).
Proof. exact first_parse_rfc. Qed.
Print Assumptions C01_first_parse_rfc.

(* the guard is EXACT -- for every well-formed syntax tree parts() returns the denotation if and ONLY if
   the guard holds: no weaker side condition exists *)
Theorem C01_first_parse_exact : forall l, rfc_line_ok l = true ->
  (parts (rfc_print l) = Ok (rfc_denote l) <-> first_parse_guard l = true).
Proof. exact first_parse_exact. Qed.
Print Assumptions C01_first_parse_exact.

(* the three necessity arguments, each at its own strength.  (1) on EVERY syntax tree, well-formed or
   not, an escape pattern in the printed text makes parts() miss the denotation (every replacement of
   escape_string loses a backslash or a 5 for good); (3) on EVERY line whatsoever the parameters
   parts() returns have pairwise different names; (2) without escape patterns parts() returns the
   denotation with every parameter value and the value un-escaped once more *)
Theorem C01_first_parse_escape_needed : forall l, guard_no_escape l = false -> parts (rfc_print l) <> Ok (rfc_denote l).
Proof. exact escape_clause_needed. Qed.
Print Assumptions C01_first_parse_escape_needed.
Theorem C01_parts_names_distinct : forall line n D v, parts line = Ok (n, D, v) -> nodup_strs (map fst D) = true.
Proof. exact parts_names_distinct. Qed.
Print Assumptions C01_parts_names_distinct.
Theorem C01_first_parse_form : forall l, rfc_line_ok l = true -> guard_no_escape l = true -> guard_names_distinct l = true ->
  parts (rfc_print l) = Ok (rl_name l, unescape_params (denote_params (rl_params l)), unescape_string (rl_value l)).
Proof. exact first_parse_form. Qed.
Print Assumptions C01_first_parse_form.

(* the line loop of Component.from_ical sees exactly the denoted (name, parameters, value) triples:
   [run_parts] / [parse_parts] (Model/RfcLine.v) are [run_lines] / [parse] fed with split lines *)
Theorem C01_first_parse_lines : forall dec ls s, forallb line_in_guard ls = true ->
  run_lines dec s (map rfc_print ls) = run_parts dec s (denoted ls).
Proof. exact run_lines_rfc. Qed.
Print Assumptions C01_first_parse_lines.

(* ... from the text Contentlines.to_ical makes of them, and from EVERY other physical layout of
   the same lines (fold placement, CRLF or LF, SPACE or TAB, trailing blank lines; C09) *)
Theorem C01_first_parse_text : forall dec cache multiple ls, forallb line_in_guard ls = true ->
  parse dec cache multiple (contentlines_to_ical (map rfc_print ls)) = parse_parts dec cache multiple (denoted ls).
Proof. exact parse_rfc_text. Qed.
Print Assumptions C01_first_parse_text.

Theorem C01_first_parse_layout : forall dec cache multiple nl ws segs k ls,
  is_nl nl = true -> is_ws ws = true -> forallb segs_ok segs = true -> map (@concat N) segs = map rfc_print ls ->
  forallb line_in_guard ls = true ->
  parse dec cache multiple (phys_text nl ws segs ++ blank_lines nl k) = parse_parts dec cache multiple (denoted ls).
Proof. exact parse_rfc_layout. Qed.
Print Assumptions C01_first_parse_layout.

(* what the guard excludes -- every clause is needed; each witness is well-formed, violates exactly
   one clause ([guard_bits] = the three clauses) and parts() returns something else than the text
   denotes.  Known finding C01-F3 (clauses 1 and 2; same root as C05-F1/F2, C08-F1) and C01-F4 (3). *)
Theorem C01_first_parse_value_escape_refuted :
  rfc_line_ok w_value_comma = true /\ guard_bits w_value_comma = (false, true, true) /\
  rfc_print w_value_comma = s2l "N:a\,b" /\
  parts (rfc_print w_value_comma) = Ok (s2l "N", [], s2l "a,b") /\
  rfc_denote w_value_comma = (s2l "N", [], s2l "a\,b").
Proof. exact value_escape_refuted. Qed.
Theorem C01_first_parse_value_backslash_refuted :
  rfc_line_ok w_value_bsbs = true /\ guard_bits w_value_bsbs = (false, true, true) /\
  parts (rfc_print w_value_bsbs) = Ok (s2l "N", [], s2l "a\nb") /\
  rfc_denote w_value_bsbs = (s2l "N", [], s2l "a\\nb").
Proof. exact value_backslash_refuted. Qed.
Theorem C01_first_parse_param_escape_refuted :
  rfc_line_ok w_param_comma = true /\ guard_bits w_param_comma = (false, true, true) /\
  rfc_print w_param_comma = s2l "N;P=a\,b:v" /\
  parts (rfc_print w_param_comma) = Ok (s2l "N", [(s2l "P", PStr (s2l "a,b"))], s2l "v") /\
  rfc_denote w_param_comma = (s2l "N", [(s2l "P", PList [s2l "a\"; s2l "b"])], s2l "v").
Proof. exact param_escape_refuted. Qed.
Theorem C01_first_parse_quoted_escape_refuted :
  rfc_line_ok w_quoted_semi = true /\ guard_bits w_quoted_semi = (false, true, true) /\
  parts (rfc_print w_quoted_semi) = Ok (s2l "N", [(s2l "P", PStr (s2l "a;b"))], s2l "v") /\
  rfc_denote w_quoted_semi = (s2l "N", [(s2l "P", PStr (s2l "a\;b"))], s2l "v").
Proof. exact quoted_escape_refuted. Qed.
Theorem C01_first_parse_straddle_semi_refuted :
  rfc_line_ok w_straddle_semi = true /\ guard_bits w_straddle_semi = (false, true, true) /\
  rfc_print w_straddle_semi = s2l "N;P=a\;Q=b:v" /\
  parts (rfc_print w_straddle_semi) = Ok (s2l "N", [(s2l "P", PStr (s2l "a;Q=b"))], s2l "v") /\
  rfc_denote w_straddle_semi = (s2l "N", [(s2l "P", PStr (s2l "a\")); (s2l "Q", PStr (s2l "b"))], s2l "v").
Proof. exact straddle_semi_refuted. Qed.
Theorem C01_first_parse_straddle_colon_refuted :
  rfc_line_ok w_straddle_colon = true /\ guard_bits w_straddle_colon = (false, true, true) /\
  rfc_print w_straddle_colon = s2l "N;P=a\:v" /\
  parts (rfc_print w_straddle_colon) = Ok (s2l "N", [(s2l "P", PStr (s2l "a:v"))], []) /\
  rfc_denote w_straddle_colon = (s2l "N", [(s2l "P", PStr (s2l "a\"))], s2l "v").
Proof. exact straddle_colon_refuted. Qed.
Theorem C01_first_parse_value_placeholder_refuted :
  rfc_line_ok w_value_pct = true /\ guard_bits w_value_pct = (true, false, true) /\
  parts (rfc_print w_value_pct) = Ok (s2l "N", [], s2l "100,x") /\
  rfc_denote w_value_pct = (s2l "N", [], s2l "100%2Cx").
Proof. exact value_placeholder_refuted. Qed.
Theorem C01_first_parse_param_placeholder_refuted :
  rfc_line_ok w_param_pct = true /\ guard_bits w_param_pct = (true, false, true) /\
  parts (rfc_print w_param_pct) = Ok (s2l "N", [(s2l "P", PList [s2l "a:b"; s2l "\"])], s2l "v") /\
  rfc_denote w_param_pct = (s2l "N", [(s2l "P", PList [s2l "a%3Ab"; s2l "%5C"])], s2l "v").
Proof. exact param_placeholder_refuted. Qed.
Theorem C01_first_parse_duplicate_name_refuted :
  rfc_line_ok w_dup = true /\ guard_bits w_dup = (true, true, false) /\
  rfc_print w_dup = s2l "N;P=a;p=b:v" /\
  parts (rfc_print w_dup) = Ok (s2l "N", [(s2l "P", PStr (s2l "b"))], s2l "v") /\
  rfc_denote w_dup = (s2l "N", [(s2l "P", PStr (s2l "a")); (s2l "P", PStr (s2l "b"))], s2l "v").
Proof. exact duplicate_name_refuted. Qed.

(* NOT excluded: backslash before n / N or DQUOTE, a lone percent sign, lower-case %2c, DQUOTEs and
   delimiters in the value -- these are inside the guard and hence read exactly *)
Example C01_first_parse_backslash_n_inside : rfc_line_ok w_inside = true /\ first_parse_guard w_inside = true /\
  rfc_print w_inside = s2l "N;P=""a\"",\n%2c%:x\ny\N""q:r"";%2%3a\".
Proof. vm_compute. repeat split; reflexivity. Qed.

(* the same observed by computation on a bounded domain (4 642 syntax trees: every value of length <= 3 over
   a \ % 2 C , ; : ; one parameter with <= 2 plain/quoted values over \ % 2 C , ; two parameters named
   p P Q with values over \ a ;): parts() returns the denotation if and only if the guard holds -- an executable cross-check of
   C01_first_parse_exact and of the decision procedure [first_parse_agrees] the dispatcher exposes *)
Theorem C01_first_parse_guard_exact_small :
  guard_exact_on small_a && guard_exact_on small_b && guard_exact_on small_c = true /\
  (length small_a, length small_b, length small_c) = (585, 3028, 1029)%nat.
Proof. exact guard_exact_small. Qed.
Theorem C01_first_parse_agrees_spec : forall l, first_parse_agrees l = true <-> parts (rfc_print l) = Ok (rfc_denote l).
Proof. intros l. apply parts_is_spec. Qed.

(* non-vacuity: three parameters (plain; quoted with ; : ,; multi-valued mixing plain, quoted and
   empty), mixed-case names, value with : ; , = DQUOTE, backslash-n, percent and non-ASCII text *)
Definition ex_rfc : rfc_line :=
  {| rl_name := s2l "Attendee";
     rl_params := [(s2l "CN", [Plain (s2l "Jane Doe")]);
                   (s2l "x-note", [Quoted (s2l "a;b:c,d=e")]);
                   (s2l "MEMBER", [Quoted (s2l "mailto:a@x"); Plain (s2l "pl\ain"); Quoted []; Plain []])];
     rl_value := s2l "mailto:j@x;y=1,z\n""q"" 100% " ++ [233; 8364] |}.
Definition ex_rfc_text : list N := Eval vm_compute in rfc_print ex_rfc.
Definition ex_rfc_den : list N * params * list N := Eval vm_compute in rfc_denote ex_rfc.
Example C01_first_parse_nonvacuous_text :
  ex_rfc_text = s2l "Attendee;CN=Jane Doe;x-note=""a;b:c,d=e"";MEMBER=""mailto:a@x"",pl\ain,"""",:mailto:j@x;y=1,z\n""q"" 100% " ++ [233; 8364].
Proof. reflexivity. Qed.
Example C01_first_parse_nonvacuous_den :
  ex_rfc_den = (s2l "Attendee",
                [(s2l "CN", PStr (s2l "Jane Doe")); (s2l "X-NOTE", PStr (s2l "a;b:c,d=e"));
                 (s2l "MEMBER", PList [s2l "mailto:a@x"; s2l "pl\ain"; []; []])],
                s2l "mailto:j@x;y=1,z\n""q"" 100% " ++ [233; 8364]).
Proof. reflexivity. Qed.
Example C01_first_parse_nonvacuous_guard : rfc_line_ok ex_rfc && first_parse_guard ex_rfc = true.
Proof. vm_compute. reflexivity. Qed.
Example C01_first_parse_nonvacuous_parts : parts ex_rfc_text = Ok ex_rfc_den.
Proof. vm_compute. reflexivity. Qed.
