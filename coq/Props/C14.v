(* C14 -- Alarm times = anchor + TRIGGER + k * DURATION, k = 0..REPEAT (RFC 5545 / 9074).
   Statements only.  Models: Model/Alarm.v (alarms.py, Alarm properties) over Model/StartEnd.v
   (the component's start and end, C16).
     [component_triggers o p als]  what the library computes: the triggers of
                                   Alarms(component).times for the parent component p (kind,
                                   the three entries, acknowledgement fields) holding the
                                   VALARMs als, in the library's order.
     [spec_times o start end als]  the property transcribed: per alarm without TRIGGER
                                   nothing; relative TRIGGER: anchor (+) TRIGGER where the
                                   anchor is the component's end when RELATED=END and its
                                   start otherwise, followed by REPEAT further times
                                   first (+) k*DURATION when both are present; absolute
                                   TRIGGER: that date-time and its repeats, whatever the
                                   component's times are.  (+) is [alarm_add]: a date plus
                                   whole days stays a date, otherwise midnight + wall-clock
                                   arithmetic (+ pytz normalisation).  start/end are the C16
                                   getters (values or their documented errors) and are
                                   consulted only by the alarms that need them.
   Every statement holds for every zone oracle, component state and alarm list. *)
Require Import Lib.Base Model.Params Gen.Gen_sched Model.StartEnd Model.Alarm Proofs.StartEndProofs Proofs.AlarmProofs.
From Coq Require Import ZArith.
Local Open Scope Z_scope.

Theorem C14_alarm_times_spec : forall o p als,
  dur_typed (p_comp p) = true ->          (* C16-F2 excluded *)
  alarms_ok als = true ->                 (* C14-F1, C14-F2 excluded *)
  eager_ok o p als = true ->              (* C14-F3 excluded *)
  match spec_times o (get_start (p_kind p) (p_comp p)) (get_end (p_kind p) (p_comp p)) als with
  | SOk ts => component_triggers o p als = SOk ts
  | _ => exists t, component_triggers o p als = SVal t /\ documented t = true
  end.
Proof. exact alarm_times_spec. Qed.
Print Assumptions C14_alarm_times_spec.

(* the order-free reading of the specification: a time is reported iff it belongs to the
   specification of one of the alarms *)
Theorem C14_spec_members : forall o s e als ts x,
  spec_times o s e als = SOk ts ->
  (In x ts <-> exists a xs, In a als /\ spec_alarm o s e a = SOk xs /\ In x xs).
Proof. exact spec_times_members. Qed.
Print Assumptions C14_spec_members.

(* the truthiness test of Alarms._repeat agrees with "both present" except for DURATION 0 *)
Theorem C14_repeat_times : forall o first a, repeat_ok a = true ->
  repeat_times o first a = first :: spec_repeats o first a.
Proof. exact repeat_times_spec. Qed.
Print Assumptions C14_repeat_times.

(* Alarm.triggers (cal.py) for a relative trigger: TRIGGER + k * DURATION, k = 0..REPEAT *)
Theorem C14_alarm_triggers : forall a td, a_trigger a = One (VDelta td) ->
  exists l, (alarm_triggers a = SOk (TrigStart l) \/ alarm_triggers a = SOk (TrigEnd l)) /\
  l = map (fun i => td + match a_duration a with Some d => d | None => 0 end * Z.of_nat i)
          (seq 0 (S (match a_duration a with Some _ => Z.to_nat (get_REPEAT a) | None => O end))).
Proof. exact alarm_triggers_spec. Qed.
Print Assumptions C14_alarm_triggers.

(* outside the guards the property fails -- the known findings *)
(* C14-F1: RELATED=start in lower case is treated as END: event 10:00-12:00, trigger -1h,
   the library reports 11:00 where the property says 09:00 *)
Theorem C14_related_lower_refuted : exists o p als,
  dur_typed (p_comp p) = true /\ eager_ok o p als = true /\ forallb repeat_ok als = true /\
  component_triggers o p als = SOk [Naive 39600] /\
  spec_times o (get_start (p_kind p) (p_comp p)) (get_end (p_kind p) (p_comp p)) als = SOk [Naive 32400].
Proof. exact related_lower_refuted. Qed.
Print Assumptions C14_related_lower_refuted.

(* C14-F2: REPEAT 2 with DURATION 0: one time instead of three *)
Theorem C14_zero_duration_refuted : exists o p als,
  dur_typed (p_comp p) = true /\ eager_ok o p als = true /\ forallb related_ok als = true /\
  component_triggers o p als = SOk [Naive 32400] /\
  spec_times o (get_start (p_kind p) (p_comp p)) (get_end (p_kind p) (p_comp p)) als
    = SOk [Naive 32400; Naive 32400; Naive 32400].
Proof. exact zero_duration_refuted. Qed.
Print Assumptions C14_zero_duration_refuted.

(* C14-F3: an absolute alarm on a component without DTSTART: IncompleteComponent although
   the time does not depend on the start *)
Theorem C14_eager_start_refuted : exists o p als,
  dur_typed (p_comp p) = true /\ alarms_ok als = true /\
  component_triggers o p als = SVal IncompleteComp /\
  spec_times o (get_start (p_kind p) (p_comp p)) (get_end (p_kind p) (p_comp p)) als = SOk [Utc 36000].
Proof. exact eager_start_refuted. Qed.
Print Assumptions C14_eager_start_refuted.

(* non-vacuity: an all-day event with DURATION 2 days holding an END-related alarm with
   repeats that leave the date domain, a START-related whole-day alarm, an alarm without
   TRIGGER and an absolute alarm with a repeat is inside all guards *)
Example C14_nonvacuous :
  let c := {| c_start := One (VTime (Date 10)); c_end := Absent; c_dur := One (VDelta 172800) |} in
  let p := {| p_kind := KTodo; p_comp := c; p_dtstamp := Some 5; p_moz := false; p_lastack := None; p_snooze := None |} in
  let mk tr rel rep dur := {| a_trigger := tr; a_related := rel; a_repeat := rep; a_duration := dur; a_ack := None |} in
  let als := [mk (One (VTime (Utc 7200))) None (Some 1) (Some 600);
              mk (One (VDelta (-86400))) (Some (s2l "START")) None None;
              mk Absent None (Some 3) (Some 60);
              mk (One (VDelta (-86400))) (Some (s2l "End")) (Some 2) (Some 43200)] in
  dur_typed c = true /\ alarms_ok als = true /\ eager_ok const_oracle p als = true /\
  component_triggers const_oracle p als =
    SOk [Date 11; Naive (11 * 86400 + 43200); Date 12; Date 9; Utc 7200; Utc 7800].
Proof. vm_compute. repeat split; reflexivity. Qed.
Print Assumptions C14_nonvacuous.
