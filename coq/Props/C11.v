(* C11 -- zoned date-times keep wall time, zone id and offset; UTC properties keep the instant.
   Statements only.  A tzinfo object is abstract ([tzids] = tzids_from_tzinfo); the provider is a
   record of ORACLES (TZP.timezone, provider.localize, its UTC zone): every theorem quantifies over
   them, and the two hypotheses "timezone(key z) finds the zone" and "localize keeps the wall clock"
   are what zoneinfo/pytz must satisfy -- checked by correspondence only (PARTIAL).
   A written value is (wall clock, Z suffix, TZID parameter); the YYYYMMDDTHHMMSS text is C03's. *)
Require Import Lib.Base Model.TzRules Model.TzId Gen.Gen_tz Proofs.TzIdProofs.
From Coq Require Import String.
Open Scope Z_scope.

(* zoned_rt: for every provider, every zone object z with the single id k (not "UTC", not empty)
   that TZP.timezone resolves to z0, every wall time w and offset o: the value is written as w's
   fields with TZID=k and no Z, and reads back as provider.localize(w, z0) -- i.e. with the offset
   the provider assigns to that wall time.  (Its wall clock is w and its zone is keyed k exactly
   when the provider satisfies the two oracle hypotheses; see the harness.) *)
Theorem C11_zoned_rt : forall (tz : Type) tzids tzname (P : provider tz) z z0 k w o,
  keyed tz tzids z k -> p_timezone tz P k = Some z0 ->
  vdatetime_to_ical tz tzids tzname (mkDt tz w (Some (z, o))) = mkWire w false (Some k) /\
  vdatetime_from_ical tz P (vdatetime_to_ical tz tzids tzname (mkDt tz w (Some (z, o)))) = p_localize tz P z0 w.
Proof. intros. apply zoned_rt; auto. Qed.
Print Assumptions C11_zoned_rt.

(* utc_form: a tzinfo whose ids contain "UTC" is written with Z and without TZID, and read back in
   the provider's UTC zone with the same fields *)
Theorem C11_utc_form : forall (tz : Type) tzids tzname (P : provider tz) z w o,
  mem_str UTCs (tzids z) = true ->
  vdatetime_to_ical tz tzids tzname (mkDt tz w (Some (z, o))) = mkWire w true None /\
  vdatetime_from_ical tz P (mkWire w true None) = mkDt tz w (Some (p_utc tz P)).
Proof. intros. apply utc_form; auto. Qed.
Print Assumptions C11_utc_form.

(* utc_props: for the names Component.add forces to UTC (generated from the source: dtstamp,
   created, last-modified) a zoned value with offset o is written as the instant w - o with Z *)
Theorem C11_utc_props : forall (tz : Type) tzids tzname (P : provider tz) lname z w o,
  mem_str lname utc_forced_names = true -> mem_str UTCs (tzids (fst (p_utc tz P))) = true ->
  vdatetime_to_ical tz tzids tzname (add_value tz P lname (mkDt tz w (Some (z, o)))) = mkWire (w - o) true None.
Proof. intros. apply utc_props; auto. Qed.
Print Assumptions C11_utc_props.

Theorem C11_utc_forced_names : utc_forced_names = [s2l "dtstamp"; s2l "created"; s2l "last-modified"].
Proof. reflexivity. Qed.
Print Assumptions C11_utc_forced_names.

(* list_rt / period_rt on the guard "all entries carry the same zone object" *)
Theorem C11_list_rt : forall (tz : Type) tzids tzname (P : provider tz) z z0 k ws,
  keyed tz tzids z k -> p_timezone tz P k = Some z0 -> ws <> [] ->
  let l := map (fun wo : Z * Z => mkDt tz (fst wo) (Some (z, snd wo))) ws in
  fst (list_to_ical tz tzids tzname l) = Some k /\
  list_from_ical tz P (list_to_ical tz tzids tzname l) = map (fun wo => p_localize tz P z0 (fst wo)) ws.
Proof. intros. apply list_rt; auto. Qed.
Print Assumptions C11_list_rt.

Theorem C11_period_rt : forall (tz : Type) tzids tzname (P : provider tz) z z0 k w1 o1 w2 o2,
  keyed tz tzids z k -> p_timezone tz P k = Some z0 ->
  let p := period_to_ical tz tzids tzname (mkDt tz w1 (Some (z, o1))) (mkDt tz w2 (Some (z, o2))) in
  fst p = Some k /\ period_from_ical tz P p = (p_localize tz P z0 w1, p_localize tz P z0 w2).
Proof. intros. apply period_rt; auto. Qed.
Print Assumptions C11_period_rt.

(* non-vacuity on a concrete three-zone provider *)
Example C11_nonvacuous :
  keyed Z x_tzids 1 xBerlin /\ p_timezone Z xP xBerlin = Some 1 /\
  vdatetime_to_ical Z x_tzids x_tzname (xdt 1591012800 1) = mkWire 1591012800 false (Some xBerlin) /\
  vdatetime_from_ical Z xP (mkWire 1591012800 false (Some xBerlin)) = xdt 1591012800 1.
Proof. exact x_good. Qed.
Print Assumptions C11_nonvacuous.

(* refutations (known findings) ----------------------------------------------------------- *)
(* C11-F1: entries of different zones in one list all come back in the LAST zone (a UTC entry too) *)
Theorem C11_list_refuted_mixed :
  let l := [xdt 1000 1; xdt 2000 2; xdt 3000 0] in
  list_to_ical Z x_tzids x_tzname l =
    (Some xNY, [mkWire 1000 false None; mkWire 2000 false None; mkWire 3000 true None]) /\
  list_from_ical Z xP (list_to_ical Z x_tzids x_tzname l) = [xdt 1000 2; xdt 2000 2; xdt 3000 2].
Proof. exact x_mixed_list. Qed.
Print Assumptions C11_list_refuted_mixed.

(* C11-F2: a UTC period is written with TZID=UTC together with the Z form *)
Theorem C11_period_refuted_utc :
  period_to_ical Z x_tzids x_tzname (xdt 1000 0) (xdt 2000 0) =
  (Some UTCs, (mkWire 1000 true None, mkWire 2000 true None)).
Proof. exact x_utc_period. Qed.
Print Assumptions C11_period_refuted_utc.

(* C11-F3: add('ACKNOWLEDGED', zoned) is not converted to UTC (DTSTAMP is) *)
Theorem C11_utc_props_refuted_acknowledged :
  mem_str (s2l "acknowledged") utc_forced_names = false /\
  vdatetime_to_ical Z x_tzids x_tzname (add_value Z xP (s2l "acknowledged") (xdt 1000 1)) =
  mkWire 1000 false (Some xBerlin) /\
  vdatetime_to_ical Z x_tzids x_tzname (add_value Z xP (s2l "dtstamp") (xdt 10000 1)) = mkWire 2800 true None.
Proof. exact x_acknowledged. Qed.
Print Assumptions C11_utc_props_refuted_acknowledged.
