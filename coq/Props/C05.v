(* C05 -- content-line join/split are inverse; values cannot inject structure.  Statements only.
   [from_parts name ps sorted v] renders NAME;params:value-text (Escape AssertionError when the
   line would contain LF: Contentline.__new__), [parts] is Contentline.parts as written.
   [line_value_path v] = unescape_string (escape_string v) is what parts() does to value text.
   Guards (Model/Contentline.v): [head_safe] -- the rendered name+parameter section including
   the colon contains none of the patterns parts() replaces (backslash before , : ; backslash);
   [params_unesc_safe] -- no parameter value contains placeholder text %2C %3A %3B %5C;
   [value_safe] -- the value text contains none of the eight.  Outside them the property fails:
   C05_injection_refuted / C05_value_refuted are the known findings C05-F1 / C05-F2. *)
Require Import Lib.Base Lib.Chain Gen.Gen_parser Model.Text Model.Params Model.Fold Model.Contentline.
Require Import Proofs.ParamsProofs Proofs.ContentlineProofs.

(* splitting a joined line gives back name, parameters and value text *)
Theorem C05_join_split : forall name ps sorted v line,
  is_token name = true -> wf_params ps = true ->
  head_safe name ps sorted = true -> params_unesc_safe ps = true -> value_safe v = true ->
  from_parts name ps sorted v = Ok line ->
  parts line = Ok (name, canon_params (order_params sorted ps), v).
Proof. exact join_split. Qed.
Print Assumptions C05_join_split.

(* WHATEVER the value text contains (no hypothesis on v): the line is refused, or it splits into
   exactly the intended name and parameters and no line break was emitted *)
Theorem C05_no_injection : forall name ps sorted v,
  is_token name = true -> wf_params ps = true ->
  head_safe name ps sorted = true -> params_unesc_safe ps = true ->
  from_parts name ps sorted v = Escape (s2l "AssertionError") \/
  exists line, from_parts name ps sorted v = Ok line /\ no_chr 10 line = true /\
    parts line = Ok (name, canon_params (order_params sorted ps), line_value_path v).
Proof. exact no_injection. Qed.
Print Assumptions C05_no_injection.

(* the guards hold whenever no parameter value contains a backslash or a percent sign *)
Theorem C05_no_injection_plain : forall name ps sorted v,
  is_token name = true -> wf_params ps = true -> params_plain ps = true ->
  from_parts name ps sorted v = Escape (s2l "AssertionError") \/
  exists line, from_parts name ps sorted v = Ok line /\ no_chr 10 line = true /\
    parts line = Ok (name, canon_params (order_params sorted ps), line_value_path v).
Proof. exact no_injection_plain. Qed.
Print Assumptions C05_no_injection_plain.

(* obligations on the generated replace chains used by the proofs *)
Theorem C05_chain_facts :
  pats_nonempty escape_string_chain = true /\ pats_nonempty unescape_string_chain = true /\
  forallb (fun st : stage => negb (mem_chr 58 (removelast (fst st)))) escape_string_chain = true /\
  forallb (fun f : list N => match f with a :: _ => a =? 92 | [] => false end) forb_esc = true /\
  forallb (fun f : list N => match f with a :: _ => a =? 37 | [] => false end) forb_unesc = true.
Proof. exact (conj esc_chain_nonempty (conj unesc_chain_nonempty (conj esc_chain_colon (conj esc_chain_first unesc_chain_first)))). Qed.

(* known findings: an extra parameter Q is read back; value text is altered *)
Theorem C05_injection_refuted : exists name ps v line,
  is_token name = true /\ wf_params ps = true /\ from_parts name ps true v = Ok line /\
  parts line = Ok (name, [(s2l "A", PStr (s2l "x:p")); (s2l "Q", PStr (s2l "r"))], s2l "z").
Proof. exact injection_refuted. Qed.
Theorem C05_value_refuted : exists name v line, is_token name = true /\ from_parts name [] true v = Ok line /\
  parts line = Ok (name, [], s2l "a,b") /\ v <> s2l "a,b".
Proof. exact value_refuted. Qed.

(* non-vacuity: delimiters, quotes, BEGIN:/END: text and CR in the value; quoted parameters *)
Example C05_nonvacuous :
  let ps := [(s2l "CN", PStr (s2l "a;b:c")); (s2l "x", PList [s2l "p,q"; s2l "r"])] in
  let v := s2l "BEGIN:VEVENT" ++ [13] ++ s2l ";X=1:""q"",\n" in
  wf_params ps = true /\ head_safe (s2l "ATTENDEE") ps true = true /\ params_unesc_safe ps = true /\
  value_safe v = true /\
  exists line, from_parts (s2l "ATTENDEE") ps true v = Ok line /\
               parts line = Ok (s2l "ATTENDEE", canon_params (order_params true ps), v).
Proof. vm_compute. repeat split; try reflexivity. eexists. split; reflexivity. Qed.
