(* C05 -- content-line join/split.  Statements only (grown as proofs are added). *)
Require Import Lib.Base Gen.Gen_parser Model.Params Model.Contentline.
