(* C03 -- placeholder while the models are validated *)
Require Import Lib.Base Model.CodecBase Model.CodecDate Model.CodecDur Model.CodecMisc.
