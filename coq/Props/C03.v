(* C03 -- Every typed value codec is its own inverse and emits the RFC 5545 value grammar.
   Only statements: each is closed by [exact] of a lemma from Proofs/ and followed by Print
   Assumptions.  enc_T / dec_T are the models of vT(x).to_ical() / vT.from_ical(text) (Model/Codec*.v,
   tied to icalendar/prop.py by the correspondence run); T_value is the RFC 5545 reading of a text
   (Some v iff the text is in the grammar of T, v = the value the RFC assigns), written from the ABNF.
   "T_value t = Some v" in a conclusion therefore says both "t is in the grammar" and "t denotes v".
   Values: dates (y, m, d); times (h, m, s, utc?); durations and offsets in whole seconds (Z).
   vFloat / vGeo are not modelled (implementation-level oracle only, see tools/harness/c03.py). *)
Require Import Lib.Base Model.Params Model.CodecBase Model.CodecDate Model.CodecDur Model.CodecMisc Gen.Gen_prop.
Require Import Proofs.CodecBaseProofs Proofs.CodecDateProofs Proofs.CodecDurProofs Proofs.CodecMiscProofs
        Proofs.CodecDddProofs Proofs.CodecB64Proofs Proofs.CodecGrammarProofs.
From Coq Require Import ZArith List Bool.
Local Open Scope Z_scope.

(* ============================== round trips, over every value of each domain ============================== *)

(* DATE: every proleptic Gregorian date 0001-01-01 .. 9999-12-31 *)
Theorem C03_date_rt : forall y m d, valid_date y m d = true ->
  exists t, enc_date y m d = Ok t /\ dec_date t = Ok (y, m, d) /\ date_value t = Some (y, m, d).
Proof. exact date_rt. Qed.
Print Assumptions C03_date_rt.

(* TIME: every second of the day, naive (for UTC times see C03_time_utc_refuted) *)
Theorem C03_time_rt : forall h m s, valid_time h m s = true ->
  exists t, enc_time h m s false = Ok t /\ dec_time t = Ok (h, m, s, false)
            /\ time_value t = Some (h, m, s, false).
Proof. exact time_rt. Qed.
Print Assumptions C03_time_rt.

(* DATE-TIME: every date x every second of the day, naive and UTC *)
Theorem C03_datetime_rt : forall y m d h mi s utc, valid_date y m d = true -> valid_time h mi s = true ->
  exists t, enc_datetime (y, m, d, h, mi, s, utc) = Ok t /\ dec_datetime t = Ok (y, m, d, h, mi, s, utc)
            /\ datetime_value t = Some (y, m, d, h, mi, s, utc).
Proof. exact datetime_rt. Qed.
Print Assumptions C03_datetime_rt.

(* DURATION: every timedelta of whole seconds (-999999999 days .. 999999999 days 23:59:59) *)
Theorem C03_dur_rt : forall s, td_ok s = true ->
  exists t, enc_dur s = Ok t /\ dec_dur t = Ok s /\ dur_value t = Some s.
Proof. exact dur_rt. Qed.
Print Assumptions C03_dur_rt.

(* UTC-OFFSET: every offset of whole seconds with |offset| < 24 h; offset_value rejects "-0000" and
   "-000000", so the third conjunct also says that these are never written *)
Theorem C03_offset_rt : forall s, -86400 < s < 86400 ->
  exists t, enc_offset s = Ok t /\ dec_offset t = Ok s /\ offset_value t = Some s.
Proof. exact offset_rt. Qed.
Print Assumptions C03_offset_rt.

(* INTEGER: every integer CPython agrees to print (its str() refuses more than 4300 digits) ... *)
Theorem C03_int_rt : forall z t, enc_int z = Ok t -> dec_int t = Ok z /\ int_value t = Some z.
Proof. exact int_rt. Qed.
Print Assumptions C03_int_rt.

(* ... which includes every |z| < 10^4300, so all 32-bit, 64-bit and far larger integers *)
Theorem C03_int_enc_total : forall z, Z.abs z < 10 ^ 4300 -> exists t, enc_int z = Ok t.
Proof. exact int_enc_total. Qed.
Print Assumptions C03_int_enc_total.

Theorem C03_bool_rt : forall b, dec_bool (enc_bool b) = Ok b /\ bool_value (enc_bool b) = Some b.
Proof. exact bool_rt. Qed.
Print Assumptions C03_bool_rt.

(* weekdaynum: the 7 weekdays, alone or with [+/-] and a number 1..53 (finite domain, extent in the
   statement; week_days is regenerated from prop.py and equals the RFC list, C03_tables) *)
Theorem C03_weekday_rt : forall sg n wd,
  In wd rfc_weekdays -> In sg [None; Some false; Some true] ->
  match n with Some k => 1 <= k <= 53 | None => sg = None end ->
  dec_weekday (enc_weekday (wk_text sg n wd)) = Ok (wk_text sg n wd, wk_rel sg n, wd)
  /\ weekday_value (wk_text sg n wd) = Some (wk_rel sg n, wd).
Proof. exact weekday_rt. Qed.
Print Assumptions C03_weekday_rt.

Theorem C03_frequency_rt : forall f, In f rfc_freqs ->
  dec_freq (enc_freq f) = Ok f /\ freq_grammar (enc_freq f) = true.
Proof. exact frequency_rt. Qed.
Print Assumptions C03_frequency_rt.

Theorem C03_tables : map fst frequencies = rfc_freqs /\ map snd frequencies = rfc_freqs
                     /\ map fst week_days = rfc_weekdays.
Proof. exact (conj (proj1 frequencies_table) (conj (proj2 frequencies_table) week_days_table)). Qed.
Print Assumptions C03_tables.

(* month: every month number n >= 0 that can be printed, plain or leap ("5L") ... *)
Theorem C03_month_rt : forall n leap t, 0 <= n -> enc_month n leap = Ok t -> dec_month t = Ok (n, leap).
Proof. exact month_rt. Qed.
Print Assumptions C03_month_rt.

(* ... and for the RFC's 1..12 the text is monthnum ["L"] denoting it *)
Theorem C03_month_enc_grammar : forall n leap, 1 <= n <= 12 ->
  exists t, enc_month n leap = Ok t /\ month_value t = Some (n, leap).
Proof. exact month_enc_grammar. Qed.
Print Assumptions C03_month_enc_grammar.

(* PERIOD, explicit form: both ends valid datetimes of one kind (naive / UTC) with start <= end; the
   text is read back by vPeriod.from_ical and by vDDDTypes.from_ical, and is an RFC period *)
Theorem C03_period_explicit_rt : forall a b t, enc_period_explicit a b = Ok t ->
  dec_period t = Ok (DPeriod (DDatetime a) (DDatetime b))
  /\ ddd_from_ical t = Ok (DPeriod (DDatetime a) (DDatetime b))
  /\ period_value t = Some (DPeriod (DDatetime a) (DDatetime b)).
Proof. exact period_explicit_rt. Qed.
Print Assumptions C03_period_explicit_rt.

(* PERIOD, start + duration form (non-negative duration, end representable) *)
Theorem C03_period_dur_rt : forall a s t, enc_period_dur a s = Ok t ->
  dec_period t = Ok (DPeriod (DDatetime a) (DDur s))
  /\ ddd_from_ical t = Ok (DPeriod (DDatetime a) (DDur s))
  /\ period_value t = Some (DPeriod (DDatetime a) (DDur s)).
Proof. exact period_dur_rt. Qed.
Print Assumptions C03_period_dur_rt.

(* BINARY: the base64 layer over ALL octet lists ... *)
Theorem C03_base64_rt : forall l, Forall (fun x => (x < 256)%N) l ->
  a2b (b64_enc l) 0 0 0 = Ok l /\ binary_grammar (b64_enc l) = true.
Proof. exact b64_rt. Qed.
Print Assumptions C03_base64_rt.

(* ... and vBinary over all strings: what comes back is the UTF-8 octets of the text (bytes, where text
   was given), and the text written is RFC 5545 "binary" *)
Theorem C03_binary_rt : forall s t, enc_binary s = Ok t ->
  exists o, utf8_encode s = Ok o /\ dec_binary t = Ok o /\ binary_grammar t = true.
Proof. exact binary_rt. Qed.
Print Assumptions C03_binary_rt.

Theorem C03_binary_enc_total : forall s,
  forallb (fun c => (c <? 1114112)%N && negb ((55296 <=? c)%N && (c <=? 57343)%N)) s = true ->
  exists t, enc_binary s = Ok t.
Proof. exact binary_enc_total. Qed.
Print Assumptions C03_binary_enc_total.

Theorem C03_uri_rt : forall s, dec_uri (enc_uri s) = s /\ (uri_grammar s = true -> uri_grammar (enc_uri s) = true).
Proof. exact uri_rt. Qed.
Print Assumptions C03_uri_rt.

(* ============================== every grammar-valid text decodes to the RFC's value ============================== *)

Theorem C03_date_grammar_dec : forall t v, date_value t = Some v -> dec_date t = Ok v.
Proof. exact date_grammar_dec. Qed.
Print Assumptions C03_date_grammar_dec.

(* TIME, on the guard "second is not 60 and there is no UTC designator" (findings C03-F1, C03-F2) ... *)
Theorem C03_time_grammar_dec : forall t h m s utc, time_value t = Some (h, m, s, utc) ->
  negb (s =? 60) && negb utc = true -> dec_time t = Ok (h, m, s, utc).
Proof. exact time_grammar_dec. Qed.
Print Assumptions C03_time_grammar_dec.

(* ... and what happens on every grammar-valid TIME text, guard or not *)
Theorem C03_time_grammar_dec_full : forall t h m s utc, time_value t = Some (h, m, s, utc) ->
  dec_time t = if s =? 60 then ValueErr else Ok (h, m, s, false).
Proof. exact time_grammar_dec_full. Qed.
Print Assumptions C03_time_grammar_dec_full.

(* DATE-TIME, on the guard "second is not 60" (finding C03-F1) *)
Theorem C03_datetime_grammar_dec : forall t v, datetime_value t = Some v ->
  (let '(_, _, _, _, _, s, _) := v in negb (s =? 60)) = true -> dec_datetime t = Ok v.
Proof. exact datetime_grammar_dec. Qed.
Print Assumptions C03_datetime_grammar_dec.

(* DURATION, on the guard "at most 4300 characters and inside timedelta's range" (finding C03-F4;
   the length bound is CPython's int() digit limit) *)
Theorem C03_dur_grammar_dec : forall t v, dur_value t = Some v ->
  (List.length t <=? 4300)%nat && td_ok v = true -> dec_dur t = Ok v.
Proof. exact dur_grammar_dec'. Qed.
Print Assumptions C03_dur_grammar_dec.

Theorem C03_dur_grammar_dec_full : forall t v, dur_value t = Some v -> (List.length t <= 4300)%nat ->
  dec_dur t = if (td_max <? Z.abs v) || (v <? td_min) then Escape s_overflow else Ok v.
Proof. exact dur_grammar_dec_full'. Qed.
Print Assumptions C03_dur_grammar_dec_full.

Theorem C03_offset_grammar_dec : forall t v, offset_value t = Some v -> dec_offset t = Ok v.
Proof. exact offset_grammar_dec. Qed.
Print Assumptions C03_offset_grammar_dec.

Theorem C03_int_grammar_dec : forall t v, int_value t = Some v -> (List.length t <=? 4300)%nat = true ->
  dec_int t = Ok v.
Proof. exact int_grammar_dec. Qed.
Print Assumptions C03_int_grammar_dec.

Theorem C03_bool_grammar_dec : forall t b, bool_value t = Some b -> all_ascii t = true -> dec_bool t = Ok b.
Proof. exact bool_grammar_dec. Qed.
Print Assumptions C03_bool_grammar_dec.

Theorem C03_frequency_grammar_dec : forall t, freq_grammar t = true -> all_ascii t = true ->
  dec_freq t = Ok (upper t).
Proof. exact freq_grammar_dec. Qed.
Print Assumptions C03_frequency_grammar_dec.

Theorem C03_month_grammar_dec : forall t v, month_value t = Some v -> dec_month t = Ok v.
Proof. exact month_grammar_dec. Qed.
Print Assumptions C03_month_grammar_dec.

(* ============================== the combined decoder picks the right type ============================== *)
(* for every grammar-valid text of a type, vDDDTypes.from_ical is that type's decoder (its result wrapped in
   the type's constructor); together with the *_grammar_dec theorems: the right type AND the right value *)
Theorem C03_ddd_dispatch_date : forall t v, date_value t = Some v -> ddd_from_ical t = wrap_date (dec_date t).
Proof. exact ddd_dispatch_date. Qed.
Print Assumptions C03_ddd_dispatch_date.

Theorem C03_ddd_dispatch_time : forall t v, time_value t = Some v -> ddd_from_ical t = wrap_time (dec_time t).
Proof. exact ddd_dispatch_time. Qed.
Print Assumptions C03_ddd_dispatch_time.

Theorem C03_ddd_dispatch_datetime : forall t v, datetime_value t = Some v ->
  ddd_from_ical t = wrap_datetime (dec_datetime t).
Proof. exact ddd_dispatch_datetime. Qed.
Print Assumptions C03_ddd_dispatch_datetime.

Theorem C03_ddd_dispatch_dur : forall t v, dur_value t = Some v -> ddd_from_ical t = wrap_dur (dec_dur t).
Proof. exact ddd_dispatch_dur. Qed.
Print Assumptions C03_ddd_dispatch_dur.

Theorem C03_ddd_dispatch_period : forall t v, period_value t = Some v -> ddd_from_ical t = dec_period t.
Proof. exact ddd_dispatch_period. Qed.
Print Assumptions C03_ddd_dispatch_period.

(* The dispatcher as a whole, against the grammars.  ddd_readings t lists every reading of t as DATE, DATE-TIME,
   TIME, DURATION, PERIOD; the five grammars are pairwise disjoint, so "in exactly one" = "in one": *)
Theorem C03_ddd_grammars_disjoint : forall t,
  (List.length (ddd_readings t) <= 1)%nat /\ (forall v, ddd_value t = Some v <-> In v (ddd_readings t)).
Proof. exact ddd_disjoint_reading. Qed.
Print Assumptions C03_ddd_grammars_disjoint.

(* for every text in one of the five grammars vDDDTypes.from_ical returns that grammar's value, on the guard
   [ddd_guard]: no second 60 (C03-F1), no UTC TIME (C03-F2), durations inside timedelta's range (C03-F4)
   -- dates and date-times carry no other condition; at most 4300 characters (int() digit limit) ... *)
Theorem C03_ddd_grammar_value : forall t v, ddd_value t = Some v ->
  ddd_guard v && (List.length t <=? 4300)%nat = true -> ddd_from_ical t = Ok v.
Proof. exact ddd_grammar_dec. Qed.
Print Assumptions C03_ddd_grammar_value.

(* ... what it returns on every such text, guard or not; and the guard is exact: outside it the RFC value
   is never returned *)
Theorem C03_ddd_grammar_value_full : forall t v, ddd_value t = Some v -> (List.length t <= 4300)%nat ->
  ddd_from_ical t = ddd_expected v /\ (ddd_from_ical t = Ok v <-> ddd_guard v = true).
Proof. exact ddd_grammar_dec_full'. Qed.
Print Assumptions C03_ddd_grammar_value_full.

(* PERIOD = date-time "/" date-time  or  date-time "/" dur-value.  period_value t = Some (DPeriod (DDatetime a) e),
   e = DDatetime b or DDur s, is the RFC reading of a whole text (Model/CodecDur.v).  Guard [ddd_guard]: no
   second 60 in either date-time (C03-F1) and the duration inside timedelta's range (C03-F4); the length bound is
   CPython's int() digit limit.  Both entry points: vPeriod.from_ical and vDDDTypes.from_ical. *)
Theorem C03_period_grammar_value : forall t v, period_value t = Some v ->
  ddd_guard v && (List.length t <=? 4300)%nat = true ->
  dec_period t = Ok v /\ ddd_from_ical t = Ok v.
Proof. exact period_grammar_dec. Qed.
Print Assumptions C03_period_grammar_value.

(* ... and what the two entry points return for every RFC period text, guard or not: [ddd_expected v] is
   ValueError as soon as one part is a leap-second date-time or an over-range duration (inside a period the
   OverflowError of C03-F4 is converted), else the value *)
Theorem C03_period_grammar_value_full : forall t v, period_value t = Some v -> (List.length t <= 4300)%nat ->
  dec_period t = ddd_expected v /\ ddd_from_ical t = ddd_expected v.
Proof. exact period_grammar_dec_full'. Qed.
Print Assumptions C03_period_grammar_value_full.

(* weekdaynum = [[plus / minus] ordwk] weekday, in any letter case: no guard.  The str returned is the
   upper-cased text, .relative the signed ordinal (None without one), .weekday the two letters *)
Theorem C03_weekday_grammar_value : forall t rel wd, weekday_value t = Some (rel, wd) ->
  dec_weekday t = Ok (upper t, rel, wd).
Proof. exact weekday_grammar_dec. Qed.
Print Assumptions C03_weekday_grammar_value.

(* BINARY: binary_value is the RFC 4648 reading of a text (Some o iff the text is RFC 5545 "binary") ... *)
Theorem C03_binary_value_grammar : forall t,
  binary_grammar t = match binary_value t with Some _ => true | None => false end.
Proof. exact binary_grammar_value. Qed.
Print Assumptions C03_binary_value_grammar.

(* ... every such text, canonical or not, decodes to the octets RFC 4648 assigns (no guard: the bits of the
   last character that are not part of the value are ignored); re-encoding the result gives the canonical
   text of the same octets, which is the text itself exactly when the text is canonical (those bits are zero) *)
Theorem C03_binary_grammar_value : forall t o, binary_value t = Some o ->
  dec_binary t = Ok o /\ Forall (fun x => (x < 256)%N) o
  /\ binary_value (b64_enc o) = Some o /\ binary_canonical (b64_enc o) = true
  /\ (b64_enc o = t <-> binary_canonical t = true).
Proof. exact binary_grammar_dec'. Qed.
Print Assumptions C03_binary_grammar_value.

(* missing padding (not in the grammar; RFC 4648 3.2 allows it only where a specification says so): any run
   of alphabet characters whose length is not a multiple of 4 is refused (binascii.Error, a ValueError) *)
Theorem C03_binary_unpadded : forall t, forallb is_b64_chr t = true ->
  (N.of_nat (List.length t) mod 4 <> 0)%N -> dec_binary t = ValueErr.
Proof. exact binary_unpadded. Qed.
Print Assumptions C03_binary_unpadded.

(* ============================== refutations outside the guards (known findings) ============================== *)

(* C03-F1: leap-second texts are in the grammar but are refused *)
Theorem C03_time_leap_second_refuted : exists t v, time_value t = Some v /\ dec_time t = ValueErr.
Proof. exists (s2l "235960"), (23, 59, 60, false). vm_compute. split; reflexivity. Qed.
Print Assumptions C03_time_leap_second_refuted.

Theorem C03_datetime_leap_second_refuted : exists t v, datetime_value t = Some v /\ dec_datetime t = ValueErr.
Proof. exists (s2l "19970714T235960Z"), (1997, 7, 14, 23, 59, 60, true). vm_compute. split; reflexivity. Qed.
Print Assumptions C03_datetime_leap_second_refuted.

(* C03-F2: a UTC time does not survive (to_ical writes no Z) and a UTC TIME text is read as naive *)
Theorem C03_time_utc_refuted : exists h m s t, valid_time h m s = true /\ enc_time h m s true = Ok t
  /\ dec_time t <> Ok (h, m, s, true).
Proof. exists 12, 0, 0, (s2l "120000"). vm_compute. repeat split; try reflexivity. discriminate. Qed.
Print Assumptions C03_time_utc_refuted.

Theorem C03_time_utc_text_refuted : exists t, time_value t = Some (12, 0, 0, true) /\ dec_time t = Ok (12, 0, 0, false).
Proof. exists (s2l "120000Z"). vm_compute. split; reflexivity. Qed.
Print Assumptions C03_time_utc_text_refuted.

(* C03-F4: a grammar-valid duration beyond timedelta's range raises OverflowError, not ValueError *)
Theorem C03_dur_overflow_refuted : exists t v, dur_value t = Some v /\ dec_dur t = Escape s_overflow.
Proof. exists (s2l "P1000000000D"), (1000000000 * 86400). vm_compute. split; reflexivity. Qed.
Print Assumptions C03_dur_overflow_refuted.

(* C03-F5: with RFC 5234's case-insensitive literals "p1d" and "...t...z" are in the grammar but refused *)
Theorem C03_dur_lowercase_refuted : exists t, dur_grammar_ci t = true /\ dec_dur t = ValueErr.
Proof. exists (s2l "p1d"). vm_compute. split; reflexivity. Qed.
Print Assumptions C03_dur_lowercase_refuted.

Theorem C03_datetime_lowercase_refuted : exists t, datetime_grammar_ci t = true /\ dec_datetime t = ValueErr.
Proof. exists (s2l "19970714T120000z"). vm_compute. split; reflexivity. Qed.
Print Assumptions C03_datetime_lowercase_refuted.

(* the same classes through vPeriod.from_ical and vDDDTypes.from_ical (every clause of ddd_guard has a witness) *)
(* C03-F1 inside a period, either end *)
Theorem C03_period_leap_second_refuted : exists t v, period_value t = Some v
  /\ dec_period t = ValueErr /\ ddd_from_ical t = ValueErr.
Proof.
  exists (s2l "19970101T235960Z/PT1H"), (DPeriod (DDatetime (1997, 1, 1, 23, 59, 60, true)) (DDur 3600)).
  vm_compute. repeat split; reflexivity.
Qed.
Print Assumptions C03_period_leap_second_refuted.

Theorem C03_period_end_leap_second_refuted : exists t v, period_value t = Some v
  /\ dec_period t = ValueErr /\ ddd_from_ical t = ValueErr.
Proof.
  exists (s2l "19970101T180000Z/19970102T235960Z"),
         (DPeriod (DDatetime (1997, 1, 1, 18, 0, 0, true)) (DDatetime (1997, 1, 2, 23, 59, 60, true))).
  vm_compute. repeat split; reflexivity.
Qed.
Print Assumptions C03_period_end_leap_second_refuted.

(* C03-F4 inside a period: refused (the OverflowError is converted to ValueError there) *)
Theorem C03_period_overflow_refuted : exists t v, period_value t = Some v
  /\ dec_period t = ValueErr /\ ddd_from_ical t = ValueErr.
Proof.
  exists (s2l "19970101T180000Z/P1000000000D"), (DPeriod (DDatetime (1997, 1, 1, 18, 0, 0, true)) (DDur (1000000000 * 86400))).
  vm_compute. repeat split; reflexivity.
Qed.
Print Assumptions C03_period_overflow_refuted.

(* C03-F5 inside a period *)
Theorem C03_period_lowercase_refuted : exists t, period_grammar_ci t = true
  /\ dec_period t = ValueErr /\ ddd_from_ical t = ValueErr.
Proof. exists (s2l "19970101T180000Z/pt5h"). vm_compute. repeat split; reflexivity. Qed.
Print Assumptions C03_period_lowercase_refuted.

(* the dispatcher: C03-F1 (TIME and DATE-TIME texts), C03-F2, C03-F4 (here the OverflowError escapes), C03-F5 *)
Theorem C03_ddd_leap_second_refuted :
  (exists t v, ddd_value t = Some v /\ time_value t <> None /\ ddd_from_ical t = ValueErr)
  /\ (exists t v, ddd_value t = Some v /\ datetime_value t <> None /\ ddd_from_ical t = ValueErr).
Proof.
  split.
  - exists (s2l "235960"), (DTime 23 59 60 false). vm_compute. repeat split; try reflexivity. discriminate.
  - exists (s2l "19970714T235960Z"), (DDatetime (1997, 7, 14, 23, 59, 60, true)). vm_compute. repeat split; try reflexivity. discriminate.
Qed.
Print Assumptions C03_ddd_leap_second_refuted.

Theorem C03_ddd_time_utc_refuted : exists t, ddd_value t = Some (DTime 12 0 0 true)
  /\ ddd_from_ical t = Ok (DTime 12 0 0 false).
Proof. exists (s2l "120000Z"). vm_compute. split; reflexivity. Qed.
Print Assumptions C03_ddd_time_utc_refuted.

Theorem C03_ddd_dur_overflow_refuted : exists t v, ddd_value t = Some v /\ ddd_from_ical t = Escape s_overflow.
Proof. exists (s2l "P1000000000D"), (DDur (1000000000 * 86400)). vm_compute. split; reflexivity. Qed.
Print Assumptions C03_ddd_dur_overflow_refuted.

Theorem C03_ddd_lowercase_refuted :
  (exists t, ddd_grammar_ci t = true /\ ddd_from_ical t = ValueErr)
  /\ (exists t, ddd_grammar_ci t = true /\ ddd_from_ical t = ValueErr /\ mem_chr 84 (upper t) = true /\ mem_chr 80 (upper t) = false).
Proof.
  split.
  - exists (s2l "p1d"). vm_compute. split; reflexivity.
  - exists (s2l "19970714T120000z"). vm_compute. repeat split; reflexivity.
Qed.
Print Assumptions C03_ddd_lowercase_refuted.

(* the length bound: a grammar-valid duration of 4303 characters (leading zeros) denoting one day is refused *)
Theorem C03_dur_digit_limit_refuted : dur_value long_zero_dur = Some 86400 /\ td_ok 86400 = true
  /\ List.length long_zero_dur = 4303%nat /\ dec_dur long_zero_dur = ValueErr /\ ddd_from_ical long_zero_dur = ValueErr.
Proof. exact dur_digit_limit. Qed.
Print Assumptions C03_dur_digit_limit_refuted.

(* BINARY: a non-canonical text ("QR==": the 4 unused bits of R are 0001) is accepted and read as "QQ==" is;
   missing padding is refused; what follows a complete padding is ignored (outside the grammar) *)
Theorem C03_binary_noncanonical_accepted : exists t, binary_value t = Some [65%N] /\ binary_canonical t = false
  /\ dec_binary t = Ok [65%N] /\ b64_enc [65%N] <> t /\ b64_enc [65%N] = s2l "QQ==".
Proof. exists (s2l "QR=="). vm_compute. repeat split; try reflexivity. discriminate. Qed.
Print Assumptions C03_binary_noncanonical_accepted.

(* ============================== non-vacuity ============================== *)
Example C03_nonvacuous :
  valid_date 2000 2 29 = true /\ enc_date 2000 2 29 = Ok (s2l "20000229")
  /\ enc_dur (-93784) = Ok (s2l "-P1DT2H3M4S") /\ dec_dur (s2l "-P1DT2H3M4S") = Ok (-93784)
  /\ enc_offset (-18030) = Ok (s2l "-050030") /\ enc_int (-2147483648) = Ok (s2l "-2147483648")
  /\ dur_value (s2l "P15DT5H0M20S") = Some 1314020 /\ dur_value (s2l "PT1H5S") = None
  /\ offset_value (s2l "-0000") = None.
Proof. vm_compute. repeat split; reflexivity. Qed.

Definition c03_period_ex := Eval vm_compute in
  (period_value (s2l "19970101T180000Z/19970102T070000Z"), dec_period (s2l "19970101T180000Z/PT5H30M"),
   ddd_from_ical (s2l "19970101T180000/P1W"), period_value (s2l "19970101/19970102"), period_value (s2l "19970101T180000Z/PT1H5S")).
Example C03_grammar_nonvacuous :
  c03_period_ex = (Some (DPeriod (DDatetime (1997, 1, 1, 18, 0, 0, true)) (DDatetime (1997, 1, 2, 7, 0, 0, true))),
                   Ok (DPeriod (DDatetime (1997, 1, 1, 18, 0, 0, true)) (DDur 19800)),
                   Ok (DPeriod (DDatetime (1997, 1, 1, 18, 0, 0, false)) (DDur 604800)), None, None)
  /\ ddd_value (s2l "19970714") = Some (DDate 1997 7 14) /\ ddd_value (s2l "-P1DT2H") = Some (DDur (-93600))
  /\ ddd_value (s2l "1997071") = None /\ ddd_readings (s2l "19970714T120000Z") = [DDatetime (1997, 7, 14, 12, 0, 0, true)]
  /\ ddd_guard (DPeriod (DDatetime (1997, 1, 1, 18, 0, 0, true)) (DDur 19800)) = true
  /\ weekday_value (s2l "-1su") = Some (Some (-1), s2l "SU") /\ dec_weekday (s2l "-1su") = Ok (s2l "-1SU", Some (-1), s2l "SU")
  /\ weekday_value (s2l "+MO") = None /\ weekday_value (s2l "54MO") = None /\ weekday_value (s2l "00MO") = None
  /\ binary_value (s2l "QUJDRA==") = Some [65; 66; 67; 68]%N /\ binary_canonical (s2l "QUJDRA==") = true
  /\ b64_enc [65; 66; 67; 68]%N = s2l "QUJDRA==" /\ binary_value (s2l "QUJDRA") = None /\ dec_binary (s2l "QUJDRA") = ValueErr
  /\ dec_binary (s2l "QQ==QQ==") = Ok [65%N] /\ binary_value (s2l "QQ==QQ==") = None.
Proof. vm_compute. repeat split; reflexivity. Qed.
