(* C06 -- Folding: lines <= 75 octets, no split characters, exact unfolding.
   Only statements: each is closed by [exact] of a lemma from Proofs/ and followed by
   Print Assumptions.  Strings are lists of code points; [bytes] counts UTF-8 octets. *)
Require Import Lib.Base Gen.Gen_parser Model.Fold Model.Params Model.Contentline Model.Tree Proofs.FoldProofs Proofs.LinesProofs Proofs.TreeProofs.

(* Structure of every folded line (for all code-point lists without LF):
   the physical (CRLF-separated) lines are a first segment h and then, for each further
   segment, exactly one added SPACE followed by the segment; the segments concatenate to
   the input (so no character is split or lost); every segment has <= 74 octets. *)
Theorem C06_fold_structure : forall l, no_lf l = true ->
  exists h segs, phys_lines (foldline l) = h :: map (cons 32) segs
    /\ h ++ concat segs = l /\ (bytes h <= 74)%nat
    /\ Forall (fun s => (bytes s <= 74)%nat /\ s <> []) segs.
Proof. exact fold_structure. Qed.
Print Assumptions C06_fold_structure.

Theorem C06_fold_width : forall l, no_lf l = true ->
  Forall (fun ln => (bytes ln <= 75)%nat) (phys_lines (foldline l)).
Proof. exact fold_width. Qed.
Print Assumptions C06_fold_width.

(* the library's own unfolding (uFOLD.sub) restores the line exactly ... *)
Theorem C06_fold_unfold : forall l, no_lf l = true -> unfold (foldline l) = l.
Proof. exact fold_unfold. Qed.
Print Assumptions C06_fold_unfold.

(* ... and so does the RFC's (remove each CRLF followed by one SPACE/HTAB) *)
Theorem C06_fold_rfc_unfold : forall l, no_lf l = true -> rfc_unfold (foldline l) = l.
Proof. exact fold_rfc_unfold. Qed.
Print Assumptions C06_fold_rfc_unfold.

Theorem C06_fold_fast_eq : forall l, is_ascii l = true ->
  foldline l = fold_gen fold_limit fold_sep 0 l.
Proof. exact fold_fast_eq. Qed.
Print Assumptions C06_fold_fast_eq.

(* the same for every line of every serialised component: whatever the tree, if it serialises at all
   then every physical line of the output has at most 75 octets ... *)
Theorem C06_component_width : forall sorted t text, ser sorted t = Ok text ->
  Forall (fun ln => (bytes ln <= 75)%nat) (phys_lines text).
Proof. exact ser_width. Qed.
Print Assumptions C06_component_width.

(* ... and reading the output back (unfold regex + line split) restores exactly the content lines *)
Theorem C06_lines_roundtrip : forall ls, forallb good_line ls = true ->
  contentlines_from_ical (contentlines_to_ical ls) = ls.
Proof. exact lines_roundtrip. Qed.
Print Assumptions C06_lines_roundtrip.

(* non-vacuity: a line with a 4-octet character straddling the boundary is in the domain
   and really is folded *)
Example C06_nonvacuous :
  let l := repeat 97 73 ++ [128512; 98] in
  no_lf l = true /\ phys_lines (foldline l) = [repeat 97 73; [32; 128512; 98]].
Proof. vm_compute. split; reflexivity. Qed.
