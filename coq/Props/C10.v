(* C10 -- serialisation is deterministic, pure and insertion-order independent.  Statements only.
   [ser sorted t] (Model/Tree.v) is a function of the tree and the flag alone: the model has no other
   input.  The one place where the code iterated a Python set (add_missing_timezones) is modelled with
   the iteration order as an explicit parameter; it is now sorted (fixed in /repo). *)
Require Import Lib.Base Lib.Chain Gen.Gen_parser Gen.Gen_cal Model.Text Model.Params Model.Contentline Model.Sort Model.Tree Model.TreeOps Model.Serial Model.UsedTz.
Require Import Proofs.TreeProofs Proofs.SerialProofs.
From Coq Require Import Permutation.

(* with sorting on, two trees that differ only in the insertion order of (distinct) properties and of
   (distinct) parameters serialise to identical text; repeated values of one name and subcomponents
   keep their order ([tperm] relates them position by position) *)
Theorem C10_ser_perm : forall t t', tperm t t' -> tree_nodup t = true -> params_nodup t = true ->
  tree_nodup t' = true -> tree_upper t = true -> tree_upper t' = true -> ser true t = ser true t'.
Proof. exact ser_perm. Qed.
Print Assumptions C10_ser_perm.

(* the emission order of property names is a function of the SET of names *)
Theorem C10_canonsort_perm : forall keys keys' canon, Permutation keys keys' ->
  canonsort_keys keys canon = canonsort_keys keys' canon.
Proof. exact canonsort_perm_inv. Qed.
Print Assumptions C10_canonsort_perm.

(* with sorting off, the properties appear exactly in insertion order, each name's values in order *)
Theorem C10_ser_unsorted : forall n ps subs es, NoDup (map fst ps) ->
  own_items false (Comp n ps subs es) =
  flat_map (fun kv : list N * pentry => map (item_of (fst kv)) (entry_values (snd kv))) ps.
Proof. exact ser_unsorted_order. Qed.
Print Assumptions C10_ser_unsorted.

(* the BEGIN/END lines of EVERY tree (no property called BEGIN or END) form a balanced, properly
   nested word, and the tree it denotes is the component tree *)
Theorem C10_ser_balanced : forall sorted t, no_be_keys t = true ->
  unbracket (toks (property_items sorted t)) [] [] = Some [shape_of t].
Proof. exact ser_balanced. Qed.
Print Assumptions C10_ser_balanced.

(* iteration order of the missing-id set: any order dependence is gone once the ids are sorted *)
Theorem C10_add_missing_sorted : forall (gen : list N -> option comp) ms ms', Permutation ms ms' ->
  flat_map (fun z => match gen z with Some tz => [tz] | None => [] end) (sort_by str_leb ms) =
  flat_map (fun z => match gen z with Some tz => [tz] | None => [] end) (sort_by str_leb ms').
Proof. exact add_missing_sorted_perm. Qed.
Print Assumptions C10_add_missing_sorted.
(* ... whereas with the set's own order the result depended on it (fixed finding C10-F0) *)
Theorem C10_add_missing_order_refuted : exists gen t, add_missing gen (fun l => l) t <> add_missing gen (@rev _) t.
Proof. exact add_missing_order_refuted. Qed.

Example C10_nonvacuous :
  let v s := {| v_class := s2l "vText"; v_params := [(s2l "X-B", PStr (s2l "2")); (s2l "ALTREP", PStr (s2l "u:v"))]; v_text := s |} in
  let v' s := {| v_class := s2l "vText"; v_params := [(s2l "ALTREP", PStr (s2l "u:v")); (s2l "X-B", PStr (s2l "2"))]; v_text := s |} in
  let t := Comp (s2l "VEVENT") [(s2l "UID", One (v (s2l "u"))); (s2l "SUMMARY", One (v (s2l "s"))); (s2l "X-A", Many [v (s2l "1"); v (s2l "2")])] [] [] in
  let t' := Comp (s2l "VEVENT") [(s2l "X-A", Many [v' (s2l "1"); v' (s2l "2")]); (s2l "SUMMARY", One (v' (s2l "s"))); (s2l "UID", One (v (s2l "u")))] [] [] in
  ser true t = ser true t' /\ ser false t <> ser false t' /\ no_be_keys t = true.
Proof. vm_compute. repeat split; try reflexivity. discriminate. Qed.
