(* C07 -- TEXT escaping is lossless.  Statements only.
   Strings are lists of Unicode code points.  [norm] is the documented normalisation
   (literal backslash-N -> LF, then CRLF -> LF).  [direct_safe]/[line_safe] are the boolean
   guards "contains none of the listed substrings" (Model/Text.v); outside them the
   property is refuted below with concrete witnesses (known findings). *)
Require Import Lib.Base Lib.Chain Gen.Gen_parser Model.Text Proofs.TextProofs.

(* vText.from_ical(vText(s).to_ical()) for every string without the substring backslash-n *)
Theorem C07_direct : forall s, direct_safe s = true ->
  vtext_from_ical (vtext_to_ical s) = norm s.
Proof. exact text_direct. Qed.
Print Assumptions C07_direct.

(* the value read back from a content line  NAME:<escaped s>  (escape_string/unescape_string
   of Contentline.parts around the TEXT codec) *)
Theorem C07_line : forall s, line_safe s = true -> text_via_line s = norm s.
Proof. exact text_line. Qed.
Print Assumptions C07_line.

(* the reflective certificates themselves (obligations that change with the generated chains) *)
Theorem C07_direct_certificate :
  check direct_chain norm_chain forb_direct direct_crit direct_cert = true.
Proof. exact direct_cert_ok. Qed.
Theorem C07_line_certificate :
  check line_chain norm_chain forb_line line_crit line_cert = true.
Proof. exact line_cert_ok. Qed.

(* the encoded form of EVERY string contains no raw line break and no unescaped semicolon or comma:
   escape_char equals "normalise, then map each character" (certificate for the generated chain against
   the specification chain), and the image of that map is well escaped *)
Theorem C07_wellescaped : forall s, well_escaped (escape_char s) = true.
Proof. exact escape_char_well_escaped. Qed.
Print Assumptions C07_wellescaped.
Theorem C07_no_raw_lf : forall s, mem_chr 10 (escape_char s) = false.
Proof. exact escape_char_no_lf. Qed.
Print Assumptions C07_no_raw_lf.
Theorem C07_escape_spec : forall s, escape_char s = flat_map esc_map (norm s).
Proof. intros s. rewrite escape_char_spec. apply perchar_map. Qed.
Theorem C07_escape_certificate : check escape_char_chain esc_spec_chain [] esc_crit esc_cert = true.
Proof. exact esc_cert_ok. Qed.

(* outside the guards the property fails: these witnesses are the known findings *)
Theorem C07_direct_refuted : exists s, unescape_char (escape_char s) <> norm s.
Proof. exact text_direct_refuted. Qed.
Theorem C07_line_refuted : exists s, direct_safe s = true /\ text_via_line s <> norm s.
Proof. exact text_line_refuted. Qed.
Theorem C07_list_refuted : exists items, line_safe (concat items) = true /\
  categories_via_line items <> map norm items.
Proof. exact categories_refuted. Qed.

(* non-vacuity: a string full of critical characters is inside both guards and is changed
   only by the documented normalisation *)
Example C07_nonvacuous :
  let s := [59; 44; 92; 78; 13; 10; 34; 58; 37; 50; 92; 32; 110] in
  line_safe s = true /\ direct_safe s = true /\ text_via_line s = [59; 44; 10; 10; 34; 58; 37; 50; 92; 32; 110].
Proof. vm_compute. repeat split; reflexivity. Qed.
