(* C07 -- TEXT escaping is lossless.  Statements only.
   Strings are lists of Unicode code points.  [norm] is the documented normalisation
   (literal backslash-N -> LF, then CRLF -> LF).  [direct_safe]/[line_safe] are the boolean
   guards "contains none of the listed substrings" (Model/Text.v); outside them the
   property is refuted below with concrete witnesses (known findings). *)
Require Import Lib.Base Lib.Chain Gen.Gen_parser Model.Text Proofs.TextProofs Proofs.CategoriesProofs.

(* vText.from_ical(vText(s).to_ical()) for every string without the substring backslash-n *)
Theorem C07_direct : forall s, direct_safe s = true ->
  vtext_from_ical (vtext_to_ical s) = norm s.
Proof. exact text_direct. Qed.
Print Assumptions C07_direct.

(* the value read back from a content line  NAME:<escaped s>  (escape_string/unescape_string
   of Contentline.parts around the TEXT codec) *)
Theorem C07_line : forall s, line_safe s = true -> text_via_line s = norm s.
Proof. exact text_line. Qed.
Print Assumptions C07_line.

(* the reflective certificates themselves (obligations that change with the generated chains) *)
Theorem C07_direct_certificate :
  check direct_chain norm_chain forb_direct direct_crit direct_cert = true.
Proof. exact direct_cert_ok. Qed.
Theorem C07_line_certificate :
  check line_chain norm_chain forb_line line_crit line_cert = true.
Proof. exact line_cert_ok. Qed.

(* the encoded form of EVERY string contains no raw line break and no unescaped semicolon or comma:
   escape_char equals "normalise, then map each character" (certificate for the generated chain against
   the specification chain), and the image of that map is well escaped *)
Theorem C07_wellescaped : forall s, well_escaped (escape_char s) = true.
Proof. exact escape_char_well_escaped. Qed.
Print Assumptions C07_wellescaped.
Theorem C07_no_raw_lf : forall s, mem_chr 10 (escape_char s) = false.
Proof. exact escape_char_no_lf. Qed.
Print Assumptions C07_no_raw_lf.
Theorem C07_escape_spec : forall s, escape_char s = flat_map esc_map (norm s).
Proof. intros s. rewrite escape_char_spec. apply perchar_map. Qed.
Theorem C07_escape_certificate : check escape_char_chain esc_spec_chain [] esc_crit esc_cert = true.
Proof. exact esc_cert_ok. Qed.

(* CATEGORIES: a list of items written as ONE comma-separated value and read back through a content line
   (vCategory.to_ical joins the escaped items with commas; Contentline.parts un-escapes the value;
   vCategory.from_ical un-escapes and splits).  For every non-empty list of strings of any length: if every
   item is inside the line guard and comma-free, and no item but the last ends in a backslash, the items
   come back, each normalised, in the same order and multiplicity.  [cat_items_ok] also asks that no item
   contains the number 1114112, which is not a code point: the items are Python strings.  The separator is
   put into the chain alphabet as that symbol; certificate: 1 887 product states. *)
Theorem C07_categories : forall items, cat_items_ok items = true ->
  categories_via_line items = map norm items.
Proof. exact categories_line. Qed.
Print Assumptions C07_categories.
Theorem C07_categories_certificate : check cat_chain cat_spec_chain forb_cat cat_crit cat_cert = true.
Proof. exact cat_cert_ok. Qed.
(* each clause of that guard is needed: an item with a comma, an item before the last that ends in a
   backslash, the empty list (read back as one empty item) *)
Theorem C07_categories_comma_refuted : exists items, categories_via_line items <> map norm items.
Proof. exact categories_comma_refuted. Qed.
Theorem C07_categories_backslash_refuted : exists items,
  forallb cat_item_ok items = true /\ categories_via_line items <> map norm items.
Proof. exact categories_backslash_refuted. Qed.
Theorem C07_categories_empty_refuted : categories_via_line [] <> map norm [].
Proof. exact categories_empty_refuted. Qed.
Example C07_categories_nonvacuous :
  let items := [[59; 92; 78; 37; 50]; []; [13; 10; 34; 58; 92; 32]; [119]; [119]; [92]] in
  cat_items_ok items = true /\
  categories_via_line items = [[59; 10; 37; 50]; []; [10; 34; 58; 92; 32]; [119]; [119]; [92]].
Proof. vm_compute. split; reflexivity. Qed.

(* outside the guards the property fails: these witnesses are the known findings *)
Theorem C07_direct_refuted : exists s, unescape_char (escape_char s) <> norm s.
Proof. exact text_direct_refuted. Qed.
Theorem C07_line_refuted : exists s, direct_safe s = true /\ text_via_line s <> norm s.
Proof. exact text_line_refuted. Qed.
Theorem C07_list_refuted : exists items, line_safe (concat items) = true /\
  categories_via_line items <> map norm items.
Proof. exact categories_refuted. Qed.

(* non-vacuity: a string full of critical characters is inside both guards and is changed
   only by the documented normalisation *)
Example C07_nonvacuous :
  let s := [59; 44; 92; 78; 13; 10; 34; 58; 37; 50; 92; 32; 110] in
  line_safe s = true /\ direct_safe s = true /\ text_via_line s = [59; 44; 10; 10; 34; 58; 37; 50; 92; 32; 110].
Proof. vm_compute. repeat split; reflexivity. Qed.
