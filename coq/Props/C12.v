(* C12 -- a VTIMEZONE is interpreted per the RFC 5545 onset rule.  Statements only.
   Times are seconds (Z): local wall-clock seconds for onsets, UTC seconds for instants.
   [vtz] = the STANDARD/DAYLIGHT observances in file order, each with its local onsets (DTSTART
   and the RRULE/RDATE expansion, supplied as data), TZOFFSETFROM, TZOFFSETTO, optional TZNAME.
   [rfc_onset v t] = the onset with the greatest UTC time (local - TZOFFSETFROM) <= t  (Model/TzRules.v).
   [pytz_path v t] = (utcoffset, dst, tzname) from Timezone.get_transitions + pytz's
   DstTzInfo.fromutc (bisect_right - 1), i.e. what to_tz() gives under the pytz provider.
   [pytz_guard] = whole-minute offsets && local-time order of the onsets = their UTC order with
   distinct UTC onsets && no DAYLIGHT observance shares a TZNAME with a STANDARD one && some
   STANDARD observance has an onset.  Outside each conjunct the property is refuted below.
   The zoneinfo provider hands the component to dateutil's tzical: NOT modelled, NOT proved. *)
Require Import Lib.Base Model.Params Model.TzRules Model.TzCache Proofs.TzRulesProofs Proofs.TzCacheProofs.
Open Scope Z_scope.

(* for every definition inside the guard and every instant from the first onset on: offset and
   TZNAME are those of the RFC-selected observance, and dst() is zero when it is a STANDARD one *)
Theorem C12_pytz_path_spec : forall v t t0,
  pytz_guard v = true -> first_onset v = Some t0 -> t0 <= t ->
  exists e d nm, rfc_onset v t = Some e /\ pytz_path v t = Ok (n_to e, d, nm)
    /\ (forall n, n_name e = Some n -> nm = n) /\ (n_dst e = false -> d = 0).
Proof. exact pytz_path_main. Qed.
Print Assumptions C12_pytz_path_spec.

Theorem C12_std_dst_zero : forall v t t0 e,
  pytz_guard v = true -> first_onset v = Some t0 -> t0 <= t ->
  rfc_onset v t = Some e -> n_dst e = false ->
  exists off nm, pytz_path v t = Ok (off, 0, nm).
Proof. exact std_dst_zero_main. Qed.
Print Assumptions C12_std_dst_zero.

(* [rfc_onset] is the RFC rule: it returns an onset of the definition that is not after t, and no
   onset of the definition lies strictly between it and t *)
Theorem C12_rfc_onset_is_latest : forall v t e, rfc_onset v t = Some e ->
  In e (spec_onsets v) /\ n_utc e <= t /\
  forall e', In e' (spec_onsets v) -> n_utc e' <= t -> n_utc e' <= n_utc e.
Proof. exact rfc_onset_spec. Qed.
Print Assumptions C12_rfc_onset_is_latest.

(* pytz's lookup on a strictly increasing transition list (the library step, on its own) *)
Theorem C12_bisect_right_spec : forall a t, Sorted.StronglySorted Z.lt a ->
  (bisect_right a t <= length a)%nat /\
  (forall i, (i < bisect_right a t)%nat -> nth i a 0 <= t) /\
  (forall i, (bisect_right a t <= i)%nat -> (i < length a)%nat -> t < nth i a 0).
Proof. exact bisect_right_spec. Qed.
Print Assumptions C12_bisect_right_spec.

(* non-vacuity: a Europe-like definition with an unnamed observance is inside the guard *)
Example C12_nonvacuous :
  pytz_guard ex_vtz = true /\ first_onset ex_vtz = Some 1572130800 /\
  rfc_offset ex_vtz 1585443600 = Some (7200, None, true) /\
  pytz_path ex_vtz 1585443599 = Ok (3600, 0, s2l "CET") /\
  pytz_path ex_vtz 1585443600 = Ok (7200, 3600, s2l "Z_20200329T020000_+0100_+0200").
Proof. exact ex_vtz_ok. Qed.
Print Assumptions C12_nonvacuous.

(* outside the guard: the known findings ------------------------------------------------- *)
(* C12-F1: onsets whose local-time order is not their UTC order *)
Theorem C12_pytz_path_refuted_crossing : exists v t t0,
  whole_minutes v = true /\ names_ok v = true /\ has_std v = true /\
  distinctb (map snd (onset_pairs v)) = true /\ order_ok v = false /\
  first_onset v = Some t0 /\ t0 <= t /\
  rfc_offset v t = Some (25200, Some (s2l "D"), true) /\ pytz_path v t = Ok (18000, 0, s2l "S").
Proof.
  exists crossing_vtz, 1577934000, 1577919600.
  destruct crossing_refutes as (A & B & C & D & E & F & G & H). repeat split; auto. discriminate.
Qed.
Print Assumptions C12_pytz_path_refuted_crossing.

(* C12-F2: only DAYLIGHT observances -> AssertionError from get_transitions *)
Theorem C12_pytz_path_refuted_dstonly : exists v t,
  whole_minutes v = true /\ order_ok v = true /\ names_ok v = true /\ has_std v = false /\
  rfc_offset v t = Some (7200, Some (s2l "D"), true) /\ pytz_path v t = Escape (s2l "AssertionError").
Proof. exists dstonly_vtz, 1600000000. exact dstonly_refutes. Qed.
Print Assumptions C12_pytz_path_refuted_dstonly.

(* C12-F3: a DAYLIGHT observance with the TZNAME of a STANDARD one: non-zero dst() in standard
   time, or AssertionError *)
Theorem C12_std_dst_zero_refuted_samename : exists v t,
  whole_minutes v = true /\ order_ok v = true /\ has_std v = true /\ names_ok v = false /\
  rfc_offset v t = Some (3600, Some (s2l "A"), false) /\ pytz_path v t = Ok (3600, 3600, s2l "A").
Proof. exists samename_vtz, 1580000000. exact samename_refutes. Qed.
Print Assumptions C12_std_dst_zero_refuted_samename.
Theorem C12_pytz_path_refuted_samename : exists v t,
  whole_minutes v = true /\ order_ok v = true /\ has_std v = true /\ names_ok v = false /\
  pytz_path v t = Escape (s2l "AssertionError").
Proof. exists samename2_vtz, 1580000000. exact samename2_refutes. Qed.
Print Assumptions C12_pytz_path_refuted_samename.

(* the process-wide cache --------------------------------------------------------------- *)
(* For every provider (two oracles), every Windows-name map, every history of parser events
   [hist] (all events of the calendars parsed earlier in the process, then the part of the own
   calendar above the date-time) starting from the empty cache of a fresh provider:
   a date-time with TZID=id resolves to the provider's zone if the provider resolves the id, and
   otherwise to the FIRST cacheable definition of that (cleaned) id in the whole history;
   None = floating time. *)
Theorem C12_cache_resolution : forall (zone defn : Type) (P : provider zone) windows
    (hist : list (ev defn)) (id : list N),
  resolve zone defn P windows hist id =
  match provider_chain zone P windows id with
  | Some z => Some (RProv z)
  | None => option_map RCustom (first_def zone defn P hist (clean_id id))
  end.
Proof. exact resolution. Qed.
Print Assumptions C12_cache_resolution.

(* [resolve] really is the value the parser model produces for that date-time *)
Theorem C12_cache_resolve_is_run : forall (zone defn : Type) (P : provider zone) windows
    (hist : list (ev defn)) id rest,
  snd (run zone defn P windows [] (hist ++ Use id :: rest)) =
  snd (run zone defn P windows [] hist) ++ resolve zone defn P windows hist id ::
  snd (run zone defn P windows (fst (run zone defn P windows [] hist)) rest).
Proof. exact resolve_is_run. Qed.
Print Assumptions C12_cache_resolve_is_run.

(* exactly when a reference resolves to a given definition d *)
Theorem C12_cache_own_iff : forall (zone defn : Type) (P : provider zone) windows
    (hist : list (ev defn)) id d,
  resolve zone defn P windows hist id = Some (RCustom d) <->
  provider_chain zone P windows id = None /\ first_def zone defn P hist (clean_id id) = Some d.
Proof. exact resolves_own_iff. Qed.
Print Assumptions C12_cache_own_iff.

(* the property's clause holds when: definition above the use, id unknown to the provider, and
   no calendar parsed earlier in the process defined the same id *)
Theorem C12_cache_own_definition : forall (zone defn : Type) (P : provider zone) windows
    (earlier pre mid : list (ev defn)) id d id',
  clean_id id' = clean_id id -> cacheable zone P id = true ->
  provider_chain zone P windows id' = None ->
  first_def zone defn P (earlier ++ pre) (clean_id id) = None ->
  resolve zone defn P windows (earlier ++ pre ++ Def id d :: mid) id' = Some (RCustom d).
Proof. exact own_definition. Qed.
Print Assumptions C12_cache_own_definition.

(* C12-F4 as a theorem: whatever the own calendar says, an earlier definition wins *)
Theorem C12_cache_earlier_wins : forall (zone defn : Type) (P : provider zone) windows
    (earlier own : list (ev defn)) id d0,
  provider_chain zone P windows id = None -> first_def zone defn P earlier (clean_id id) = Some d0 ->
  resolve zone defn P windows (earlier ++ own) id = Some (RCustom d0).
Proof. exact earlier_wins. Qed.
Print Assumptions C12_cache_earlier_wins.

(* C12-F5 as a theorem: no definition above the use -> floating *)
Theorem C12_cache_undefined_floats : forall (zone defn : Type) (P : provider zone) windows
    (hist : list (ev defn)) id,
  provider_chain zone P windows id = None -> first_def zone defn P hist (clean_id id) = None ->
  resolve zone defn P windows hist id = None.
Proof. exact undefined_floats. Qed.
Print Assumptions C12_cache_undefined_floats.

(* "a TZID reference resolves to the definition in its own calendar, whatever was parsed earlier
   and wherever the definition stands" is refuted twice (witnesses confirmed on the code): *)
Theorem C12_cache_history_refuted_redefine :
  snd (run_cals Z Z P0 W0 [] [[Def idZ 1; Use idZ]; [Def idZ 2; Use idZ]])
  = [[Some (RCustom 1)]; [Some (RCustom 1)]].
Proof. exact cache_redefine. Qed.
Print Assumptions C12_cache_history_refuted_redefine.
Theorem C12_cache_history_refuted_late :
  snd (run_cals Z Z P0 W0 [] [[Use idZ; Def idZ 3]; [Use idZ; Def idZ 3]])
  = [[None]; [Some (RCustom 3)]].
Proof. exact cache_late. Qed.
Print Assumptions C12_cache_history_refuted_late.
