(* C12 -- a VTIMEZONE is interpreted per the RFC 5545 onset rule.  Statements only.
   Times are seconds (Z): local wall-clock seconds for onsets, UTC seconds for instants.
   [vtz] = the STANDARD/DAYLIGHT observances in file order, each with its local onsets (DTSTART
   and the RRULE/RDATE expansion, supplied as data), TZOFFSETFROM, TZOFFSETTO, optional TZNAME.
   [rfc_onset v t] = the onset with the greatest UTC time (local - TZOFFSETFROM) <= t  (Model/TzRules.v).
   [pytz_path v t] = (utcoffset, dst, tzname) from Timezone.get_transitions + pytz's
   DstTzInfo.fromutc (bisect_right - 1), i.e. what to_tz() gives under the pytz provider.
   [pytz_guard] = whole-minute offsets && local-time order of the onsets = their UTC order with
   distinct UTC onsets && no DAYLIGHT observance shares a TZNAME with a STANDARD one && some
   STANDARD observance has an onset.  Outside each conjunct the property is refuted below.
   The zoneinfo provider hands the component to dateutil's tzical: NOT modelled, NOT proved. *)
Require Import Lib.Base Model.Params Model.TzRules Model.TzCache Proofs.TzRulesProofs Proofs.TzCacheProofs.
Require Import Model.CodecBase Model.TzOnsets Proofs.TzOnsetsProofs.
Open Scope Z_scope.

(* for every definition inside the guard and every instant from the first onset on: offset and
   TZNAME are those of the RFC-selected observance, and dst() is zero when it is a STANDARD one *)
Theorem C12_pytz_path_spec : forall v t t0,
  pytz_guard v = true -> first_onset v = Some t0 -> t0 <= t ->
  exists e d nm, rfc_onset v t = Some e /\ pytz_path v t = Ok (n_to e, d, nm)
    /\ (forall n, n_name e = Some n -> nm = n) /\ (n_dst e = false -> d = 0).
Proof. exact pytz_path_main. Qed.
Print Assumptions C12_pytz_path_spec.

Theorem C12_std_dst_zero : forall v t t0 e,
  pytz_guard v = true -> first_onset v = Some t0 -> t0 <= t ->
  rfc_onset v t = Some e -> n_dst e = false ->
  exists off nm, pytz_path v t = Ok (off, 0, nm).
Proof. exact std_dst_zero_main. Qed.
Print Assumptions C12_std_dst_zero.

(* [rfc_onset] is the RFC rule: it returns an onset of the definition that is not after t, and no
   onset of the definition lies strictly between it and t *)
Theorem C12_rfc_onset_is_latest : forall v t e, rfc_onset v t = Some e ->
  In e (spec_onsets v) /\ n_utc e <= t /\
  forall e', In e' (spec_onsets v) -> n_utc e' <= t -> n_utc e' <= n_utc e.
Proof. exact rfc_onset_spec. Qed.
Print Assumptions C12_rfc_onset_is_latest.

(* pytz's lookup on a strictly increasing transition list (the library step, on its own) *)
Theorem C12_bisect_right_spec : forall a t, Sorted.StronglySorted Z.lt a ->
  (bisect_right a t <= length a)%nat /\
  (forall i, (i < bisect_right a t)%nat -> nth i a 0 <= t) /\
  (forall i, (bisect_right a t <= i)%nat -> (i < length a)%nat -> t < nth i a 0).
Proof. exact bisect_right_spec. Qed.
Print Assumptions C12_bisect_right_spec.

(* non-vacuity: a Europe-like definition with an unnamed observance is inside the guard *)
Example C12_nonvacuous :
  pytz_guard ex_vtz = true /\ first_onset ex_vtz = Some 1572130800 /\
  rfc_offset ex_vtz 1585443600 = Some (7200, None, true) /\
  pytz_path ex_vtz 1585443599 = Ok (3600, 0, s2l "CET") /\
  pytz_path ex_vtz 1585443600 = Ok (7200, 3600, s2l "Z_20200329T020000_+0100_+0200").
Proof. exact ex_vtz_ok. Qed.
Print Assumptions C12_nonvacuous.

(* outside the guard: the known findings ------------------------------------------------- *)
(* C12-F1: onsets whose local-time order is not their UTC order *)
Theorem C12_pytz_path_refuted_crossing : exists v t t0,
  whole_minutes v = true /\ names_ok v = true /\ has_std v = true /\
  distinctb (map snd (onset_pairs v)) = true /\ order_ok v = false /\
  first_onset v = Some t0 /\ t0 <= t /\
  rfc_offset v t = Some (25200, Some (s2l "D"), true) /\ pytz_path v t = Ok (18000, 0, s2l "S").
Proof.
  exists crossing_vtz, 1577934000, 1577919600.
  destruct crossing_refutes as (A & B & C & D & E & F & G & H). repeat split; auto. discriminate.
Qed.
Print Assumptions C12_pytz_path_refuted_crossing.

(* C12-F2: only DAYLIGHT observances -> AssertionError from get_transitions *)
Theorem C12_pytz_path_refuted_dstonly : exists v t,
  whole_minutes v = true /\ order_ok v = true /\ names_ok v = true /\ has_std v = false /\
  rfc_offset v t = Some (7200, Some (s2l "D"), true) /\ pytz_path v t = Escape (s2l "AssertionError").
Proof. exists dstonly_vtz, 1600000000. exact dstonly_refutes. Qed.
Print Assumptions C12_pytz_path_refuted_dstonly.

(* C12-F3: a DAYLIGHT observance with the TZNAME of a STANDARD one: non-zero dst() in standard
   time, or AssertionError *)
Theorem C12_std_dst_zero_refuted_samename : exists v t,
  whole_minutes v = true /\ order_ok v = true /\ has_std v = true /\ names_ok v = false /\
  rfc_offset v t = Some (3600, Some (s2l "A"), false) /\ pytz_path v t = Ok (3600, 3600, s2l "A").
Proof. exists samename_vtz, 1580000000. exact samename_refutes. Qed.
Print Assumptions C12_std_dst_zero_refuted_samename.
Theorem C12_pytz_path_refuted_samename : exists v t,
  whole_minutes v = true /\ order_ok v = true /\ has_std v = true /\ names_ok v = false /\
  pytz_path v t = Escape (s2l "AssertionError").
Proof. exists samename2_vtz, 1580000000. exact samename2_refutes. Qed.
Print Assumptions C12_pytz_path_refuted_samename.

(* the process-wide cache --------------------------------------------------------------- *)
(* For every provider (two oracles), every Windows-name map, every history of parser events
   [hist] (all events of the calendars parsed earlier in the process, then the part of the own
   calendar above the date-time) starting from the empty cache of a fresh provider:
   a date-time with TZID=id resolves to the provider's zone if the provider resolves the id, and
   otherwise to the FIRST cacheable definition of that (cleaned) id in the whole history;
   None = floating time. *)
Theorem C12_cache_resolution : forall (zone defn : Type) (P : provider zone) windows
    (hist : list (ev defn)) (id : list N),
  resolve zone defn P windows hist id =
  match provider_chain zone P windows id with
  | Some z => Some (RProv z)
  | None => option_map RCustom (first_def zone defn P hist (clean_id id))
  end.
Proof. exact resolution. Qed.
Print Assumptions C12_cache_resolution.

(* [resolve] really is the value the parser model produces for that date-time *)
Theorem C12_cache_resolve_is_run : forall (zone defn : Type) (P : provider zone) windows
    (hist : list (ev defn)) id rest,
  snd (run zone defn P windows [] (hist ++ Use id :: rest)) =
  snd (run zone defn P windows [] hist) ++ resolve zone defn P windows hist id ::
  snd (run zone defn P windows (fst (run zone defn P windows [] hist)) rest).
Proof. exact resolve_is_run. Qed.
Print Assumptions C12_cache_resolve_is_run.

(* exactly when a reference resolves to a given definition d *)
Theorem C12_cache_own_iff : forall (zone defn : Type) (P : provider zone) windows
    (hist : list (ev defn)) id d,
  resolve zone defn P windows hist id = Some (RCustom d) <->
  provider_chain zone P windows id = None /\ first_def zone defn P hist (clean_id id) = Some d.
Proof. exact resolves_own_iff. Qed.
Print Assumptions C12_cache_own_iff.

(* the property's clause holds when: definition above the use, id unknown to the provider, and
   no calendar parsed earlier in the process defined the same id *)
Theorem C12_cache_own_definition : forall (zone defn : Type) (P : provider zone) windows
    (earlier pre mid : list (ev defn)) id d id',
  clean_id id' = clean_id id -> cacheable zone P id = true ->
  provider_chain zone P windows id' = None ->
  first_def zone defn P (earlier ++ pre) (clean_id id) = None ->
  resolve zone defn P windows (earlier ++ pre ++ Def id d :: mid) id' = Some (RCustom d).
Proof. exact own_definition. Qed.
Print Assumptions C12_cache_own_definition.

(* C12-F4 as a theorem: whatever the own calendar says, an earlier definition wins *)
Theorem C12_cache_earlier_wins : forall (zone defn : Type) (P : provider zone) windows
    (earlier own : list (ev defn)) id d0,
  provider_chain zone P windows id = None -> first_def zone defn P earlier (clean_id id) = Some d0 ->
  resolve zone defn P windows (earlier ++ own) id = Some (RCustom d0).
Proof. exact earlier_wins. Qed.
Print Assumptions C12_cache_earlier_wins.

(* C12-F5 as a theorem: no definition above the use -> floating *)
Theorem C12_cache_undefined_floats : forall (zone defn : Type) (P : provider zone) windows
    (hist : list (ev defn)) id,
  provider_chain zone P windows id = None -> first_def zone defn P hist (clean_id id) = None ->
  resolve zone defn P windows hist id = None.
Proof. exact undefined_floats. Qed.
Print Assumptions C12_cache_undefined_floats.

(* "a TZID reference resolves to the definition in its own calendar, whatever was parsed earlier
   and wherever the definition stands" is refuted twice (witnesses confirmed on the code): *)
Theorem C12_cache_history_refuted_redefine :
  snd (run_cals Z Z P0 W0 [] [[Def idZ 1; Use idZ]; [Def idZ 2; Use idZ]])
  = [[Some (RCustom 1)]; [Some (RCustom 1)]].
Proof. exact cache_redefine. Qed.
Print Assumptions C12_cache_history_refuted_redefine.
Theorem C12_cache_history_refuted_late :
  snd (run_cals Z Z P0 W0 [] [[Use idZ; Def idZ 3]; [Use idZ; Def idZ 3]])
  = [[None]; [Some (RCustom 3)]].
Proof. exact cache_late. Qed.
Print Assumptions C12_cache_history_refuted_late.

(* the onsets of the common rule family, computed in the model ------------------------------ *)
(* Model/TzOnsets.v.  A rule [r : yrule] is DTSTART (y_year .. y_sec, wall clock), BYMONTH=y_bymonth,
   BYDAY=<y_n><y_wd> (y_wd: 0 = MO .. 6 = SU), a bound (UNTIL=<utc seconds> | COUNT=k | neither =
   UNTIL 2038-12-31T00:00:00Z, [rule_until]) and TZOFFSETFROM y_from.  [yearly_onsets ylast r] = its
   local onsets (wall-clock seconds since 1970-01-01T00:00:00) among the years y_year r .. ylast.
   [yrule_wf]: DTSTART is a date and a time, 1 <= BYMONTH <= 12, 0 <= weekday <= 6, n <> 0.
   Years range over all of Z (proleptic Gregorian calendar); nothing below is restricted to a
   range of years other than the stated y_year r .. ylast.
   [count_days f a len] = how many of the len days a, a+1, .. satisfy f;
   [same_weekday Y m wd k] = day k of month m of year Y falls on weekday wd. *)

(* (a) every onset: its calendar date (computed back from the number of seconds) lies in BYMONTH of a
   year of the range, its time of day is DTSTART's, it falls on the weekday, and it is the n-th such
   weekday of its month: exactly n-1 earlier days of that month fall on that weekday (n > 0), resp.
   exactly -n-1 later ones (n < 0); and it is not before DTSTART *)
Theorem C12_yearly_onsets_spec : forall ylast r o, yrule_wf r = true -> In o (yearly_onsets ylast r) ->
  exists Y d,
    y_year r <= Y <= ylast /\
    civil_from_days (o / 86400) = (Y, y_bymonth r, d) /\
    o mod 86400 = y_hour r * 3600 + y_min r * 60 + y_sec r /\
    weekday_of_days (o / 86400) = y_wd r /\
    1 <= d <= days_in_month Y (y_bymonth r) /\
    (0 < y_n r -> count_days (same_weekday Y (y_bymonth r) (y_wd r)) 1 (Z.to_nat (d - 1)) = y_n r - 1) /\
    (y_n r < 0 -> count_days (same_weekday Y (y_bymonth r) (y_wd r)) (d + 1)
                    (Z.to_nat (days_in_month Y (y_bymonth r) - d)) = - y_n r - 1) /\
    dtstart_secs r <= o.
Proof. exact yearly_onsets_each. Qed.
Print Assumptions C12_yearly_onsets_spec.

(* (b) strictly increasing, at most one per calendar year (the years increase strictly), none before
   DTSTART, all within the range of years *)
Theorem C12_yearly_onsets_order : forall ylast r, yrule_wf r = true ->
  Sorted.StronglySorted Z.lt (yearly_onsets ylast r) /\
  Sorted.StronglySorted Z.lt (map year_of_secs (yearly_onsets ylast r)) /\
  Forall (fun o => dtstart_secs r <= o /\ y_year r <= year_of_secs o <= ylast) (yearly_onsets ylast r).
Proof. exact yearly_onsets_order. Qed.
Print Assumptions C12_yearly_onsets_order.

(* nothing is left out of the candidates: a year of the range whose month has the n-th weekday, on
   or after DTSTART, contributes it *)
Theorem C12_yearly_candidates_complete : forall ylast r Y d,
  y_year r <= Y <= ylast -> nth_weekday Y (y_bymonth r) (y_n r) (y_wd r) = Some d ->
  dtstart_secs r <= local_secs Y (y_bymonth r) d (y_hour r) (y_min r) (y_sec r) ->
  In (local_secs Y (y_bymonth r) d (y_hour r) (y_min r) (y_sec r)) (candidates ylast r).
Proof. exact candidates_complete. Qed.
Print Assumptions C12_yearly_candidates_complete.

(* (c) UNTIL (or the horizon) is a UTC instant: every onset has onset - TZOFFSETFROM <= UNTIL, the onsets
   are a prefix of the candidates and every remaining candidate violates the bound (in particular
   the next one, if the range contains one) *)
Theorem C12_yearly_onsets_until : forall ylast r u, yrule_wf r = true -> rule_until r = Some u ->
  Forall (fun o => o - y_from r <= u) (yearly_onsets ylast r) /\
  exists rest, candidates ylast r = yearly_onsets ylast r ++ rest /\
               Forall (fun c => u < c - y_from r) rest.
Proof. exact yearly_onsets_until. Qed.
Print Assumptions C12_yearly_onsets_until.

(* ... and the range of years does not matter once it reaches the calendar year of UNTIL + TZOFFSETFROM:
   the onsets are then the instances of ALL years from DTSTART's on that satisfy the bound *)
Theorem C12_yearly_onsets_until_all_years : forall ylast r u o, yrule_wf r = true -> rule_until r = Some u ->
  year_of_secs (u + y_from r) <= ylast ->
  (In o (yearly_onsets ylast r) <->
   (exists Y, y_year r <= Y /\ candidate r Y = Some o) /\ o - y_from r <= u).
Proof. exact yearly_onsets_until_all_years. Qed.
Print Assumptions C12_yearly_onsets_until_all_years.

(* (c) COUNT=k: the first k candidates of the range; min(k, available) of them *)
Theorem C12_yearly_onsets_count : forall ylast r k, y_bound r = YCount k ->
  yearly_onsets ylast r = firstn (Z.to_nat k) (candidates ylast r) /\
  length (yearly_onsets ylast r) = Nat.min (Z.to_nat k) (length (candidates ylast r)).
Proof. exact yearly_onsets_count. Qed.
Print Assumptions C12_yearly_onsets_count.

(* what the dispatcher entry tz_yearly_onsets answers (the harness compares it with
   Timezone._extract_offsets): well-formed rule, the range y_year r .. default_last_year r, DTSTART is
   the first onset, and for UNTIL / unbounded rules exactly the instances of all years within the bound *)
Theorem C12_family_onsets_spec : forall r l, family_onsets r = Some l ->
  yrule_wf r = true /\ l = yearly_onsets (default_last_year r) r /\ hd_error l = Some (dtstart_secs r) /\
  forall u, rule_until r = Some u ->
    forall o, In o l <-> (exists Y, y_year r <= Y /\ candidate r Y = Some o) /\ o - y_from r <= u.
Proof. exact family_onsets_spec. Qed.
Print Assumptions C12_family_onsets_spec.

(* the n-th weekday of a month: what [nth_weekday] returns, that it is the only such day, and that
   it returns nothing only when the month has fewer than |n| days of that weekday *)
Theorem C12_nth_weekday_spec : forall y m n wd d, nth_weekday y m n wd = Some d ->
  1 <= m <= 12 /\ 0 <= wd <= 6 /\ n <> 0 /\ 1 <= d <= days_in_month y m /\ weekday y m d = wd /\
  (0 < n -> count_days (same_weekday y m wd) 1 (Z.to_nat (d - 1)) = n - 1) /\
  (n < 0 -> count_days (same_weekday y m wd) (d + 1) (Z.to_nat (days_in_month y m - d)) = - n - 1).
Proof. exact nth_weekday_sound. Qed.
Print Assumptions C12_nth_weekday_spec.
Theorem C12_nth_weekday_unique : forall y m n wd d,
  1 <= m <= 12 -> 0 <= wd <= 6 -> 1 <= d <= days_in_month y m -> weekday y m d = wd ->
  (0 < n /\ count_days (same_weekday y m wd) 1 (Z.to_nat (d - 1)) = n - 1) \/
  (n < 0 /\ count_days (same_weekday y m wd) (d + 1) (Z.to_nat (days_in_month y m - d)) = - n - 1) ->
  nth_weekday y m n wd = Some d.
Proof. exact nth_weekday_complete. Qed.
Print Assumptions C12_nth_weekday_unique.
Theorem C12_nth_weekday_none : forall y m n wd, nth_weekday y m n wd = None ->
  1 <= m <= 12 -> 0 <= wd <= 6 -> n <> 0 ->
  count_days (same_weekday y m wd) 1 (Z.to_nat (days_in_month y m)) < Z.abs n.
Proof. exact nth_weekday_none. Qed.
Print Assumptions C12_nth_weekday_none.

(* (d) the day-number function, for every year in Z ([valid_md y m d]: 1 <= m <= 12 and
   1 <= d <= days_in_month y m): date -> number -> date and number -> date -> number are identities,
   1970-01-01 is day 0, the date after a date (by month lengths) has the next number and the next
   weekday, and the number agrees with the codec area's model of date.toordinal() *)
Theorem C12_day_number_sound :
  (forall y m d, valid_md y m d -> civil_from_days (days_from_civil y m d) = (y, m, d)) /\
  (forall z, let '(y, m, d) := civil_from_days z in valid_md y m d /\ days_from_civil y m d = z) /\
  days_from_civil 1970 1 1 = 0 /\ weekday 1970 1 1 = 3 /\
  (forall y m d, valid_md y m d ->
     let '(y2, m2, d2) := next_date y m d in
     valid_md y2 m2 d2 /\ days_from_civil y2 m2 d2 = days_from_civil y m d + 1 /\
     weekday y2 m2 d2 = (weekday y m d + 1) mod 7) /\
  (forall y m d, 1 <= m <= 12 -> ordinal y m d = days_from_civil y m d + 719163).
Proof. exact day_number_sound. Qed.
Print Assumptions C12_day_number_sound.

(* the usual European rule.  DAYLIGHT: DTSTART:19810329T020000, TZOFFSETFROM:+0100,
   RRULE:FREQ=YEARLY;BYMONTH=3;BYDAY=-1SU;UNTIL=20250330T010000Z (= the onset of 2025 in UTC);
   STANDARD: DTSTART:19961027T030000, TZOFFSETFROM:+0200, RRULE:FREQ=YEARLY;BYMONTH=10;BYDAY=-1SU *)
Example C12_yearly_onsets_europe :
  yrule_wf ex_eu_dst = true /\ yrule_wf ex_eu_std = true /\
  family_onsets ex_eu_dst = Some ex_eu_dst_onsets /\ family_onsets ex_eu_std = Some ex_eu_std_onsets /\
  default_last_year ex_eu_dst = 2025 /\ default_last_year ex_eu_std = 2038 /\
  length ex_eu_dst_onsets = 45%nat /\ length ex_eu_std_onsets = 43%nat /\
  firstn 2 ex_eu_dst_onsets = [354679200; 386128800] /\ last ex_eu_dst_onsets 0 = 1743300000 /\
  dtstart_secs ex_eu_dst = 354679200 /\ 1743300000 - y_from ex_eu_dst = 1743296400 /\
  last (yearly_onsets 2025 (mkYrule 1981 3 29 2 0 0 3 (-1) 6 (YUntil 1743296399) 3600)) 0 = 1711850400 /\
  hd 0 ex_eu_std_onsets = 846385200 /\ last ex_eu_std_onsets 0 = 2172106800 /\ horizon = 2177366400 /\
  civil_from_days (2172106800 / 86400) = (2038, 10, 31) /\ weekday 2038 10 31 = 6 /\
  nth_weekday 2038 10 (-1) 6 = Some 31 /\ nth_weekday 2024 2 5 3 = Some 29 /\ nth_weekday 2023 2 5 3 = None.
Proof. exact ex_eu_ok. Qed.
Print Assumptions C12_yearly_onsets_europe.
