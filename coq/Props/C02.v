(* C02 -- a calendar built through the API survives serialise and parse intact.  Statements only.
   [api_build ops] is the property mapping after any sequence of Component.add / item-assignment calls
   with already encoded values ([NOne v] a single value, [NMany l] a list); [supplied k ops []] the values
   supplied for name k in supply order.  Typed values are (class, parameters, wire text); that each value
   codec is lossless is C03/C07/C19 and enters as [value_ok] (see C01). *)
Require Import Lib.Base Lib.Chain Gen.Gen_parser Gen.Gen_cal Model.Text Model.Params Model.Contentline Model.Sort Model.Tree Model.Api.
Require Import Proofs.TreeProofs Proofs.ApiProofs.
From Coq Require Import String.

(* per name, the stored values are exactly the supplied ones in supply order, for EVERY call sequence *)
Theorem C02_build_values : forall k ops, props_values (api_build ops) k = supplied k ops [].
Proof. exact api_build_values. Qed.
Print Assumptions C02_build_values.

(* round trip: same nesting, names, per-name value order, parameters and typed values *)
Theorem C02_roundtrip : forall dec sorted multiple n ops subs text,
  name_ok n = true -> forallb (op_ok dec sorted) ops = true -> forallb (tree_ok dec sorted) subs = true ->
  ser sorted (Comp n (api_build ops) subs []) = Ok text ->
  parse dec [] multiple text = Ok [norm sorted (Comp n (api_build ops) subs [])].
Proof. exact api_roundtrip. Qed.
Print Assumptions C02_roundtrip.

(* every property name of RFC 5545 sections 3.7-3.8 is decoded with the value type the RFC assigns to it
   (hand-written RFC table against the types_map regenerated from prop.py) *)
Theorem C02_types_rfc :
  forallb (fun p : string * string =>
             implements (type_key (s2l (fst p))) (s2l (snd p))
             && match class_name_of_key (type_key (s2l (fst p))) with Some _ => true | None => false end) rfc5545_types = true.
Proof. exact types_rfc. Qed.
Print Assumptions C02_types_rfc.

(* VALUE: a single DATE / DATE-TIME value of any DATE-TIME property carries VALUE exactly when it is not the default *)
Theorem C02_value_tag : forall name k, type_key name = s2l "date-time" -> is_dt_kind k = true ->
  value_param_ok name (rendered_type k) (ddd_params k) = true.
Proof. exact value_tag_single. Qed.
Print Assumptions C02_value_tag.
(* TZID: a zoned value carries its own zone id; a list whose entries share one zone carries that id *)
Theorem C02_tzid_tag : forall z, dict_get (s2l "TZID") (ddd_params (KZoned z)) = Some (PStr z).
Proof. exact tzid_tag_single. Qed.
Theorem C02_tzid_list : forall z ks, ks <> [] -> Forall (fun k => k = KZoned z) ks -> dddlist_params ks = [(s2l "TZID", PStr z)].
Proof. exact tzid_list_same. Qed.
Print Assumptions C02_tzid_list.

(* known findings C02-F1..F3 *)
Theorem C02_value_tag_trigger_refuted : value_param_ok (s2l "TRIGGER") (rendered_type KUtc) (ddd_params KUtc) = false.
Proof. exact value_tag_trigger_refuted. Qed.
Theorem C02_value_tag_rdate_refuted :
  value_param_ok (s2l "RDATE") (rendered_type KDate) (dddlist_params [KDate; KDate]) = false /\
  value_param_ok (s2l "RDATE") (rendered_type KPeriod) (dddlist_params [KPeriod]) = false.
Proof. exact value_tag_rdate_refuted. Qed.
Theorem C02_tzid_list_mixed_refuted : dddlist_params [KZoned (s2l "A/a"); KZoned (s2l "B/b")] = [(s2l "TZID", PStr (s2l "B/b"))].
Proof. exact tzid_list_mixed_refuted. Qed.

Example C02_nonvacuous :
  let t s := {| v_class := s2l "vText"; v_params := []; v_text := s |} in
  let ops := [OpAdd (s2l "comment") (NOne (t (s2l "a"))); OpAdd (s2l "summary") (NOne (t (s2l "s")));
              OpAdd (s2l "COMMENT") (NMany [t (s2l "b"); t (s2l "c")]); OpSet (s2l "Summary") (NOne (t (s2l "s2")))] in
  forallb (op_ok dec_basic true) ops = true /\
  map v_text (props_values (api_build ops) (s2l "COMMENT")) = [s2l "a"; s2l "b"; s2l "c"] /\
  map v_text (props_values (api_build ops) (s2l "SUMMARY")) = [s2l "s2"].
Proof. vm_compute. repeat split; reflexivity. Qed.
