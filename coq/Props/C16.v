(* C16 -- Start/end/duration of events and todos obey the RFC rules after any edit history.
   Statements only.  Model: Model/StartEnd.v.  A component state is the three stored entries
   DTSTART, DTEND (Event) | DUE (Todo), DURATION, each [Absent], [One v] (v a date / naive /
   UTC / zoned date-time, a timedelta, or another object) or [Many] (a list, as made by add or
   by repeated lines).  Operations: the setters and deleters of DTSTART, DTEND|DUE, DURATION,
   start, end, and add.  [o] is the zone oracle (offset functions of arbitrary zones); every
   statement holds for every oracle, every history and every state. *)
Require Import Lib.Base Model.Params Gen.Gen_sched Model.StartEnd Proofs.StartEndProofs.
From Coq Require Import ZArith.
Local Open Scope Z_scope.

(* after ANY history of setters and deleters (None assignments and rejected wrong-typed
   arguments included) starting from the empty component, the end property and DURATION are
   never both present; the exclusive tuples are the ones generated from cal.py *)
Theorem C16_exclusive_inv : forall k ops, no_add ops = true ->
  let c := run k ops empty_comp in
  (present (c_end c) && present (c_dur c)) = false.
Proof. exact exclusive_inv. Qed.
Print Assumptions C16_exclusive_inv.

(* ... and every entry is absent or a single value of the right type *)
Theorem C16_setters_wellformed : forall k ops, no_add ops = true ->
  let c := run k ops empty_comp in
  malformed_time (c_start c) = false /\ malformed_time (c_end c) = false /\ malformed_dur (c_dur c) = false.
Proof. exact setters_wellformed. Qed.
Print Assumptions C16_setters_wellformed.

(* the restriction to setters/deleters is needed: Component.add can create the forbidden pair
   (that state is then reported by InvalidCalendar, see C16_getters_forbidden) *)
Theorem C16_exclusive_needs_no_add : exists k ops,
  let c := run k ops empty_comp in (present (c_end c) && present (c_dur c)) = true.
Proof. exact exclusive_needs_no_add. Qed.
Print Assumptions C16_exclusive_needs_no_add.

(* every operation's effect on the three entries, for both component kinds *)
Theorem C16_step_effect : forall k c op, fst (step k c op) = step_result c op.
Proof. exact step_char. Qed.
Print Assumptions C16_step_effect.

(* getters, for EVERY state (also those made by add or by parsing).
   [forbidden c]: what RFC 5545 forbids -- a repeated or wrongly typed entry, both the end
   property and DURATION, DTSTART and the end property of different value types, a DATE start
   with a DURATION that is not whole days.  Those states raise InvalidCalendar from start, end
   and duration alike. *)
Theorem C16_getters_forbidden : forall o k c, dur_typed c = true -> forbidden c = true ->
  get_start k c = SVal InvalidCal /\ get_end k c = SVal InvalidCal /\ get_dur o k c = SVal InvalidCal.
Proof. exact forbidden_invalid. Qed.
Print Assumptions C16_getters_forbidden.

(* every other state: start is DTSTART or IncompleteComponent; end is the end property, else
   start + DURATION, else the default (start + 1 day for a date, the start itself for a
   date-time), IncompleteComponent only when the start is needed and missing; duration is
   end - start: exactly DURATION when DURATION is set, 1 day / 0 for the defaults, and defined
   for an explicit end unless one side is floating and the other is not *)
Theorem C16_getters_spec : forall o k c, dur_typed c = true -> forbidden c = false ->
  get_start k c = match st_time (c_start c) with Some s => SOk s | None => SVal IncompleteComp end
  /\ get_end k c = match st_time (c_end c), st_delta (c_dur c), st_time (c_start c) with
                   | Some e, _, _ => SOk e
                   | None, Some td, Some s => SOk (tadd s td)
                   | None, None, Some s => SOk (if is_date s then tadd s 86400 else s)
                   | None, _, None => SVal IncompleteComp
                   end
  /\ match st_time (c_start c) with
     | None => get_dur o k c = SVal IncompleteComp
     | Some s =>
         match st_time (c_end c), st_delta (c_dur c) with
         | Some e, _ => get_dur o k c = tsub o e s /\ (tz_mix s e = false -> exists x, tsub o e s = SOk x)
         | None, Some td => get_dur o k c = SOk td
         | None, None => get_dur o k c = SOk (if is_date s then 86400 else 0)
         end
     end.
Proof. exact allowed_getters. Qed.
Print Assumptions C16_getters_spec.

(* whenever the three are defined, end - start = duration *)
Theorem C16_end_minus_start : forall o k c s e d,
  get_start k c = SOk s -> get_end k c = SOk e -> get_dur o k c = SOk d -> tsub o e s = SOk d.
Proof. exact end_minus_start. Qed.
Print Assumptions C16_end_minus_start.

(* the only errors are InvalidCalendar and IncompleteComponent *)
Theorem C16_only_documented_errors : forall o k c, dur_typed c = true -> tz_consistent c = true ->
  doc_err (get_start k c) = true /\ doc_err (get_end k c) = true /\ doc_err (get_dur o k c) = true.
Proof. exact only_documented_errors. Qed.
Print Assumptions C16_only_documented_errors.

(* Journal: end = start = DTSTART, duration 0 *)
Theorem C16_journal : forall e,
  journal_end e = journal_start e /\ journal_duration e = SOk 0 /\
  journal_start e = match e with
                    | Absent => SVal IncompleteComp
                    | One (VTime t) => SOk t
                    | _ => SVal InvalidCal
                    end.
Proof. exact journal_spec. Qed.
Print Assumptions C16_journal.

(* outside the guards the property fails -- the known findings *)
(* C16-F1: a zoned start with a floating end is not forbidden by the checks, and duration raises TypeError *)
Theorem C16_duration_mix_refuted : exists o k c,
  forbidden c = false /\ dur_typed c = true /\ tz_consistent c = false /\ get_dur o k c = SEsc TypeErr.
Proof. exact duration_mix_refuted. Qed.
Print Assumptions C16_duration_mix_refuted.
(* C16-F2: a DURATION entry whose value is a date: end raises TypeError, and with a date start
   even start raises AttributeError *)
Theorem C16_duration_value_refuted : exists k c1 c2,
  dur_typed c1 = false /\ get_end k c1 = SEsc TypeErr /\
  dur_typed c2 = false /\ get_start k c2 = SEsc AttributeErr.
Proof. exact duration_value_refuted. Qed.
Print Assumptions C16_duration_value_refuted.

(* non-vacuity: a history that changes all three entries ends in an allowed state inside both
   guards whose getters are all defined; the start is zoned and the DURATION crosses a day *)
Example C16_nonvacuous :
  let z := {| zid := 1; zfix := None |} in
  let ops := [SetDURATION (AVal (VDelta 3600)); SetEnd (AVal (VTime (Date 5)));
              SetStart (AVal (VTime (Zoned z 36000))); SetEND (AVal (VTime (Naive 7)));
              AddDURATION VOther; DelDURATION; SetDURATION (AVal (VDelta 90000))] in
  let c := run KEvent ops empty_comp in
  c = {| c_start := One (VTime (Zoned z 36000)); c_end := Absent; c_dur := One (VDelta 90000) |}
  /\ forbidden c = false /\ dur_typed c = true /\ tz_consistent c = true
  /\ get_end KEvent c = SOk (Zoned z 126000) /\ get_dur const_oracle KEvent c = SOk 90000.
Proof. vm_compute. repeat split; reflexivity. Qed.
Print Assumptions C16_nonvacuous.
