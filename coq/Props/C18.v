(* C18 -- used-timezone discovery is complete; adding missing time zones closes it.  Statements only.
   [used_tzids t] is what Calendar.get_used_tzids collects (before de-duplication), [all_tzids t] the
   TZID parameters of every value of every property of every nested component; [missing_set],
   [add_missing gen order] model get_missing_tzids / add_missing_timezones with the provider
   ([gen] = Timezone.from_tzid, None for unknown ids) and the iteration order of the Python set as
   explicit parameters. *)
Require Import Lib.Base Lib.Chain Gen.Gen_parser Gen.Gen_cal Model.Text Model.Params Model.Contentline Model.Tree Model.TreeOps Model.UsedTz.
Require Import Proofs.TreeProofs Proofs.UsedTzProofs.
From Coq Require Import Permutation.

(* completeness: for every tree whose property names are distinct (a dict) *)
Theorem C18_used_complete : forall t, tree_nodup t = true -> used_tzids t = all_tzids t.
Proof. exact used_complete. Qed.
Print Assumptions C18_used_complete.

(* the missing set is the used ids that no VTIMEZONE defines -- whatever VTIMEZONEs are present
   (unused, repeated), provided each has a single TZID *)
Theorem C18_missing_spec : forall t used names,
  used_set t = Ok used -> Forall2 (fun tz n => tz_name tz = Ok n) (timezones t) names ->
  missing_set t = Ok (filter (fun y => negb (mem_str y names)) used).
Proof. exact missing_spec. Qed.
Print Assumptions C18_missing_spec.

(* after add_missing_timezones, for every provider and every iteration order of the set: the used ids
   are unchanged; the ids still missing are exactly those the provider does not know *)
Theorem C18_add_missing_closes : forall gen order,
  (forall z tz, gen z = Some tz -> tz_name tz = Ok z /\ used_tzids tz = [] /\ timezones tz = [tz]) ->
  (forall l, Permutation (order l) l) ->
  forall t ms t', str_eqb (c_name t) (s2l "VTIMEZONE") = false ->
  missing_set t = Ok ms -> add_missing gen order t = Ok t' ->
  used_tzids t' = used_tzids t /\
  missing_set t' = Ok (filter (fun y => negb (mem_str y (known gen (order ms)))) ms).
Proof. intros gen order Hgen _. exact (add_missing_spec gen order Hgen). Qed.
Print Assumptions C18_add_missing_closes.

(* repeating the call adds nothing *)
Theorem C18_add_missing_idempotent : forall gen order,
  (forall z tz, gen z = Some tz -> tz_name tz = Ok z /\ used_tzids tz = [] /\ timezones tz = [tz]) ->
  (forall l, Permutation (order l) l) ->
  forall t ms t', str_eqb (c_name t) (s2l "VTIMEZONE") = false ->
  missing_set t = Ok ms -> add_missing gen order t = Ok t' -> add_missing gen order t' = Ok t'.
Proof. exact add_missing_idempotent. Qed.
Print Assumptions C18_add_missing_idempotent.

(* known finding C18-F1: a VTIMEZONE without TZID makes the queries fail with KeyError *)
Theorem C18_missing_refuted_notzid : exists t, missing_set t = Escape (s2l "KeyError").
Proof. exact missing_refuted_notzid. Qed.

Example C18_nonvacuous :
  let z s := {| v_class := s2l "vDDDTypes"; v_params := [(s2l "TZID", PStr s)]; v_text := s2l "20200102T100000" |} in
  let tzc s := Comp (s2l "VTIMEZONE") [(s2l "TZID", One {| v_class := s2l "vText"; v_params := []; v_text := s |})] [] [] in
  let t := Comp (s2l "VCALENDAR") []
             [Comp (s2l "VEVENT") [(s2l "DTSTART", One (z (s2l "Europe/Berlin"))); (s2l "RDATE", Many [z (s2l "Asia/Tokyo"); z (s2l "Europe/Berlin")])]
                   [Comp (s2l "VALARM") [(s2l "TRIGGER", One (z (s2l "X/Unknown")))] [] []] [];
              tzc (s2l "Asia/Tokyo"); tzc (s2l "Unused/Zone")] [] in
  let gen s := if str_eqb s (s2l "X/Unknown") then None else Some (tzc s) in
  used_set t = Ok [s2l "Asia/Tokyo"; s2l "Europe/Berlin"; s2l "X/Unknown"] /\
  missing_set t = Ok [s2l "Europe/Berlin"; s2l "X/Unknown"] /\
  match add_missing gen (fun l => rev l) t with Ok t' => missing_set t' | _ => Unsup end = Ok [s2l "X/Unknown"].
Proof. vm_compute. repeat split; reflexivity. Qed.
