(* C20 -- traversal is complete; equality is an order-insensitive equivalence.  Statements only.
   [walk name t] is Component.walk (the query is upper-cased and compared with the stored name),
   [preorder t] the pre-order list of all nested components, [paths t] all child-index paths.
   [comp_eq veq a b] is Component.__eq__ as written over a value-equality oracle [veq] (every
   value class has its own __eq__). *)
Require Import Lib.Base Gen.Gen_parser Gen.Gen_cal Model.Params Model.Contentline Model.Tree Model.TreeOps.
Require Import Proofs.WalkEqProofs Proofs.NameCaseProofs.
From Coq Require Import Permutation.

Theorem C20_walk_preorder : forall t, walk None t = preorder t.
Proof. exact walk_preorder. Qed.
Print Assumptions C20_walk_preorder.

(* restricted to a name: exactly the components of the pre-order list with that (upper-cased) name *)
Theorem C20_walk_name : forall q t,
  walk (Some q) t = filter (fun c => str_eqb (c_name c) (upper q)) (preorder t).
Proof. exact walk_name. Qed.
Print Assumptions C20_walk_name.

(* every nested component exactly once: the pre-order list is the list of the components at all
   valid paths, and no path occurs twice *)
Theorem C20_preorder_paths : forall t, map (get_path t) (paths t) = map Some (preorder t).
Proof. exact preorder_paths. Qed.
Print Assumptions C20_preorder_paths.
Theorem C20_paths_nodup : forall t, NoDup (paths t).
Proof. exact paths_nodup. Qed.
Print Assumptions C20_paths_nodup.

(* equality: reflexive; insensitive to the order of subcomponents and to the insertion order of
   properties (for every reflexive value equality, every tree whose property names are distinct) *)
Theorem C20_eq_refl : forall veq, (forall v, veq v v = true) -> forall t, tree_dict t -> comp_eq veq t t = true.
Proof. exact comp_eq_refl. Qed.
Print Assumptions C20_eq_refl.

Theorem C20_eq_perm : forall veq, (forall v, veq v v = true) -> forall n n' pa pb sa sb ea eb,
  tree_dict (Comp n pa sa ea) -> NoDup (map fst pb) -> Permutation pa pb -> Permutation sa sb ->
  comp_eq veq (Comp n pa sa ea) (Comp n' pb sb eb) = true.
Proof. exact comp_eq_perm. Qed.
Print Assumptions C20_eq_perm.

(* equal components have the same number of subcomponents and, name by name, equal values *)
Theorem C20_eq_sensitive : forall veq a b k e, comp_eq veq a b = true -> In (k, e) (c_props a) ->
  length (c_subs a) = length (c_subs b) /\
  exists e', dict_get k (c_props b) = Some e' /\ entry_eq veq e e' = true.
Proof.
  intros veq a b k e H Hin. destruct (comp_eq_props veq a b H) as [Hp Hl]. split; [exact Hl|].
  exact (props_eq_value veq _ _ k e Hp Hin).
Qed.
Print Assumptions C20_eq_sensitive.

(* known findings: the component kind is ignored; the subcomponent test is one-directional *)
Theorem C20_eq_kind_refuted : comp_eq veq_text (Comp (s2l "VEVENT") [] [] []) (Comp (s2l "VTODO") [] [] []) = true.
Proof. exact eq_kind_refuted. Qed.
(* finding C20-F8: a name the caller spelled in lower or mixed case is written as spelled and read back in upper
   case: the serialise-and-parse copy is equal both ways (names are not compared, C20-F3) but serialises to other text *)
Theorem C20_reparse_name_case_refuted :
  exists t text t' text',
    ser true t = Ok text /\ parse dec_basic [] false text = Ok [t'] /\
    comp_eq veq_text t t' = true /\ comp_eq veq_text t' t = true /\
    ser true t' = Ok text' /\ text' <> text.
Proof. exact name_case_refuted. Qed.
Print Assumptions C20_reparse_name_case_refuted.
Theorem C20_eq_asym_refuted : exists a b, comp_eq veq_text a b = true /\ comp_eq veq_text b a = false.
Proof. exact eq_asym_refuted. Qed.

Example C20_nonvacuous :
  let t := Comp (s2l "VCALENDAR") [] [leaf (s2l "VEVENT") (s2l "a"); Comp (s2l "VTODO") [] [leaf (s2l "VALARM") (s2l "b")] []] [] in
  map c_name (walk None t) = [s2l "VCALENDAR"; s2l "VEVENT"; s2l "VTODO"; s2l "VALARM"] /\
  paths t = [[]; [0]; [1]; [1; 0]]%nat /\ map c_name (walk (Some (s2l "valarm")) t) = [s2l "VALARM"].
Proof. vm_compute. repeat split; reflexivity. Qed.
