(* C08 -- parameters.  Statements only (grown as proofs are added). *)
Require Import Lib.Base Gen.Gen_parser Model.Params.
