(* C08 -- parameters round-trip with correct quoting, list arity, caseless names.  Statements only.
   A parameter map is an insertion-ordered list of (name, value) with value a string or a list of
   strings (Model/Params.v).  [wf_params]: names are RFC tokens in ANY letter case, pairwise
   different after upper-casing; values contain no control characters (DQUOTE is allowed: it
   comes back as an apostrophe, which is what [canon_params] says).  [canon_params] upper-cases
   the names and identifies an empty / one-element list with the bare string (identical wire
   text). *)
Require Import Lib.Base Lib.Chain Gen.Gen_parser Model.Text Model.Params Model.Fold Model.Contentline.
Require Import Proofs.ParamsProofs Proofs.ContentlineProofs.

(* Parameters.from_ical(Parameters(ps).to_ical(sorted)) for EVERY well-formed map, both sort flags *)
Theorem C08_params_rt : forall sorted ps, wf_params ps = true ->
  params_from_ical (params_to_ical sorted ps) = Ok (canon_params (order_params sorted ps)).
Proof. exact params_rt. Qed.
Print Assumptions C08_params_rt.

(* every emitted value that contains , : or ; is inside double quotes and contains no DQUOTE *)
Theorem C08_params_quoted : forall v,
  existsb (fun c => (c =? 44) || (c =? 58) || (c =? 59)) (dquote v) = true ->
  dquote v = 34 :: dq_clean v ++ [34] /\ no_chr 34 (dq_clean v) = true.
Proof. exact params_quoted. Qed.
Print Assumptions C08_params_quoted.

(* the quote-aware splitter inverts the quote-aware joiner on every list of rendered values *)
Theorem C08_q_split_join : forall vs, vs <> [] ->
  q_split (q_join vs) 44 None = qs_norm (map dquote vs).
Proof.
  intros vs Hne. unfold q_join. rewrite q_split_none.
  apply q_split_join; [discriminate|destruct vs; [congruence|discriminate]|].
  apply Forall_forall. intros p Hp. apply in_map_iff in Hp. destruct Hp as (v & <- & _).
  apply dquote_walk; [exact quotable_44|discriminate].
Qed.
Print Assumptions C08_q_split_join.

(* the same through a content line, for every property name and EVERY value text, provided the
   rendered parameter section has no backslash-delimiter pair and no value contains placeholder
   text (outside this guard: finding C08-F1 / C05-F1) *)
Theorem C08_params_line_rt : forall name ps sorted v line,
  is_token name = true -> wf_params ps = true ->
  head_safe name ps sorted = true -> params_unesc_safe ps = true ->
  from_parts name ps sorted v = Ok line ->
  exists v', parts line = Ok (name, canon_params (order_params sorted ps), v').
Proof.
  intros name ps sorted v line H1 H2 H3 H4 H5. exists (line_value_path v).
  exact (parts_from_parts name ps sorted v line H1 H2 H3 H4 H5).
Qed.
Print Assumptions C08_params_line_rt.

(* obligations on the generated character classes *)
Theorem C08_tables :
  ranges_within UNSAFE_CHAR_ranges (QUNSAFE_CHAR_ranges ++ QUOTABLE_ranges) = true /\
  forallb (in_ranges QUOTABLE_ranges) [44; 58; 59] = true /\ in_ranges QUNSAFE_CHAR_ranges 34 = true.
Proof. exact (conj unsafe_within (conj quotable_delims qunsafe_dquote)). Qed.

(* outside the line guard: a value ending in a backslash is not read back (known finding C08-F1) *)
Theorem C08_line_refuted : exists name ps v line,
  is_token name = true /\ wf_params ps = true /\ from_parts name ps true v = Ok line /\
  parts line <> Ok (name, canon_params ps, v).
Proof.
  exists (s2l "ATTENDEE"), [(s2l "CN", PStr [97; 92])], (s2l "x"). eexists.
  split; [reflexivity|]. split; [reflexivity|]. split; [reflexivity|]. vm_compute. discriminate.
Qed.

(* non-vacuity (the implementation stores names upper-cased, see C17; the model sorts the names as
   given, so the lower-case "cn" is rendered last here): a map with mixed-case names, quoted and unquoted values, a list, an empty value,
   a DQUOTE, a backslash and a percent sign inside the guards *)
Example C08_nonvacuous :
  let ps := [(s2l "cn", PStr (s2l "Doe, John")); (s2l "X-a.b", PList [s2l "a;b"; s2l "c:d"; []]);
             (s2l "ROLE", PStr []); (s2l "Q", PStr [34; 120; 92; 110; 37]) ] in
  wf_params ps = true /\ head_safe (s2l "ATTENDEE") ps true = true /\ params_unesc_safe ps = true /\
  params_from_ical (params_to_ical true ps) =
    Ok [(s2l "Q", PStr [39; 120; 92; 110; 37]); (s2l "ROLE", PStr []);
        (s2l "X-A.B", PList [s2l "a;b"; s2l "c:d"; []]); (s2l "CN", PStr (s2l "Doe, John"))].
Proof. vm_compute. repeat split; reflexivity. Qed.
