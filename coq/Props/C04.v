(* C04 -- parsing is total: a result or ValueError; VEVENT isolates bad property lines.  Statements only.
   [tame r] : r is a value, ValueError, or "model declines" (non-ASCII names) -- never another
   exception class.  The value decoders and the time-zone cache call are universally quantified
   oracles: the theorems hold for EVERY behaviour of them that is itself tame; which real calls are
   not tame is what the known findings of C04 list. *)
Require Import Lib.Base Lib.Chain Gen.Gen_parser Gen.Gen_cal Model.Text Model.Params Model.Fold Model.Contentline Model.Sort Model.Tree.
Require Import Proofs.TotalProofs.

(* for EVERY input text, single or multiple mode *)
Theorem C04_parse_total : forall dec, (forall k v t, tame (dec k v t)) ->
  forall cache0 multiple text, cache_tame cache0 -> tame (parse dec cache0 multiple text).
Proof. exact parse_total. Qed.
Print Assumptions C04_parse_total.

(* splitting a line never raises anything but ValueError *)
Theorem C04_parts_total : forall line, tame (parts line).
Proof. exact tame_parts. Qed.
Print Assumptions C04_parts_total.

(* every property name selects a registered value class (generated tables): no KeyError *)
Theorem C04_class_total : forall name, class_name_of_key (type_key name) <> None.
Proof. exact class_of_any_name. Qed.
Print Assumptions C04_class_total.

(* isolation: a line that adds an error entry to a lenient component (see the two lemmas below) can be
   dropped from the input without changing anything else: same exception if any, otherwise the same
   components, properties, values and nesting, and exactly one recorded error less *)
Theorem C04_isolation : forall dec s0 pre l post s s',
  run_prefix dec s0 pre = inl s -> step dec s l = Next s' -> sim s s' -> scount s' = S (scount s) ->
  match run_lines dec s0 (pre ++ l :: post), run_lines dec s0 (pre ++ post) with
  | Ok a, Ok b => map cstrip (done a) = map cstrip (done b) /\ map fstrip (stack a) = map fstrip (stack b)
                  /\ scount a = S (scount b)
  | ValueErr, ValueErr => True
  | Escape k, Escape k' => k = k'
  | Unsup, Unsup => True
  | _, _ => False
  end.
Proof. exact isolation. Qed.
Print Assumptions C04_isolation.

(* the two kinds of bad line meet the hypotheses of C04_isolation inside a lenient component *)
Theorem C04_bad_line : forall dec s f r l, parts l = ValueErr -> stack s = f :: r -> ignores (f_name f) = true ->
  exists s', step dec s l = Next s' /\ sim s s' /\ scount s' = S (scount s).
Proof. exact bad_line_step. Qed.
Print Assumptions C04_bad_line.
Theorem C04_bad_value : forall dec s f r l name ps vals cls, parts l = Ok (name, ps, vals) ->
  str_is (upper name) "BEGIN" = false -> str_is (upper name) "END" = false ->
  stack s = f :: r -> ignores (f_name f) = true -> class_name_of_key (type_key name) = Some cls ->
  decode_line dec name ps vals = ValueErr ->
  exists s', step dec s l = Next s' /\ sim s s' /\ scount s' = S (scount s).
Proof. exact bad_value_step. Qed.
Print Assumptions C04_bad_value.

(* outside lenient components the same line makes the parse fail with ValueError *)
Theorem C04_strict : forall dec s0 pre l post s,
  run_prefix dec s0 pre = inl s -> parts l = ValueErr ->
  match stack s with f :: _ => ignores (f_name f) = false | [] => True end ->
  run_lines dec s0 (pre ++ l :: post) = ValueErr.
Proof. exact strict_fails. Qed.
Print Assumptions C04_strict.

(* only VEVENT is lenient (table regenerated from cal.py) *)
Theorem C04_lenient_classes : map (fun c => cc_name c) (filter (fun c => cc_ignore c) component_classes) = [s2l "VEVENT"].
Proof. exact lenient_classes. Qed.

Example C04_nonvacuous :
  let good := [s2l "BEGIN:VEVENT"; s2l "SUMMARY:x"; s2l "END:VEVENT"] in
  let bad := [s2l "BEGIN:VEVENT"; s2l "SUMMARY:x"; s2l "no colon here"; s2l "END:VEVENT"] in
  match run_lines dec_basic {| stack := []; done := []; cache := [] |} bad,
        run_lines dec_basic {| stack := []; done := []; cache := [] |} good with
  | Ok a, Ok b => map cstrip (done a) = map cstrip (done b) /\ scount a = 1%nat /\ scount b = 0%nat
  | _, _ => False
  end /\ run_lines dec_basic {| stack := []; done := []; cache := [] |} [s2l "BEGIN:VTODO"; s2l "no colon here"; s2l "END:VTODO"] = ValueErr.
Proof. vm_compute. repeat split; reflexivity. Qed.
