(* C19 -- recurrence rules round-trip all parts, FREQ first.  Statements only.

   A rule is what the caller passes to vRecur: items (name in any letter case, scalar or list of
   values); [recur_new items] is the stored CaselessDict content (C17), [recur_to_ical] /
   [recur_from_ical] model vRecur.to_ical / from_ical with the canonical part order and the
   part -> value class table REGENERATED from prop.py (Gen/Gen_recur.v).  [canon_rule d] is the
   supplied rule in canonical form: upper-case names in canonical order, every value list with
   the typed values (frequencies and weekdays upper-cased, BYMONTH as month+leap flag).
   [rule_ok d]: every name is one of the generated canonical_order, every part has at least one
   value and every value satisfies [val_ok] (its own class accepts it and its text decodes back:
   a decidable condition on ONE value, see Model/Recur.v).
   [recur_grammar] is the RECUR recogniser written from the ABNF, [rfc_rule_ok] the boolean RFC
   value domain under which [C19_recur_grammar] proves acceptance of the written text for ALL rules
   (proofs in Proofs/RecurGrammarProofs.v). *)
Require Import Lib.Base Gen.Gen_recur Model.Params Model.Sort Model.Caseless Model.Recur
        Proofs.CaselessProofs Proofs.RecurProofs Proofs.RecurGrammarProofs.

(* decoding the encoded text yields every part with the same typed values in canonical order,
   and encoding that again gives the same text -- for ALL rules with any number of parts, any
   spelling of the names, scalar or list values *)
Theorem C19_recur_rt : forall items : list (key * rvals),
  let d := recur_new items in
  rule_ok d = true ->
  exists txt, recur_to_ical d = Ok txt
           /\ recur_from_ical txt = Ok (canon_rule d)
           /\ recur_to_ical (canon_rule d) = Ok txt.
Proof.
  intros items d Hok.
  destruct (recur_roundtrip d (recur_new_nodup items) Hok) as [txt [H1 H2]].
  exists txt. split; [exact H1|]. split; [exact H2|].
  rewrite (recur_canon_same_text d (recur_new_nodup items) Hok). exact H1.
Qed.
Print Assumptions C19_recur_rt.

(* FREQ is the first part, or the second after RSCALE: from the generated canonical order *)
Theorem C19_freq_first : forall items : list (key * rvals),
  let d := recur_new items in
  In (s2l "FREQ") (keys d) ->
  exists rest, canonsort_keys (keys d) recur_canonical_order = s2l "FREQ" :: rest
            \/ canonsort_keys (keys d) recur_canonical_order = s2l "RSCALE" :: s2l "FREQ" :: rest.
Proof. intros items d H. apply freq_first_keys; [apply recur_new_nodup|exact H]. Qed.
Print Assumptions C19_freq_first.

(* the finite table behind it *)
Theorem C19_canonical_order_head : exists rest,
  recur_canonical_order = s2l "RSCALE" :: s2l "FREQ" :: rest
  /\ mem_str (s2l "FREQ") rest = false /\ mem_str (s2l "RSCALE") rest = false.
Proof. exact order_head. Qed.
Print Assumptions C19_canonical_order_head.

(* any function of the decoded parts -- in particular any recurrence expander -- gives the same
   result on the rule read back from the text as on the rule the caller supplied *)
Theorem C19_recur_any_expander : forall (A : Type) (expand : rdict -> A) (items : list (key * rvals)),
  let d := recur_new items in
  rule_ok d = true ->
  exists txt d', recur_to_ical d = Ok txt /\ recur_from_ical txt = Ok d'
              /\ expand d' = expand (canon_rule d).
Proof.
  intros A expand items d Hok.
  destruct (recur_roundtrip d (recur_new_nodup items) Hok) as [txt [H1 H2]].
  exists txt, (canon_rule d). repeat split; assumption.
Qed.
Print Assumptions C19_recur_any_expander.

(* non-vacuity: a rule with names in mixed case, a doubled name, RSCALE/SKIP, leap month, ordinal
   weekdays, UTC UNTIL is in the domain; its text is accepted by the RECUR recogniser *)
Local Notation "'K' s" := (KStr (s2l s)) (at level 9).
Local Notation "'S' s" := (RStr (s2l s)) (at level 9).
Example C19_nonvacuous :
  let d := recur_new [(K"byday", Many [S"mo"; S"-1su"; S"+2FR"]); (K"Freq", One (S"weekly"));
                      (K"until", One (RDateTime 2025 1 31 23 59 59 true)); (K"BYMONTH", Many [RInt 1; RMonth 5 true]);
                      (K"rscale", One (S"CHINESE")); (K"SKIP", One (S"FORWARD")); (K"bysetpos", Many [RInt (-1); RInt 366]);
                      (K"FREQ", One (S"Monthly")); (K"wkst", One (S"su"))] in
  rule_ok d = true /\ rfc_rule_ok d = true
  /\ recur_to_ical d = Ok (s2l "RSCALE=CHINESE;FREQ=MONTHLY;UNTIL=20250131T235959Z;BYDAY=MO,-1SU,+2FR;BYMONTH=1,5L;BYSETPOS=-1,366;WKST=SU;SKIP=FORWARD")
  /\ match recur_to_ical d with Ok txt => recur_grammar txt | _ => false end = true.
Proof. vm_compute. repeat split; reflexivity. Qed.
Print Assumptions C19_nonvacuous.

(* outside the domain: a negative month is written but cannot be read back (RFC 5545 has none) *)
Example C19_negative_month_outside :
  let d := recur_new [(K"FREQ", One (S"DAILY")); (K"BYMONTH", One (RInt (-5)))] in
  rule_ok d = false /\ recur_to_ical d = Ok (s2l "FREQ=DAILY;BYMONTH=-5")
  /\ recur_from_ical (s2l "FREQ=DAILY;BYMONTH=-5") = ValueErr.
Proof. vm_compute. repeat split; reflexivity. Qed.
Print Assumptions C19_negative_month_outside.

(* ---------------------------------------------------------------- the RECUR grammar *)
(* for every rule built from any combination of RFC 5545 / RFC 7529 rule parts -- any number of
   parts in any order, names in any letter case, scalar or list values -- with values in the RFC
   domain ([rfc_rule_ok]: the round-trip domain [rule_ok], no BYWEEKDAY alias, COUNT/INTERVAL >= 0,
   BYSECOND 0..60, BYMINUTE 0..59, BYHOUR 0..23, BYMONTHDAY +-1..31, BYYEARDAY/BYSETPOS +-1..366,
   BYWEEKNO +-1..53, BYMONTH 1..13 with optional leap marker, BYDAY weekdaynum, WKST weekday, RSCALE
   a token, one value for the single-valued parts, FREQ present, not both COUNT and UNTIL), the text
   written by vRecur.to_ical is accepted by the recogniser [recur_grammar] written from the ABNF of
   RFC 5545 3.3.10 / RFC 7529 4.1: every part well formed, every name at most once, FREQ first or
   directly after RSCALE, COUNT and UNTIL not together *)
Theorem C19_recur_grammar : forall (items : list (key * rvals)) txt,
  rfc_rule_ok (recur_new items) = true ->
  recur_to_ical (recur_new items) = Ok txt ->
  recur_grammar txt = true.
Proof. exact recur_grammar_accepts. Qed.
Print Assumptions C19_recur_grammar.

(* non-vacuity of the grammar theorem: RSCALE + FREQ + UNTIL + BY parts with negative and ordinal
   values, a leap month given as value and one given as text, names in mixed case and out of order.
   The rule is inside the guard, is written as shown, and the text is accepted *)
Definition c19_grammar_rule : rdict :=
  recur_new [(K"bymonthday", Many [RInt (-1); RInt 15; RInt (-31)]); (K"UNTIL", One (RDateTime 2031 2 28 23 59 59 true));
             (K"byDay", Many [S"-1su"; S"+2FR"; S"53mo"; S"TH"]); (K"freq", One (S"yearly"));
             (K"BYMONTH", Many [RInt 1; RMonth 5 true; S"12L"; RInt 13]); (K"ByYearDay", Many [RInt (-366); RInt 100]);
             (K"byweekno", Many [RInt (-53); RInt 1]); (K"bysetpos", Many [RInt (-1); RInt 366]);
             (K"byhour", Many [RInt 0; RInt 23]); (K"BYSECOND", One (RInt 60)); (K"interval", One (RInt 2));
             (K"Rscale", One (S"HEBREW")); (K"skip", One (S"BACKWARD")); (K"wkst", One (S"mo"))].
Definition c19_grammar_guard : bool := Eval vm_compute in rfc_rule_ok c19_grammar_rule.
Definition c19_grammar_text : res str := Eval vm_compute in recur_to_ical c19_grammar_rule.
Definition c19_grammar_expected : str :=
  s2l "RSCALE=HEBREW;FREQ=YEARLY;UNTIL=20310228T235959Z;INTERVAL=2;BYSECOND=60;BYHOUR=0,23;BYDAY=-1SU,+2FR,53MO,TH;BYMONTHDAY=-1,15,-31;BYYEARDAY=-366,100;BYWEEKNO=-53,1;BYMONTH=1,5L,12L,13;BYSETPOS=-1,366;WKST=MO;SKIP=BACKWARD".
Example C19_recur_grammar_nonvacuous :
  rfc_rule_ok c19_grammar_rule = true
  /\ recur_to_ical c19_grammar_rule = Ok c19_grammar_expected
  /\ recur_grammar c19_grammar_expected = true.
Proof.
  assert (G : rfc_rule_ok c19_grammar_rule = c19_grammar_guard) by (vm_compute; reflexivity).
  assert (T : recur_to_ical c19_grammar_rule = c19_grammar_text) by (vm_compute; reflexivity).
  assert (E : c19_grammar_text = Ok c19_grammar_expected) by (vm_compute; reflexivity).
  split; [rewrite G; reflexivity|]. split; [rewrite T; exact E|].
  exact (C19_recur_grammar _ _ (eq_trans G eq_refl) (eq_trans T E)).
Qed.
Print Assumptions C19_recur_grammar_nonvacuous.

(* ---------------------------------------------------------------- which values are in the domain (val_ok) *)
(* every integer, for every integer-valued part: int(str(z)) = z *)
Theorem C19_leaf_int : forall z : Z, val_ok TInt (RInt z) = true /\ py_int (dec_Z z) = Ok z.
Proof. intros z. split; [apply val_ok_int|apply py_int_dec_Z]. Qed.
Print Assumptions C19_leaf_int.

(* every frequency of the generated table, in any letter case *)
Theorem C19_leaf_freq : forall s, mem_str (upper s) frequency_names = true -> val_ok TFreq (RStr s) = true.
Proof. exact val_ok_freq. Qed.
Print Assumptions C19_leaf_freq.

Theorem C19_leaf_skip : forall s, mem_str s skip_values = true -> val_ok TSkip (RStr s) = true.
Proof. exact val_ok_skip. Qed.
Print Assumptions C19_leaf_skip.

(* every RFC weekdaynum: 7 weekdays x (bare | [+|-] 1..53) = 1120 texts, finite table over the generated names;
   each is also accepted by the recogniser's weekdaynum *)
Theorem C19_leaf_weekdaynum :
  forallb (fun s => val_ok TWeekday (RStr s) && g_weekdaynum s) all_weekdaynums = true
  /\ List.length all_weekdaynums = 1120%nat.
Proof. exact weekdaynum_table_ok. Qed.
Print Assumptions C19_leaf_weekdaynum.

(* the generated frequency / skip / weekday names are exactly the RFC lists the recogniser uses *)
Theorem C19_tables_match_rfc :
  forallb (fun f => mem_str f rfc_freqs) frequency_names = true
  /\ forallb (fun f => mem_str f frequency_names) rfc_freqs = true
  /\ forallb (fun s => mem_str s rfc_skips) skip_values = true
  /\ forallb (fun s => mem_str s skip_values) rfc_skips = true
  /\ forallb (fun d => mem_str d rfc_weekdays) (map fst weekday_table) = true
  /\ forallb (fun d => mem_str d (map fst weekday_table)) rfc_weekdays = true.
Proof. exact tables_match_rfc. Qed.
Print Assumptions C19_tables_match_rfc.

(* UNTIL values and leap months: evaluated members of the domain (boundary dates of each kind) *)
Example C19_leaf_until_month_examples :
  forallb (val_ok TUntil) [RDate 1 1 1; RDate 9999 12 31; RDate 2024 2 29; RDateTime 1 1 1 0 0 0 false;
                           RDateTime 9999 12 31 23 59 59 true; RDateTime 2000 2 29 12 30 59 true] = true
  /\ forallb (val_ok TMonth) [RInt 1; RInt 12; RMonth 5 true; RMonth 13 true; RStr (s2l "5L"); RStr (s2l "12")] = true
  /\ val_ok TUntil (RDate 2023 2 29) = false.
Proof. vm_compute. repeat split; reflexivity. Qed.
Print Assumptions C19_leaf_until_month_examples.
