(* C19 -- recurrence rules round-trip.  Statements only. *)
Require Import Lib.Base Gen.Gen_recur Model.Params Model.Recur.
